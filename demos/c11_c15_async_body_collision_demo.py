"""C11 / C15 (known finding VISIT-7 `descends-into:AsyncFunctionDef`): `RewriteAtQuery` has no handler for `async def`, so
NodeTransformer's default descends into a coroutine's body.  `_location` is not a full path (VISIT-4): an assignment inside an
`if` block of the coroutine carries the one-element location of a module-level definition of the same name, and is replaced in
its stead.  For a plain `def` the handler does not descend, and the module-level class is the one that is replaced.
usage: PYTHONPATH=/repo /venv/bin/python c11_c15_async_body_collision_demo.py"""
import ast
import sys

try:
    import meta.asttools  # noqa
except KeyError:
    pass
from doctrans.ast_utils import RewriteAtQuery, annotate_ancestry

SRC = '''
{kw} helper(flag):
    if flag:
        Config = None
    return flag


class Config(object):
    lr = 0.1
'''
replacement = ast.parse("class Config(object):\n    lr = 0.5\n").body[0]
ok = True
for kw in ("def", "async def"):
    mod = ast.parse(SRC.format(kw=kw))
    annotate_ancestry(mod)
    rw = RewriteAtQuery(search=["Config"], replacement_node=replacement)
    out = rw.visit(mod)
    helper, cls = out.body[0], out.body[1]
    local_replaced = any(isinstance(x, ast.ClassDef) for x in ast.walk(helper))
    real_replaced = ast.unparse(cls).strip().endswith("lr = 0.5")
    print("%-9s: local assignment replaced by the class: %s; module-level class replaced: %s" % (kw, local_replaced, real_replaced))
    if kw == "async def" and (local_replaced or not real_replaced):
        ok = False
print("PASS" if ok else "FAIL (the coroutine's local assignment was taken for the addressed class)")
sys.exit(0 if ok else 1)
