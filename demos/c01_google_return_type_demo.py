"""C01 (TABLE-style google return type line, fixed 56d7ea1): a Google return entry that has a type and no description is written as the one
line `Tuple[int, int]:`; the reader took any single line for the description and the type was lost.
usage: PYTHONPATH=<tree> /venv/bin/python c01_google_return_type_demo.py  (exit 1 = a style loses the type)"""
import sys
from collections import OrderedDict
from copy import deepcopy

from doctrans import emit, parse

ir = {"name": None, "doc": "Summary.", "type": "static", "params": OrderedDict([("x", {"doc": "the x", "typ": "int"})]),
      "returns": OrderedDict([("return_type", {"typ": "Tuple[int, int]"})])}
bad = 0
for style in ("rest", "numpydoc", "google"):
    try:
        got = dict((parse.docstring(emit.docstring(deepcopy(ir), docstring_format=style)).get("returns") or {}).get("return_type", {}))
        ok = got.get("typ") == "Tuple[int, int]" and not got.get("doc")
        print(style, "ok" if ok else "DIFF %r" % got)
    except Exception as e:
        ok = False
        print(style, "RAISES", type(e).__name__, e)
    bad += not ok
print("FAIL" if bad else "PASS")
sys.exit(1 if bad else 0)
