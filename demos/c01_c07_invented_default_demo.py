"""Demonstration (not a check) for the INVENTED-DEFAULT known finding (C01, C07): defaults invented by the numpydoc / google reader.
usage: PYTHONPATH=<tree> /venv/bin/python c01_c07_invented_default_demo.py"""
import copy
try:
    import meta.asttools
except Exception: pass
from collections import OrderedDict
from doctrans import emit, parse
P=lambda **k:k
def mk(params, returns=None, doc="Summary."):
    return {"name": None, "type": "static", "doc": doc, "params": OrderedDict(params), "returns": returns}
irs={"after-default": mk([("a",P(typ="int",doc="the a",default=5)),("b",P(typ="str",doc="the b")),("c",P(typ="List[int]",doc="the c"))]),
     "only-return": mk([], returns=OrderedDict((("return_type",P(typ="int",doc="the result")),))),
     "after-default-ret": mk([("a",P(typ="int",doc="the a",default=5))], returns=OrderedDict((("return_type",P(typ="int",doc="the result")),)))}
def strip_defaults_text(ir):
    return ir
for st in ("rest","numpydoc","google"):
    for n,ir in irs.items():
        try:
            t=emit.docstring(copy.deepcopy(ir),docstring_format=st)
            b=parse.docstring(t, emit_default_doc=False)
            want=copy.deepcopy(ir)
            if b!=want:
                print("DIFF",st,n); print("   params", {k:dict(v) for k,v in b["params"].items()}); print("   returns", b["returns"]); print("   doc", repr(b["doc"]))
        except Exception as e:
            print("EXC",st,n,repr(e)[:100])
src='''
def f(a=5, *, b, c: int):
    """
    Do it

    Parameters
    ----------
    a : int
        the a. Defaults to 5
    b : str
        the b
    c : int
        the c
    """
'''
ir=parse.function(ast.parse(src).body[0])
print({k:dict(v) for k,v in ir["params"].items()})
