"""C18 / C01 (DOC-ALL-LINES, fixed 23d1924): the numpydoc reader built the return entry from the first two scanned lines: a wrapped return
description came back cut after its first line, and a Returns section that holds only a type raised IndexError.
usage: PYTHONPATH=<tree> /venv/bin/python c18_numpydoc_return_lines_demo.py   (exit 1 = numpydoc differs / raises)"""
import sys
from collections import OrderedDict
from copy import deepcopy

from doctrans import emit, parse

long = ("the bounds that were computed from the data, one pair per axis, in the order in which the axes were given on the "
        "command line by the caller")
bad = 0
for label, ret in (("long prose", {"doc": long, "typ": "Tuple[int, int]"}), ("type only", {"typ": "Tuple[int, int]"})):
    ir = {"name": None, "doc": "Summary.", "type": "static", "params": OrderedDict([("x", {"doc": "the x", "typ": "int"})]),
          "returns": OrderedDict([("return_type", ret)])}
    try:
        back = parse.docstring(emit.docstring(deepcopy(ir), docstring_format="numpydoc"))
        got = dict((back.get("returns") or {}).get("return_type", {}))
        ok = got.get("doc") == ret.get("doc") and got.get("typ") == ret["typ"]
        print("numpydoc", label, "ok" if ok else "DIFF %r" % got)
    except Exception as e:
        ok = False
        print("numpydoc", label, "RAISES", type(e).__name__, e)
    bad += not ok
print("FAIL" if bad else "PASS")
sys.exit(1 if bad else 0)
