"""C19 / C06 (fixed 062d886, c56cc38): gen over a live function without a docstring raised KeyError('params'); over a function without
arguments StopIteration (RuntimeError inside the generator); and the argparse output for a function that returns a number raised TypeError
(ast.parse(1)).  usage: PYTHONPATH=<tree> /venv/bin/python c19_gen_undocumented_noargs_demo.py  (exit 1 = some combination fails)"""
try:
    import meta.asttools
except KeyError:
    pass
import os, sys, tempfile, textwrap, traceback
d = tempfile.mkdtemp()
sys.path.insert(0, d)
open(os.path.join(d, 'livemod5.py'), 'w').write(textwrap.dedent('''
    def nodoc(a=5, b="x"):
        return a

    def noargs():
        """
        No args function
        """
        return 1

    class WithInit(object):
        """
        With init

        :cvar size: the size
        """
        size: int = 3
        def __init__(self, size=3):
            """
            :param size: the size
            """
            self.size = size

    M1 = {"nodoc": nodoc}
    M2 = {"noargs": noargs}
    M3 = {"WithInit": WithInit}
'''))
from doctrans.gen import gen
BAD = []
for m in ('M1','M2','M3'):
  for typ in ('class', 'function', 'argparse'):
    out = os.path.join(d, 'out_%s_%s.py' % (m,typ))
    try:
        gen(name_tpl='{name}Config', input_mapping='livemod5.'+m, type_=typ, output_filename=out, prepend=None, imports_from_file=None)
        src = open(out).read(); compile(src, out, 'exec')
        print(m, typ, 'OK')
    except Exception as e:
        tb = traceback.extract_tb(e.__traceback__)[-1]
        print(m, typ, 'EXC', type(e).__name__, str(e)[:100], '@', os.path.basename(tb.filename), tb.lineno)
        BAD.append((m, typ))
print('FAIL' if BAD else 'PASS')
sys.exit(1 if BAD else 0)
