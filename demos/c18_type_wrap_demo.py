"""C18 / C01 known finding (WRAP-NOT-TYPE): the ReST writer word-wraps the `:type x:` line; a type with blanks that is longer than the
line comes back with the line break and the continuation indent inside it.  numpydoc (fix 32fcad7) and google do not wrap the type.
usage: PYTHONPATH=<tree> /venv/bin/python c18_type_wrap_demo.py    exit 1 when a style changes the type"""
import sys
from collections import OrderedDict
from copy import deepcopy

from doctrans import emit, parse

typ = "Union[Literal['alpha', 'beta', 'gamma', 'delta', 'epsilon'], Tuple[int, int, int, int], Dict[str, Optional[List[float]]], None]"
ir = {"name": None, "doc": "Summary.", "type": "static",
      "params": OrderedDict([("x", {"doc": "the x", "typ": typ, "default": "alpha"}), ("y", {"doc": "the y", "typ": "int"})]), "returns": None}
bad = 0
for style in ("rest", "numpydoc", "google"):
    back = parse.docstring(emit.docstring(deepcopy(ir), docstring_format=style))
    ok = back["params"].get("x", {}).get("typ") == typ and list(back["params"]) == ["x", "y"]
    bad += not ok
    print(style, "OK" if ok else "DIFF: type read back as %r" % back["params"].get("x", {}).get("typ"))
print("FAIL" if bad else "PASS")
sys.exit(1 if bad else 0)
