"""Three defects of the argparse / class paths, found through what a round-6 seed writer said it had to steer around (fixed in
/repo b56dc19, b25ac65, afd3319).  usage: PYTHONPATH=<tree> /venv/bin/python c04_c07_literal_getvalue_demo.py   (exit 1 = some fail)

1. C04  `Literal[1, 2, 3]`: doctrans writes choices=(1, 2, 3); reading the function back raised TypeError (JOIN-KIND).
2. C04  `Literal['only']`: no choices were written, the type came back as str (no rule - see DESIGN).
3. C07 / C02 / C04 / C06  get_value answered the base of an Attribute / Subscript: `dtype: str = np.float32` parsed with the
   default 'np', an argparse default ```np.float32``` emitted as ```(np)``` (GETVALUE-PART).
"""
import ast
import sys
from collections import OrderedDict
from copy import deepcopy

from doctrans import emit, parse
from doctrans.source_transformer import to_code

bad = 0
for name, p in (("lit_ints", {"doc": "the n", "typ": "Literal[1, 2, 3]", "default": 2}), ("lit_one", {"doc": "the m", "typ": "Literal['only']", "default": "only"})):
    ir = {"name": "set_cli_args", "doc": "Summary.", "type": "static", "params": OrderedDict([(name, dict(p))]), "returns": None}
    code = to_code(emit.argparse_function(deepcopy(ir), emit_default_doc=False))
    try:
        back = dict(parse.argparse_ast(ast.parse(code).body[0])["params"][name])
        ok = back.get("typ") == p["typ"] and back.get("default") == p["default"]
        print(name, "ok" if ok else "DIFF %r" % back)
    except Exception as e:
        ok = False
        print(name, "RAISES", type(e).__name__, e)
    bad += not ok

src = 'class C(object):\n    """\n    Summary.\n\n    :cvar dtype: the dtype\n    :cvar item: an item"""\n\n    dtype: str = np.float32\n    item: str = table["key"]\n'
params = parse.class_(ast.parse(src).body[0])["params"]
for name, want in (("dtype", "np.float32"), ("item", "table['key']")):
    got = params[name].get("default")
    ok = isinstance(got, str) and got.strip("`()") == want
    bad += not ok
    print("class attribute", name, "ok" if ok else "READ AS %r" % (got,))

ir = {"name": "set_cli_args", "doc": "Summary.", "type": "static", "params": OrderedDict([("d", {"doc": "the d", "typ": "str", "default": "```np.float32```"})]), "returns": None}
line = [l for l in to_code(emit.argparse_function(ir, emit_default_doc=False)).splitlines() if "add_argument" in l][0]
ok = "np.float32" in line
bad += not ok
print("argparse code default", "ok" if ok else "WRITTEN AS %s" % line.strip())
print("FAIL" if bad else "PASS")
sys.exit(1 if bad else 0)
