"""Demonstration (not a check) for the two SCAN-END findings repaired in a0c24e1 / 94281ad: where the announced default stops.
usage: PYTHONPATH=<tree> /venv/bin/python c17_scan_end_demo.py"""
try:
    import meta.asttools
except Exception: pass
from doctrans.defaults_utils import extract_default, set_default_doc
for line in ('x. Defaults to "model.h5"', 'x. Defaults to "a.b". More prose.', "x. Defaults to 'v1.2.3'", 'x. Defaults to "no dots". Tail.', 'x. Defaults to 3.14. Tail.', 'x. Defaults to (1.5, "a.b"). Tail'):
    print(repr(line), '->', extract_default(line), extract_default(line, emit_default_doc=False))
from collections import OrderedDict
from doctrans import emit, parse
ir={"name":None,"type":"static","doc":"S.","params":OrderedDict((("f",{"typ":"str","doc":"the file","default":"model.h5"}),)),"returns":None}
for st in ("rest","numpydoc","google"):
    t=emit.docstring(ir,docstring_format=st); b=parse.docstring(t); print(st, dict(b["params"]["f"]))
