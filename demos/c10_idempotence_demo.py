"""C10 / C09 (CMP-PARSED, fixed a48f851): on Python 3.12 a second `sync` run rewrote an up-to-date class target and reported it
'modified' - cmp_ast(parsed ClassDef, emitted ClassDef) is never true when the emitted node lacks `type_params`.
usage: PYTHONPATH=<tree> /venv/bin/python c10_idempotence_demo.py     (prints what each run reports; exit 1 when run 2 or 3 reports a
modification of a file whose bytes did not change, or a stale target is not updated)"""
try:
    import meta.asttools
except KeyError:
    pass
import os, sys, tempfile, shutil, hashlib
from doctrans.__main__ import main
d = tempfile.mkdtemp()
truth = os.path.join(d, 'truth.py'); cls = os.path.join(d, 'conf.py'); fn = os.path.join(d, 'fn.py')
open(truth,'w').write('''def set_cli_args(argument_parser):
    """
    Set CLI arguments

    :param argument_parser: argument parser
    :type argument_parser: ```ArgumentParser```

    :returns: argument_parser
    :rtype: ```ArgumentParser```
    """
    argument_parser.description = 'Summary here.'
    argument_parser.add_argument('--alpha', type=int, help='the alpha', required=True, default=5)
    argument_parser.add_argument('--beta', type=str, help='the beta', required=True, default='b')
    return argument_parser
''')
def h(p): return hashlib.sha256(open(p,'rb').read()).hexdigest()[:10] if os.path.exists(p) else None
import io, contextlib
BAD = []
for run in (1,2,3):
    buf = io.StringIO()
    with contextlib.redirect_stdout(buf):
        main(['sync','--argparse-function', truth, '--argparse-function-name','set_cli_args','--class', cls, '--class-name','Conf','--function', fn, '--function-name','f','--truth','argparse_function'])
    out = buf.getvalue().strip().replace('\n',' ; ')
    print('run', run, 'class', h(cls), 'fn', h(fn), '|', out[:300])
    if run > 1 and 'modified' in out:
        BAD.append('run %d reports a modification of an unchanged file' % run)
shutil.rmtree(d)
d = tempfile.mkdtemp()
truth = os.path.join(d, 'truth.py'); cls = os.path.join(d, 'conf.py')
open(truth,'w').write('''def set_cli_args(argument_parser):
    """
    Set CLI arguments

    :param argument_parser: argument parser
    :type argument_parser: ```ArgumentParser```

    :returns: argument_parser
    :rtype: ```ArgumentParser```
    """
    argument_parser.description = 'Summary here.'
    argument_parser.add_argument('--alpha', type=int, help='the alpha', required=True, default=5)
    return argument_parser
''')
open(cls,'w').write('''class Conf(object):
    """
    Summary here.

    :cvar alpha: the alpha"""

    alpha: int = 7
''')
for run in (1,2):
    buf = io.StringIO()
    with contextlib.redirect_stdout(buf):
        main(['sync','--argparse-function', truth, '--argparse-function-name','set_cli_args','--class', cls, '--class-name','Conf','--truth','argparse_function'])
    out = buf.getvalue().strip()
    print('stale run', run, h(cls), '|', out[:100], '|', [l for l in open(cls).read().splitlines() if 'alpha:' in l])
    if run == 1 and 'alpha: int = 5' not in open(cls).read():
        BAD.append('a stale class target was not updated')
    if run == 2 and 'modified' in out:
        BAD.append('second run on the updated target reports a modification')
shutil.rmtree(d)

print('FAIL: ' + '; '.join(BAD) if BAD else 'PASS')
sys.exit(1 if BAD else 0)
