"""Demonstrations (not checks) for the two C17 findings repaired in 4731e85 / c19e358: which Python type an announced default comes back with.
usage: PYTHONPATH=<tree> /venv/bin/python c17_ladder_demo.py   (on 32fcad7: -5 -> -5.0 float; declared str + unquoted word -> ValueError)"""
try:
    import meta.asttools
except Exception: pass
from doctrans.defaults_utils import extract_default, set_default_doc
cases=[("x. Defaults to -5",None),("x. Defaults to +5",None),("x. Defaults to 5",None),("x. Defaults to 5.0",None),("x. Defaults to -0.5",None),("x. Defaults to 1e-7",None),
       ("x. Defaults to mnist","str"),("x. Defaults to \"mnist\"","str"),("x. Defaults to -5","int"),("x. Defaults to 5","float"),("x. Defaults to True","bool"),("x. Defaults to 0",None),("x. Defaults to -0",None),
       ("x. Defaults to 1_000",None),("x. Defaults to 0x10",None),("x. Defaults to 5.",None),("x. Defaults to 5. More prose",None),("x. Defaults to -5. More prose.",None),("x. Defaults to 1e3",None),("x. Defaults to nan",None),("x. Defaults to inf",None),("x. Defaults to infinity",None)]
for line,typ in cases:
    try:
        r=extract_default(line,typ=typ)
        print(repr(line),typ,'->',repr(r[1]),type(r[1]).__name__)
    except Exception as e:
        print(repr(line),typ,'EXC',repr(e)[:100])
for ds in ['\nSummary\n\n:param x: name. Defaults to mnist\n:type x: ```str```\n', '\nSummary\n\n:param x: count. Defaults to -5\n:type x: ```int```\n', '\nSummary\n\n:param x: count. Defaults to -5\n', '\nSummary\n\n:param x: count. Defaults to -5\n:param y: other\n']:
    try:
        print(dict(parse.docstring(ds)['params']))
    except Exception as e:
        print('EXC', repr(e)[:120])
