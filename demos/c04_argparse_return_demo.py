"""C04 / C18 (fixed 3449647, 444dec4): the reader of an argparse function's return entry took the description from the one docstring line
that starts with ':return' (wrapped prose cut: DOC-ALL-LINES) and rendered the tuple element to source (a back-tick quoted default, which the
writer stores as a string constant, came back with an extra pair of quotes: RETURN-CONST).
usage: PYTHONPATH=<tree> /venv/bin/python c04_argparse_return_demo.py   (exit 1 = differs)"""
import ast
import sys
from collections import OrderedDict
from copy import deepcopy

from doctrans import emit, parse
from doctrans.source_transformer import to_code

long = ("the bounds that were computed from the data, one pair per axis, in the order in which the axes were given on the "
        "command line by the caller")
bad = 0
for label, ret in (("wrapped prose", {"doc": long, "typ": "Tuple[int, int]", "default": "(1, 2)"}),
                   ("code default", {"doc": "the r", "typ": "Tuple[int, int]", "default": "```(1, 2)```"})):
    ir = {"name": "set_cli_args", "doc": "Summary.", "type": "static", "params": OrderedDict([("x", {"doc": "the x", "typ": "int", "default": 1})]),
          "returns": OrderedDict([("return_type", ret)])}
    back = parse.argparse_ast(ast.parse(to_code(emit.argparse_function(deepcopy(ir), emit_default_doc=False))).body[0])
    got = dict(back["returns"]["return_type"])
    ok = got.get("doc") == ret["doc"] and got.get("default") == ret["default"]
    bad += not ok
    print(label, "ok" if ok else "DIFF %r" % got)
print("FAIL" if bad else "PASS")
sys.exit(1 if bad else 0)
