"""Three defects found while testing the checker against refactorings (round 7), shown against the real code.
usage: PYTHONPATH=<tree> /venv/bin/python c01_c03_falsy_prose_demo.py     exit 0 = all three behave, exit 1 = at least one fails

1. C03/C06  emit.function: a returned default of 0 / False / 0.0 is judged by truthiness -> no `return` statement is written
            (FALSY; the exception 'a return default is a source string' was wrong: parse.function gives numbers).
2. C01/C17  set_default_doc: a None default of a str-typed parameter is written `Defaults to ""` and read back as ''
            (regression of fix 74cdf36: `quote(d) or '""'` cannot tell None from ''; FALSY through a helper that hands its argument back).
3. C01      a parameter with a default and no prose loses the default in a stand-alone docstring, all three styles (PROSE-GATE).
"""
import ast
import sys
from collections import OrderedDict
from copy import deepcopy

from doctrans import emit, parse
from doctrans.source_transformer import to_code

bad = 0

# 1
for dv in (0, False, 0.0):
    ir = {"name": "f", "doc": "doc", "type": "static", "params": OrderedDict([("a", {"doc": "the a", "typ": "int", "default": 1})]),
          "returns": OrderedDict([("return_type", {"doc": "the r", "typ": type(dv).__name__, "default": dv})])}
    code = to_code(emit.function(deepcopy(ir), "f", function_type="static"))
    back = parse.function(ast.parse(code).body[0])["returns"]["return_type"].get("default", "<absent>")
    ok = back == dv and type(back) is type(dv)
    bad += not ok
    print("1. return default %r -> function -> %r %s" % (dv, back, "ok" if ok else "LOST"))

# 2
NoneStr = "```(None)```"
for typ in ("str", "Optional[str]"):
    ir = {"name": None, "doc": "Summary.", "type": "static", "params": OrderedDict([("x", {"doc": "the x", "typ": typ, "default": NoneStr})]), "returns": None}
    for style in ("rest", "numpydoc", "google"):
        back = parse.docstring(emit.docstring(deepcopy(ir), docstring_format=style, emit_default_doc=True), emit_default_doc=True)["params"]["x"].get("default", "<absent>")
        ok = back in (NoneStr, None, "None")  # the three spellings of pure_utils.none_types
        bad += not ok
        print("2. None default of %s, %s -> %r %s" % (typ, style, back, "ok" if ok else "BECAME ANOTHER VALUE"))

# 3
ir = {"name": None, "doc": "Summary.", "type": "static", "params": OrderedDict([("x", {"typ": "int", "default": 5}), ("y", {"doc": "", "typ": "int", "default": 6})]), "returns": None}
for style in ("rest", "numpydoc", "google"):
    back = parse.docstring(emit.docstring(deepcopy(ir), docstring_format=style, emit_default_doc=True), emit_default_doc=True)["params"]
    for n, want in (("x", 5), ("y", 6)):
        got = back.get(n, {}).get("default", "<absent>")
        ok = got == want
        bad += not ok
        print("3. prose-less %s=%r, %s -> %r %s" % (n, want, style, got, "ok" if ok else "LOST"))

print("FAIL" if bad else "PASS")
sys.exit(1 if bad else 0)
