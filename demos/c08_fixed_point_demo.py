"""Demonstration (not a check) for C08: emit -> parse -> emit -> parse -> emit over 9 IRs x 7 kinds; prints DRIFT when the second and third emissions differ and EXC
when a step raises.  On c19e358: DRIFT numpydoc/google strs (the explicit default \x27\x27: one more `Defaults to` per pass), EXC rest/numpydoc/google ret (a return default expression with
a declared simple type).  Silent from d1a1066 on.  usage: PYTHONPATH=<tree> /venv/bin/python c08_fixed_point_demo.py"""
import sys, copy, itertools, traceback
try:
    import meta.asttools
except Exception: pass
from collections import OrderedDict
from doctrans import emit, parse
from doctrans.source_transformer import to_code
import ast

def mk(params, returns=None, doc="Summary line of the thing."):
    return {"name": "thing", "type": "static", "doc": doc, "params": OrderedDict(params), "returns": returns}

P = lambda **kw: kw
irs = {
 "ints": mk([("a", P(typ="int", doc="the a", default=-5)), ("b", P(typ="int", doc="the b", default=0)), ("c", P(typ="float", doc="the c", default=0.5))]),
 "strs": mk([("s", P(typ="str", doc="the s", default="mnist")), ("t", P(typ="str", doc="the t", default="")), ("u", P(typ="Optional[str]", doc="the u", default="```None```"))]),
 "bools": mk([("f", P(typ="bool", doc="the f", default=True)), ("g", P(typ="bool", doc="the g", default=False))]),
 "nodefault": mk([("x", P(typ="int", doc="the x")), ("y", P(typ="List[str]", doc="the y"))]),
 "code": mk([("k", P(typ="Tuple[int, int]", doc="the k", default="```(1, 2)```")), ("l", P(typ="Literal['a', 'b']", doc="the l", default="a"))]),
 "ret": mk([("x", P(typ="int", doc="the x", default=1))], returns=OrderedDict((("return_type", P(typ="int", doc="the result", default="```x + 1```")),))),
 "kw": mk([("x", P(typ="int", doc="the x", default=1)), ("kwargs", P(typ="Optional[dict]", doc="extra", default="```None```"))]),
 "noprose": mk([("x", P(typ="int", default=3)), ("y", P(typ="str"))]),
 "dots": mk([("x", P(typ="float", doc="ratio, e.g. 0.5 of it. More text.", default=1.5))], doc="Summary.\nSecond line of summary."),
}

def emit_kind(kind, ir):
    ir = copy.deepcopy(ir)
    if kind in ("rest", "numpydoc", "google"):
        return emit.docstring(ir, docstring_format=kind)
    if kind == "class":
        return to_code(emit.class_(ir, class_name="Thing"))
    if kind == "function":
        return to_code(emit.function(ir, function_name="thing", function_type="static"))
    if kind == "method":
        return to_code(emit.function(ir, function_name="thing", function_type="self"))
    if kind == "argparse":
        return to_code(emit.argparse_function(ir, function_name="set_cli_args"))

def parse_kind(kind, text):
    if kind in ("rest", "numpydoc", "google"):
        return parse.docstring(text)
    node = ast.parse(text).body[0]
    if kind == "class":
        return parse.class_(node)
    if kind in ("function", "method"):
        return parse.function(node)
    if kind == "argparse":
        return parse.argparse_ast(node)

for kind in ("rest", "numpydoc", "google", "class", "function", "method", "argparse"):
    for name, ir in irs.items():
        try:
            t1 = emit_kind(kind, ir)
            t2 = emit_kind(kind, parse_kind(kind, t1))
            t3 = emit_kind(kind, parse_kind(kind, t2))
            if t2 != t3:
                print("DRIFT", kind, name)
                import difflib
                print("".join(list(difflib.unified_diff(t2.splitlines(1), t3.splitlines(1), "second", "third"))[:14]))
        except Exception as e:
            print("EXC", kind, name, repr(e)[:150])
