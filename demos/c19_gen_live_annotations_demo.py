"""C19 (fixed 198166a, f7908a8): `gen` over a mapping that holds an *annotated* live function failed with SyntaxError for the output types
class and function: the annotation object was formatted with str() ("<class 'int'>"), and lstrip_namespace stripped a *set of
characters* ("int".lstrip("typings.") == "").  usage: PYTHONPATH=<tree> /venv/bin/python c19_gen_live_annotations_demo.py (exit 1 = a type fails)"""
try:
    import meta.asttools
except KeyError:
    pass
import os, sys, tempfile, textwrap
d = tempfile.mkdtemp()
sys.path.insert(0, d)
open(os.path.join(d, 'livemod.py'), 'w').write(textwrap.dedent('''
    def alpha(a: int = 5, b: str = "x"):
        """
        Alpha function

        :param a: the a
        :param b: the b
        """
        return a

    class Beta(object):
        """
        Beta class

        :cvar size: the size
        """
        size: int = 3

    MAPPING = {"alpha": alpha, "Beta": Beta}
'''))
from doctrans.gen import gen
BAD = []
for typ in ('class', 'function', 'argparse'):
    out = os.path.join(d, 'out_%s.py' % typ)
    try:
        gen(name_tpl='{name}Config', input_mapping='livemod.MAPPING', type_=typ, output_filename=out, prepend=None, imports_from_file=None)
        src = open(out).read()
        compile(src, out, 'exec')
        print(typ, 'OK', len(src.splitlines()), 'lines')
        assert 'a: int' in src or 'type=int' in src, src
    except Exception as e:
        print(typ, 'EXC', type(e).__name__, str(e)[:200])
        BAD.append(typ)
print('FAIL' if BAD else 'PASS')
sys.exit(1 if BAD else 0)
