#!/venv/bin/python
"""Demonstrations (not checks) for the C18 findings: parse(wrapped) vs parse(unwrapped) over a sweep of line lengths.

usage: PYTHONPATH=<tree> /venv/bin/python c18_wrap_demo.py            sweeps 24..128 and prints every width / style that differs
       PYTHONPATH=<tree> /venv/bin/python c18_wrap_demo.py <width>    one width, in this process (DOCTRANS_LINE_LENGTH is read at import)

On 811f35f..50c404b every numpydoc width below the description length differs (continuation lines at column 0, wrapped type
line) and ReST differs for long words / hyphenated words; after 363bba1, 01cc418, 32fcad7 what remains is
  * numpydoc / google parameters whose `Defaults to` announcement straddles a line end (reader runs before the re-join),
  * the ReST :returns: entry whose announcement straddles a line end (never re-joined),
  * the numpydoc return description losing its continuation lines (value-level, not decided statically).
"""
import json
import os
import subprocess
import sys

if len(sys.argv) > 1:
    os.environ["DOCTRANS_LINE_LENGTH"] = sys.argv[1]
    try:
        import meta.asttools  # noqa: F401  (first import raises KeyError under 3.12, works on retry)
    except Exception:
        pass
    import copy
    from collections import OrderedDict

    from doctrans import emit, parse

    ir = {
        "name": None, "type": "static", "doc": "Summary line.",
        "params": OrderedDict((
            ("alpha", {"typ": "int", "doc": "the alpha value of the thing used in fits", "default": 5}),
            ("beta", {"typ": "Optional[Dict[str, Union[int, float, complex]]]", "doc": "the beta value that uses ml-prepare and elsewhere", "default": "xy"}),
            ("gamma", {"typ": "Literal['aaaaaaaaaaaaaaaaaaaaaa','bbbbbbbbbbbbbbbbbbbbbbbbb']", "doc": "short"}),
        )),
        "returns": OrderedDict((("return_type", {"typ": "int", "doc": "the result of the long computation that was done", "default": 5}),)),
    }

    def norm(d):
        f = lambda m: {k: {kk: (" ".join(vv.split()) if isinstance(vv, str) else vv) for kk, vv in v.items()} for k, v in (m or {}).items()}
        return json.dumps({"params": f(d["params"]), "returns": f(d["returns"])}, sort_keys=True)

    for style in ("rest", "numpydoc", "google"):
        try:
            a = emit.docstring(copy.deepcopy(ir), docstring_format=style, word_wrap=True)
            b = emit.docstring(copy.deepcopy(ir), docstring_format=style, word_wrap=False)
            pa, pb = norm(parse.docstring(a)), norm(parse.docstring(b))
            if pa != pb:
                print(style, sys.argv[1], "DIFF\n   wrapped  :", pa[:400], "\n   unwrapped:", pb[:400])
        except Exception as e:
            print(style, sys.argv[1], "EXC", repr(e)[:200])
else:
    for w in range(24, 130, 2):
        r = subprocess.run([sys.executable, __file__, str(w)], capture_output=True, text=True)
        sys.stdout.write(r.stdout)
