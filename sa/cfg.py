"""
Statement-level control-flow graph for one function, with branch edges labelled (test expression, polarity),
exhaustive acyclic path enumeration (each loop body entered at most once per path: back edges are cut),
and a small propositional reading of branch tests ("facts" implied by taking an edge).
"""
import ast

ENTRY, RETURN, RAISE = "ENTRY", "RETURN", "RAISE"


class Node(object):
    __slots__ = ("stmt", "kind", "idx")

    def __init__(self, stmt, kind, idx):
        self.stmt, self.kind, self.idx = stmt, kind, idx

    def __repr__(self):
        return "<%s#%d %s>" % (self.kind, self.idx, type(self.stmt).__name__ if self.stmt is not None else "")


class CFG(object):
    def __init__(self, fn_node, noreturn=None):
        self.fn = fn_node
        self.noreturn = noreturn or (lambda call: False)
        self.nodes = []
        self.succ = {}
        self.entry = self._new(None, ENTRY)
        self.ret = self._new(None, RETURN)
        self.exc = self._new(None, RAISE)
        self.stmt_node = {}
        first = self._block(fn_node.body, self.ret, None, None)
        self._edge(self.entry, first, None)

    def _new(self, stmt, kind):
        n = Node(stmt, kind, len(self.nodes))
        self.nodes.append(n)
        self.succ[n] = []
        if stmt is not None:
            self.stmt_node[id(stmt)] = n
        return n

    def _edge(self, a, b, label):
        self.succ[a].append((b, label))

    def _block(self, stmts, follow, brk, cont):
        """Build nodes for a statement list; returns the node control enters first."""
        nxt = follow
        for s in reversed(stmts):
            nxt = self._stmt(s, nxt, brk, cont)
        return nxt

    def _is_noreturn_stmt(self, s):
        return isinstance(s, ast.Expr) and isinstance(s.value, ast.Call) and self.noreturn(s.value)

    def _stmt(self, s, follow, brk, cont):
        if isinstance(s, ast.If):
            n = self._new(s, "if")
            self._edge(n, self._block(s.body, follow, brk, cont), (s.test, True))
            self._edge(n, self._block(s.orelse, follow, brk, cont) if s.orelse else follow, (s.test, False))
            return n
        if isinstance(s, (ast.For, ast.AsyncFor)):
            n = self._new(s, "for")
            after = self._block(s.orelse, follow, brk, cont) if s.orelse else follow
            body = self._block(s.body, n, follow, n)
            self._edge(n, body, ("iter", True))
            self._edge(n, after, ("iter", False))
            return n
        if isinstance(s, ast.While):
            n = self._new(s, "while")
            after = self._block(s.orelse, follow, brk, cont) if s.orelse else follow
            body = self._block(s.body, n, follow, n)
            self._edge(n, body, (s.test, True))
            self._edge(n, after, (s.test, False))
            return n
        if isinstance(s, (ast.With, ast.AsyncWith)):
            n = self._new(s, "with")
            self._edge(n, self._block(s.body, follow, brk, cont), None)
            return n
        if isinstance(s, ast.Try):
            n = self._new(s, "try")
            fin = self._block(s.finalbody, follow, brk, cont) if s.finalbody else follow
            els = self._block(s.orelse, fin, brk, cont) if s.orelse else fin
            self._edge(n, self._block(s.body, els, brk, cont), None)
            for h in s.handlers:
                self._edge(n, self._block(h.body, fin, brk, cont), ("except", True))
            return n
        if isinstance(s, ast.Return):
            n = self._new(s, "return")
            self._edge(n, self.ret, None)
            return n
        if isinstance(s, ast.Raise):
            n = self._new(s, "raise")
            self._edge(n, self.exc, None)
            return n
        if isinstance(s, ast.Assert):
            n = self._new(s, "assert")
            self._edge(n, follow, (s.test, True))
            self._edge(n, self.exc, (s.test, False))
            return n
        if isinstance(s, ast.Break):
            n = self._new(s, "break")
            self._edge(n, brk if brk is not None else follow, None)
            return n
        if isinstance(s, ast.Continue):
            n = self._new(s, "continue")
            self._edge(n, cont if cont is not None else follow, None)
            return n
        n = self._new(s, "stmt")
        if self._is_noreturn_stmt(s):
            self._edge(n, self.exc, None)
        else:
            self._edge(n, follow, None)
        return n

    # ------------------------------------------------------------------ paths
    def paths(self, limit=20000):
        """All acyclic paths ENTRY -> RETURN/RAISE as lists of (node, label_of_edge_taken_from_node)."""
        out = []
        stack = [(self.entry, [], frozenset())]
        while stack:
            n, path, seen = stack.pop()
            if n.kind in (RETURN, RAISE):
                out.append(path + [(n, None)])
                if len(out) > limit:
                    raise RuntimeError("path explosion")
                continue
            for m, label in self.succ[n]:
                if m in seen and m.kind in ("for", "while"):
                    # second arrival at a loop head: leave the loop through its exit edge
                    for m2, l2 in self.succ[m]:
                        if l2 is not None and l2[1] is False:
                            stack.append((m2, path + [(n, label), (m, l2)], seen))
                    continue
                if m in seen:
                    continue
                stack.append((m, path + [(n, label)], seen | {n}))
        return out

    def paths_to(self, target_stmt, limit=20000):
        """All acyclic paths ENTRY -> the node of target_stmt (a statement object)."""
        tgt = self.stmt_node.get(id(target_stmt))
        if tgt is None:
            return None
        out = []
        stack = [(self.entry, [], frozenset())]
        while stack:
            n, path, seen = stack.pop()
            if n is tgt:
                out.append(path)
                if len(out) > limit:
                    raise RuntimeError("path explosion")
                continue
            if n.kind in (RETURN, RAISE):
                continue
            for m, label in self.succ[n]:
                if m in seen:
                    continue
                stack.append((m, path + [(n, label)], seen | {n}))
        return out

    def node_of(self, stmt):
        return self.stmt_node.get(id(stmt))

    def reachable_from(self, node):
        seen, todo = set(), [node]
        while todo:
            n = todo.pop()
            if n in seen:
                continue
            seen.add(n)
            todo.extend(m for m, _ in self.succ[n])
        return seen


# ---------------------------------------------------------------------- facts
_POS = {}
PRED_INLINER = None  # set by the engine: Program.inline_pred
PRED_SUMMARY = None  # set by the engine: Program.pred_paths


def facts(test, polarity):
    """Atomic facts implied by `test` evaluating to `polarity`: list of (atom_expr, bool).
    not X -> flips; (A and B) true -> both true; (A or B) false -> both false; otherwise the test itself."""
    if test in ("iter", "except"):
        return []
    out = []
    if isinstance(test, ast.UnaryOp) and isinstance(test.op, ast.Not):
        return facts(test.operand, not polarity)
    if isinstance(test, ast.BoolOp):
        if isinstance(test.op, ast.And) and polarity:
            for v in test.values:
                out.extend(facts(v, True))
            return out
        if isinstance(test.op, ast.Or) and not polarity:
            for v in test.values:
                out.extend(facts(v, False))
            return out
        return [(test, polarity)]
    if isinstance(test, ast.Call) and PRED_INLINER is not None:
        e = PRED_INLINER(test)
        if e is not None:
            return facts(e, polarity)
        if PRED_SUMMARY is not None:
            alts = PRED_SUMMARY(test, polarity)
            if alts:
                # what every path of the helper with this outcome has in common also holds at the call
                common = None
                for alt in alts:
                    keys = {(ast.dump(a_), p_): (a_, p_) for a_, p_ in alt}
                    common = keys if common is None else {k: v for k, v in common.items() if k in keys}
                return [(test, polarity)] + list((common or {}).values())
    if isinstance(test, ast.Compare) and len(test.ops) == 1 and isinstance(test.ops[0], (ast.NotEq, ast.IsNot, ast.NotIn)):
        # a != b  <=>  not (a == b): report the positive atom with the flipped polarity
        pos = {ast.NotEq: ast.Eq, ast.IsNot: ast.Is, ast.NotIn: ast.In}[type(test.ops[0])]()
        atom = _POS.get(id(test))
        if atom is None:
            atom = ast.copy_location(ast.Compare(left=test.left, ops=[pos], comparators=test.comparators), test)
            atom._parent = getattr(test, "_parent", None)
            atom._negated_from = test
            _POS[id(test)] = atom
        return [(atom, not polarity)]
    return [(test, polarity)]


def path_facts(path):
    out = []
    for node, label in path:
        if label is not None and label[0] not in ("iter", "except"):
            test = label[0]
            # a test written through a named boolean is the test itself (see _inline_named_tests)
            fn = test
            while fn is not None and not isinstance(fn, (ast.FunctionDef, ast.AsyncFunctionDef)):
                fn = getattr(fn, "_parent", None)
            if fn is not None:
                try:
                    test = _inline_named_tests(test, fn)
                except Exception:
                    test = label[0]
            out.extend(facts(test, label[1]))
    return out


def stmt_of(node):
    while node is not None and not isinstance(node, ast.stmt):
        node = getattr(node, "_parent", None)
    return node


def top_stmt_in(fn_node, node):
    """The statement of fn_node's CFG that contains `node` (compound statement headers count as the statement)."""
    s = stmt_of(node)
    return s


def expr_guards(node, stop=None):
    """Expression- and statement-level guards syntactically enclosing `node` up to `stop` (a function node):
    list of (test_expr, polarity).  Covers IfExp, and/or short-circuit, comprehension ifs, if/elif/while bodies,
    assert-before and early-exit `if T: return/raise/continue/break` preceding siblings."""
    out = []
    child = node
    p = getattr(node, "_parent", None)
    while p is not None:
        if isinstance(p, ast.IfExp):
            if child is p.body:
                out.append((p.test, True))
            elif child is p.orelse:
                out.append((p.test, False))
        elif isinstance(p, ast.BoolOp):
            i = next((k for k, v in enumerate(p.values) if v is child), None)
            if i:
                for prev in p.values[:i]:
                    out.append((prev, isinstance(p.op, ast.And)))
        elif isinstance(p, (ast.ListComp, ast.SetComp, ast.GeneratorExp, ast.DictComp)):
            if child in (getattr(p, "elt", None), getattr(p, "key", None), getattr(p, "value", None)):
                for g in p.generators:
                    for c in g.ifs:
                        out.append((c, True))
        elif isinstance(p, ast.comprehension):
            pass
        elif isinstance(p, (ast.If, ast.While)):
            if any(child is s for s in p.body):
                out.append((p.test, True))
            elif any(child is s for s in p.orelse):
                out.append((p.test, False))
        if isinstance(child, ast.stmt):
            # early exits among preceding siblings in the same block
            for fld in ("body", "orelse", "finalbody"):
                blk = getattr(p, fld, None)
                if isinstance(blk, list) and any(child is s for s in blk):
                    for prev in blk:
                        if prev is child:
                            break
                        if isinstance(prev, ast.If) and _always_exits(prev.body):
                            out.append((prev.test, False))
                            # `if A: return .. elif B: return ..`: past the chain, every test whose branch always leaves was false
                            link = prev
                            while len(link.orelse) == 1 and isinstance(link.orelse[0], ast.If) and _always_exits(link.orelse[0].body):
                                link = link.orelse[0]
                                out.append((link.test, False))
                        elif isinstance(prev, ast.If) and prev.orelse and _always_exits(prev.orelse) and not _always_exits(prev.body):
                            out.append((prev.test, True))
                        elif isinstance(prev, ast.Assert):
                            out.append((prev.test, True))
        if p is stop or (isinstance(p, (ast.FunctionDef, ast.AsyncFunctionDef)) and stop is None):
            break
        child = p
        p = getattr(p, "_parent", None)
    fn = node
    while fn is not None and not isinstance(fn, (ast.FunctionDef, ast.AsyncFunctionDef)):
        fn = getattr(fn, "_parent", None)
    if fn is not None:
        out = [(_inline_named_tests(t, fn), pol) for t, pol in out]
    return out


def _stores(fn):
    """name -> positions (line, column) of the places of `fn` (nested scopes included, to be safe) that bind it"""
    cached = getattr(fn, "_sa_stores", None)
    if cached is None:
        cached = {}
        for x in ast.walk(fn):
            if isinstance(x, ast.Name) and isinstance(x.ctx, (ast.Store, ast.Del)):
                cached.setdefault(x.id, []).append((x.lineno, x.col_offset))
            elif isinstance(x, ast.arg):
                cached.setdefault(x.arg, []).append((getattr(x, "lineno", 0), getattr(x, "col_offset", 0)))
        try:
            fn._sa_stores = cached
        except Exception:
            pass
    return cached


def _inline_named_tests(test, fn, depth=0):
    """A test written through a named boolean (`is_text = isinstance(d, str)` ... `if code_quoted(d) or not is_text:`) is the
    test itself: a name bound exactly once in the function, to a comparison / boolean combination / negation / call whose own
    names are bound at most once, is replaced by what it is bound to.  Leaves are the original nodes (identity is kept); only
    the `and` / `or` / `not` containers are rebuilt."""
    if depth > 3:
        return test
    if isinstance(test, ast.BoolOp):
        vals = [_inline_named_tests(v, fn, depth) for v in test.values]
        if all(a is b for a, b in zip(vals, test.values)):
            return test
        new = ast.copy_location(ast.BoolOp(op=test.op, values=vals), test)
        new._parent = getattr(test, "_parent", None)   # scope look-ups walk up from here as they would from the original test
        return new
    if isinstance(test, ast.UnaryOp) and isinstance(test.op, ast.Not):
        inner = _inline_named_tests(test.operand, fn, depth)
        if inner is test.operand:
            return test
        new = ast.copy_location(ast.UnaryOp(op=test.op, operand=inner), test)
        new._parent = getattr(test, "_parent", None)
        return new
    if isinstance(test, ast.Name) and isinstance(test.ctx, ast.Load):
        st = _stores(fn)
        if len(st.get(test.id, ())) != 1:
            return test
        here = (getattr(test, "lineno", 0), getattr(test, "col_offset", 0))
        for a in ast.walk(fn):
            if isinstance(a, ast.Assign) and len(a.targets) == 1 and isinstance(a.targets[0], ast.Name) and a.targets[0].id == test.id:
                v = a.value
                there = (a.lineno, a.col_offset)
                if there < here and (isinstance(v, (ast.Compare, ast.BoolOp, ast.Call)) or (isinstance(v, ast.UnaryOp) and isinstance(v.op, ast.Not))):
                    # what the boolean was computed from still has that value at the test: nothing binds its names between the two places
                    # (a re-binding further down - in the branch the test guards, say - comes too late to matter, also on the next turn of a
                    # loop, where the boolean is computed afresh first)
                    if all(not any(there < pos_ < here for pos_ in st.get(n.id, ())) for n in ast.walk(v) if isinstance(n, ast.Name)):
                        return _inline_named_tests(v, fn, depth + 1)
                return test
    return test


def _always_exits(block):
    if not block:
        return False
    last = block[-1]
    if isinstance(last, (ast.Return, ast.Raise, ast.Continue, ast.Break)):
        return True
    if isinstance(last, ast.Expr) and isinstance(last.value, ast.Call) and isinstance(last.value.func, ast.Attribute) \
            and last.value.func.attr in ("error", "exit") and isinstance(last.value.func.value, ast.Name) and ("parser" in last.value.func.value.id or last.value.func.value.id == "sys"):
        return True
    if isinstance(last, ast.If) and last.orelse:
        return _always_exits(last.body) and _always_exits(last.orelse)
    return False
