"""
Statement-level inlining of private helpers (an analysis-only transformation; nothing is executed).

`inlined(prog, fi)` returns a FunctionInfo whose body is fi's body with every call, in statement position
(`x = helper(...)`, `a, b = helper(...)`, `return helper(...)`, `helper(...)`), of a private module-level helper of the
same module replaced by the helper's body:

* parameters are bound by assignments `param = argument` (omitted when the argument is the same name);
* helper locals that clash with names of the caller are renamed `<name>__<helper>`;
* `return E` in the helper becomes an assignment to the call's target; statements that follow a conditional return are
  moved into the branch that does not return (return elimination), so the result is ordinary structured code that every
  rule (CFG paths, guards, syntax walks) reads exactly as if the helper had never been extracted;
* a helper is left alone (not inlined) when the transformation would not be exact: recursion, generators, decorators,
  *args/**kwargs, a `return` inside a loop / try / (non-trailing) with.

The purpose is robustness of the path rules against the most common behaviour-preserving refactoring, "extract function".
"""
import ast

from sa.model import FunctionInfo

MAX_ROUNDS = 4
_PRIVATE_ATTRS = ("_parent", "_fninfo", "_scopeinfo", "_refs", "_module", "_negated_from", "_inlined_from")


def clone(node):
    """structural copy of an AST subtree without the analysis attributes hung on the nodes"""
    if isinstance(node, list):
        return [clone(x) for x in node]
    if not isinstance(node, ast.AST):
        return node
    new = type(node)()
    for f in node._fields:
        if hasattr(node, f):
            setattr(new, f, clone(getattr(node, f)))
    for a in ("lineno", "col_offset", "end_lineno", "end_col_offset"):
        if hasattr(node, a):
            setattr(new, a, getattr(node, a))
    for a in ("_inlined_from", "_no_dispatch", "_param_binding"):
        if hasattr(node, a):
            setattr(new, a, getattr(node, a))
    return new


def _own_walk(nodes):
    """walk statements without entering nested function/class definitions (their bodies are other scopes)"""
    stack = list(nodes)
    while stack:
        n = stack.pop()
        yield n
        for ch in ast.iter_child_nodes(n):
            if isinstance(ch, (ast.FunctionDef, ast.AsyncFunctionDef, ast.ClassDef, ast.Lambda)):
                yield ch  # the definition itself, not its inside
                continue
            stack.append(ch)


def _contains_return(stmts):
    return any(isinstance(n, ast.Return) for n in _own_walk(stmts))


def _exact_returns(stmts, trailing=True):
    """can return elimination be done exactly on this block?"""
    for i, s in enumerate(stmts):
        last = trailing and i == len(stmts) - 1
        if isinstance(s, ast.Return):
            continue
        if not _contains_return([s]):
            continue
        if isinstance(s, ast.If):
            if not (_exact_returns(s.body, last) and _exact_returns(s.orelse, last)):
                return False
        elif isinstance(s, (ast.With, ast.AsyncWith)):
            # a return inside a with is exact when nothing follows the with (no statement has to move into it)
            if not last or not _exact_returns(s.body, True):
                return False
        else:
            return False  # loop / try / match containing a return
    return True


def _always_returns(stmts):
    if not stmts:
        return False
    s = stmts[-1]
    if isinstance(s, (ast.Return, ast.Raise)):
        return True
    if isinstance(s, ast.If):
        return bool(s.orelse) and _always_returns(s.body) and _always_returns(s.orelse)
    if isinstance(s, (ast.With, ast.AsyncWith)):
        return _always_returns(s.body)
    return False


def _eliminate(stmts, make_result):
    """stmts with every `return E` replaced by make_result(E) and the statements after a conditional return moved into
    the non-returning branches; `raise` keeps ending its branch"""
    out = []
    for i, s in enumerate(stmts):
        if isinstance(s, ast.Return):
            out.extend(make_result(s))
            return out
        if isinstance(s, ast.If) and _contains_return([s]):
            rest = stmts[i + 1:]
            body_ret, else_ret = _always_returns(s.body), _always_returns(s.orelse)
            new = ast.If(test=s.test, body=[], orelse=[])
            ast.copy_location(new, s)
            rest_b = [] if body_ret else rest
            rest_e = [] if else_ret else (clone(rest) if not body_ret else rest)
            new.body = _eliminate(list(s.body) + rest_b, make_result) or [ast.copy_location(ast.Pass(), s)]
            new.orelse = _eliminate(list(s.orelse) + rest_e, make_result)
            out.append(new)
            return out
        if isinstance(s, (ast.With, ast.AsyncWith)) and _contains_return([s]):
            new = type(s)(items=s.items, body=_eliminate(list(s.body), make_result) or [ast.copy_location(ast.Pass(), s)])
            ast.copy_location(new, s)
            out.append(new)
            return out
        out.append(s)
    return out


class _Rename(ast.NodeTransformer):
    def __init__(self, mapping):
        self.m = mapping

    def visit_Name(self, n):
        if n.id in self.m:
            n.id = self.m[n.id]
        return n

    def visit_arg(self, n):
        return n


def _assigned(fn_node):
    out = set()
    for n in _own_walk(fn_node.body):
        if isinstance(n, ast.Name) and isinstance(n.ctx, (ast.Store, ast.Del)):
            out.add(n.id)
        elif isinstance(n, (ast.FunctionDef, ast.AsyncFunctionDef, ast.ClassDef)):
            out.add(n.name)
        elif isinstance(n, (ast.Import, ast.ImportFrom)):
            for a in n.names:
                out.add((a.asname or a.name).split(".")[0])
    return out


def _all_names(fn_node):
    return {n.id for n in ast.walk(fn_node) if isinstance(n, ast.Name)} | {a.arg for a in ast.walk(fn_node) if isinstance(a, ast.arg)}


def _inlinable(prog, caller_fi, t, call):
    if not isinstance(t, FunctionInfo) or t.module is not caller_fi.module or t.cls is not None or t.parent_fn is not None:
        return False
    if not t.name.startswith("_") or t.name.startswith("__") or not isinstance(t.node, ast.FunctionDef):
        return False
    fd = t.node
    if fd.decorator_list or fd.args.vararg or fd.args.kwarg or fd.args.posonlyargs:
        return False
    if any(isinstance(n, (ast.Yield, ast.YieldFrom, ast.Global, ast.Nonlocal)) for n in _own_walk(fd.body)):
        return False
    if any(isinstance(a, ast.Starred) for a in call.args) or any(k.arg is None for k in call.keywords):
        return False
    if t in prog.reachable(prog.references(t)) or t is caller_fi:
        return False  # recursion
    body = [s for s in fd.body]
    if not _exact_returns(body):
        return False
    # bind
    pn = [a.arg for a in fd.args.args]
    kwo = [a.arg for a in fd.args.kwonlyargs]
    if len(call.args) > len(pn):
        return False
    given = set(pn[:len(call.args)]) | {k.arg for k in call.keywords}
    if not {k.arg for k in call.keywords} <= set(pn) | set(kwo):
        return False
    n_def = len(fd.args.defaults)
    required = set(pn[:len(pn) - n_def]) | {a for a, d in zip(kwo, fd.args.kw_defaults) if d is None}
    return required <= given


def _expand(prog, caller_fi, caller_node, stmt, call, t, mode, target):
    """statements that replace `stmt` (a statement of caller_node holding `call` to t in statement position)"""
    fd = t.node
    body = clone([s for i, s in enumerate(fd.body)
                  if not (i == 0 and isinstance(s, ast.Expr) and isinstance(s.value, ast.Constant) and isinstance(s.value.value, str))])
    pn = [a.arg for a in fd.args.args]
    kwo = [a.arg for a in fd.args.kwonlyargs]
    bind = {}
    for p_, a in zip(pn, call.args):
        bind[p_] = a
    for k in call.keywords:
        bind[k.arg] = k.value
    defaults = dict(zip(pn[len(pn) - len(fd.args.defaults):], fd.args.defaults))
    defaults.update({a: d for a, d in zip(kwo, fd.args.kw_defaults) if d is not None})
    for p_ in pn + kwo:
        if p_ not in bind:
            bind[p_] = clone(defaults[p_])
    # renaming: helper locals that clash with a name of the caller (unless it is a parameter bound to that very name and
    # never rebound in the helper)
    callee_locals = set(pn) | set(kwo) | _assigned(fd)
    caller_names = _all_names(caller_node)
    rebound = _assigned(fd)
    mapping = {}
    for nme in sorted(callee_locals):
        same = nme in bind and isinstance(bind[nme], ast.Name) and bind[nme].id == nme and nme not in rebound
        if nme in caller_names and not same:
            new = "%s__%s" % (nme, t.name.strip("_"))
            while new in caller_names or new in callee_locals:
                new += "_"
            mapping[nme] = new
    if mapping:
        body = [_Rename(mapping).visit(s) for s in body]
    pre = []
    for p_ in pn + kwo:
        a = bind[p_]
        tgt = mapping.get(p_, p_)
        if isinstance(a, ast.Name) and a.id == tgt:
            continue
        if isinstance(a, ast.Constant) and p_ not in rebound:
            # constant argument of a parameter the helper never rebinds: substitute it (constant propagation), so that
            # a flag passed as a literal is still seen as a literal at the calls inside the helper
            class _Subst(ast.NodeTransformer):
                def visit_Name(self_, n):
                    if n.id == tgt and isinstance(n.ctx, ast.Load):
                        return ast.copy_location(ast.Constant(value=a.value), n)
                    return n
            body = [_Subst().visit(s_) for s_ in body]
            continue
        asg = ast.Assign(targets=[ast.Name(id=tgt, ctx=ast.Store())], value=clone(a), type_comment=None)
        ast.copy_location(asg, call)
        ast.fix_missing_locations(asg)
        asg._param_binding = t.qualname
        pre.append(asg)

    def make_result(ret):
        v = ret.value if ret.value is not None else ast.copy_location(ast.Constant(value=None), ret)
        if mode == "return":
            return [ret]
        if mode == "expr":
            if any(isinstance(x, ast.Call) for x in ast.walk(v)):
                return [ast.copy_location(ast.Expr(value=v), ret)]
            return [ast.copy_location(ast.Pass(), ret)]
        asg = ast.Assign(targets=[clone(target)], value=v, type_comment=None)
        ast.copy_location(asg, ret)
        ast.fix_missing_locations(asg)
        return [asg]

    if not _always_returns(body):
        anchor_ = body[-1] if body else stmt
        body = body + [ast.copy_location(ast.Return(value=ast.copy_location(ast.Constant(value=None), anchor_)), anchor_)]
    new_body = body if mode == "return" else _eliminate(body, make_result)
    out = pre + new_body
    for s in out:
        for n in ast.walk(s):
            if not hasattr(n, "_inlined_from"):
                n._inlined_from = t.qualname
    return out


def _stmt_call(stmt):
    """(mode, call, target) when stmt is a statement-position call"""
    if isinstance(stmt, ast.Assign) and len(stmt.targets) == 1 and isinstance(stmt.value, ast.Call) and isinstance(stmt.targets[0], (ast.Name, ast.Tuple)):
        return "assign", stmt.value, stmt.targets[0]
    if isinstance(stmt, ast.Return) and isinstance(stmt.value, ast.Call):
        return "return", stmt.value, None
    if isinstance(stmt, ast.Expr) and isinstance(stmt.value, ast.Call):
        return "expr", stmt.value, None
    return None, None, None


def _dispatch_tables(prog, fi):
    """module-level `NAME = {const: function, ...}` tables of fi's module: name -> [(key, function name)]"""
    out = {}
    for st in fi.module.tree.body:
        if isinstance(st, ast.Assign) and len(st.targets) == 1 and isinstance(st.targets[0], ast.Name) and isinstance(st.value, ast.Dict) and st.value.keys \
                and all(isinstance(k, ast.Constant) and isinstance(v, ast.Name) for k, v in zip(st.value.keys, st.value.values)):
            rows = [(k.value, v.id) for k, v in zip(st.value.keys, st.value.values)]
            if all(any(isinstance(t, FunctionInfo) for t in prog.resolve_expr_fn(v, v)) for v in st.value.values):
                out[st.targets[0].id] = rows
    return out


def _expand_dispatch(prog, fi, node):
    """`f = TABLE.get(K)` / `f = TABLE[K]` followed by a statement-position call `f(...)`: the call statement becomes an
    if-chain over the keys of the (constant, module-level) table with the function named directly in each branch; the
    final else keeps the original statement (a key outside the table)."""
    tables = _dispatch_tables(prog, fi)
    if not tables:
        return False
    bound = {}
    for st in _own_walk(node.body):
        if isinstance(st, ast.Assign) and len(st.targets) == 1 and isinstance(st.targets[0], ast.Name):
            v = st.value
            key = None
            if isinstance(v, ast.Call) and isinstance(v.func, ast.Attribute) and v.func.attr == "get" and isinstance(v.func.value, ast.Name) and v.func.value.id in tables and v.args:
                key, tname = v.args[0], v.func.value.id
            elif isinstance(v, ast.Subscript) and isinstance(v.value, ast.Name) and v.value.id in tables:
                key, tname = v.slice, v.value.id
            if key is not None:
                nme = st.targets[0].id
                bound[nme] = None if nme in bound else (key, tname)
    bound = {k: v for k, v in bound.items() if v is not None}
    n_assign = {}
    for st in _own_walk(node.body):
        if isinstance(st, ast.Name) and isinstance(st.ctx, ast.Store) and st.id in bound:
            n_assign[st.id] = n_assign.get(st.id, 0) + 1
    bound = {k: v for k, v in bound.items() if n_assign.get(k) == 1}
    if not bound:
        return False
    changed = [False]

    def rewrite(block):
        out = []
        for s in block:
            mode, call, target = _stmt_call(s)
            if mode and isinstance(call.func, ast.Name) and call.func.id in bound and not getattr(s, "_no_dispatch", False):
                key, tname = bound[call.func.id]
                chain = clone(s)
                chain._no_dispatch = True
                for k, fname in reversed(tables[tname]):
                    branch = clone(s)
                    _stmt_call(branch)[1].func = ast.copy_location(ast.Name(id=fname, ctx=ast.Load()), call.func)
                    test = ast.Compare(left=clone(key), ops=[ast.Eq()], comparators=[ast.Constant(value=k)])
                    new_if = ast.If(test=test, body=[branch], orelse=[chain])
                    ast.copy_location(new_if, s)
                    ast.fix_missing_locations(new_if)
                    chain = new_if
                out.append(chain)
                changed[0] = True
                continue
            for fld in ("body", "orelse", "finalbody"):
                blk = getattr(s, fld, None)
                if isinstance(blk, list) and blk and isinstance(blk[0], ast.stmt) and not isinstance(s, (ast.FunctionDef, ast.AsyncFunctionDef, ast.ClassDef)):
                    setattr(s, fld, rewrite(blk))
            out.append(s)
        return out

    node.body = rewrite(node.body)
    return changed[0]


def _stores(fn_node, name):
    return [n for n in ast.walk(fn_node) if isinstance(n, ast.Name) and n.id == name and isinstance(n.ctx, (ast.Store, ast.Del))] + \
           [a for a in ast.walk(fn_node) if isinstance(a, ast.arg) and a.arg == name]


def _is_chain(e, min_depth=0):
    d = 0
    while isinstance(e, ast.Attribute):
        e, d = e.value, d + 1
    return isinstance(e, ast.Name) and d >= min_depth


def _chain_base(e):
    while isinstance(e, ast.Attribute):
        e = e.value
    return e.id


def _pos(n):
    return (getattr(n, "lineno", 0), getattr(n, "col_offset", 0))


def _propagate_accessors(prog, node):
    """Copy propagation of two exact aliasings (analysis only), so that rules written for `getattr(f.args, name)` read the same
    code after `args_ = f.args` / `get = partial(getattr, f.args)` were introduced:
      * a local bound once to an attribute chain `a.b[.c]` whose base is not rebound afterwards, and which is not itself
        assigned through (`a.b = ...`) afterwards: its loads become the chain (the same object);
      * a local bound once to `partial(getattr, <chain>)` under the same conditions: `p(x)` becomes `getattr(<chain>, x)`.
    Returns True when something was rewritten."""
    changed = False
    own = [n for n in _own_walk(node.body)]
    assigns = [st for st in own if isinstance(st, ast.Assign) and len(st.targets) == 1 and isinstance(st.targets[0], ast.Name)]
    for st in assigns:
        nm = st.targets[0].id
        if len(_stores(node, nm)) != 1:
            continue
        v = st.value
        kind = None
        if _is_chain(v, 1):
            kind, chain = "alias", v
        elif isinstance(v, ast.Call) and isinstance(v.func, (ast.Name, ast.Attribute)) and len(v.args) == 2 and not v.keywords \
                and prog.ext_name(v.func, v) == "functools.partial" and isinstance(v.args[0], ast.Name) and prog.lookup(v.args[0].id, v) == ("builtin", "getattr") \
                and _is_chain(v.args[1]):
            kind, chain = "accessor", v.args[1]
        if kind is None:
            continue
        base = _chain_base(chain)
        if any(_pos(x) > _pos(st) for x in _stores(node, base)):
            continue
        cd = ast.dump(chain)
        if any(isinstance(a, ast.Attribute) and isinstance(a.ctx, (ast.Store, ast.Del)) and ast.dump(a)[:len(cd)] == cd and _pos(a) > _pos(st) for a in ast.walk(node)):
            continue
        uses = [n for n in ast.walk(node) if isinstance(n, ast.Name) and n.id == nm and isinstance(n.ctx, ast.Load) and _pos(n) > _pos(st)]
        if kind == "accessor" and not all(isinstance(u._parent, ast.Call) and u._parent.func is u and 1 <= len(u._parent.args) <= 2 and not u._parent.keywords for u in uses):
            continue
        for u in uses:
            par = u._parent
            if kind == "alias":
                new = clone(chain)
                ast.copy_location(new, u)
                for x in ast.walk(new):
                    ast.copy_location(x, u)
                tgt, holder = u, par
            else:
                new = ast.Call(func=ast.Name(id="getattr", ctx=ast.Load()), args=[clone(chain)] + par.args, keywords=[])
                for x in [new, new.func] + list(ast.walk(new.args[0])):
                    ast.copy_location(x, par)
                tgt, holder = par, par._parent
            for f in holder._fields:
                val = getattr(holder, f, None)
                if val is tgt:
                    setattr(holder, f, new)
                elif isinstance(val, list):
                    for i, x in enumerate(val):
                        if x is tgt:
                            val[i] = new
            _link(holder, getattr(holder, "_parent", None))
            changed = True
    return changed


def _link(node, parent):
    node._parent = parent
    for ch in ast.iter_child_nodes(node):
        _link(ch, node)


def inlined(prog, fi):
    cache = prog.__dict__.setdefault("_inlined", {})
    if id(fi) in cache:
        return cache[id(fi)][1]
    if not isinstance(fi.node, ast.FunctionDef):
        cache[id(fi)] = (fi, fi)
        return fi
    node = clone(fi.node)
    _link(node, fi.node._parent)
    new_fi = FunctionInfo(fi.module, fi.qualname, node, cls=fi.cls, parent_fn=fi.parent_fn)
    node._fninfo = new_fi
    new_fi.inlined_helpers = []
    new_fi.original = fi
    changed_any = False
    for round_ in range(MAX_ROUNDS):
        changed = False
        _prepare(prog, new_fi, node, fi)
        # positions are comparable only while every statement still comes from this function: before anything is inlined
        if round_ == 0 and _propagate_accessors(prog, node):
            changed = True
            _prepare(prog, new_fi, node, fi)
        if _expand_dispatch(prog, fi, node):
            changed = True
            _prepare(prog, new_fi, node, fi)

        def rewrite(block):
            nonlocal changed
            out = []
            for s in block:
                mode, call, target = _stmt_call(s)
                done = False
                if mode and not (mode == "return" and not _is_function_tail(node, s)):
                    tg = [t for t in prog.resolve_expr_fn(call.func, call) if isinstance(t, FunctionInfo)]
                    if len(tg) == 1 and _inlinable(prog, fi, tg[0], call):
                        out.extend(_expand(prog, fi, node, s, call, tg[0], mode, target))
                        new_fi.inlined_helpers.append(tg[0].qualname)
                        changed = done = True
                if not done:
                    for fld in ("body", "orelse", "finalbody"):
                        blk = getattr(s, fld, None)
                        if isinstance(blk, list) and blk and isinstance(blk[0], ast.stmt) and not isinstance(s, (ast.FunctionDef, ast.AsyncFunctionDef, ast.ClassDef)):
                            setattr(s, fld, rewrite(blk))
                    for h in getattr(s, "handlers", []) or []:
                        h.body = rewrite(h.body)
                    out.append(s)
            return out

        node.body = rewrite(node.body)
        if not changed:
            break
        changed_any = True
    if not changed_any:
        cache[id(fi)] = (fi, fi)
        return fi
    ast.fix_missing_locations(node)
    _prepare(prog, new_fi, node, fi)
    _number(node)
    cache[id(fi)] = (fi, new_fi)
    return new_fi


def _number(node):
    """execution-order positions for the merged body: line numbers of inlined statements belong to another function, so
    rules that compare positions use `_seq` (see model.order_key)"""
    k = [0]

    def go(n):
        k[0] += 1
        n._seq = k[0]
        for ch in ast.iter_child_nodes(n):
            go(ch)
        n._seq_end = k[0]
    go(node)


def _is_function_tail(fn_node, stmt):
    """`return helper(...)` can be replaced by the helper's body wherever it stands: the helper's returns stay returns"""
    return True


def _prepare(prog, new_fi, node, orig_fi):
    """(re)establish parent links, function infos of nested definitions and drop cached scope information"""
    _link(node, orig_fi.node._parent)
    for n in ast.walk(node):
        if hasattr(n, "_scopeinfo"):
            del n._scopeinfo
        if isinstance(n, (ast.FunctionDef, ast.AsyncFunctionDef)) and n is not node:
            if not hasattr(n, "_fninfo"):
                n._fninfo = FunctionInfo(orig_fi.module, "%s.%s" % (orig_fi.qualname, n.name), n, parent_fn=new_fi)
    node._fninfo = new_fi
    if hasattr(new_fi, "_refs"):
        del new_fi._refs
