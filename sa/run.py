#!/venv/bin/python
"""Entry point: /venv/bin/python /verif/sa/run.py <property id> [--tier quick|thorough]"""
import argparse
import os
import sys

sys.path.insert(0, os.path.dirname(os.path.dirname(os.path.abspath(__file__))))


def main():
    ap = argparse.ArgumentParser()
    ap.add_argument("property")
    ap.add_argument("--tier", default=os.environ.get("VERIF_TIER") or "quick", choices=("quick", "thorough"))
    a = ap.parse_args()
    try:
        from sa.engine import run_property
        from sa.props import SPECS
    except Exception:
        import traceback
        print("ANALYSIS-ERROR property=%s checker failed to load:\n%s" % (a.property, traceback.format_exc()))
        return 2
    if a.property not in SPECS:
        print("ANALYSIS-ERROR property=%s is not claimed (see MANIFEST.json not_applicable)" % a.property)
        return 2
    return run_property(SPECS[a.property], a.tier)


if __name__ == "__main__":
    sys.exit(main())
