"""
String shapes: a partial evaluator for string-building expressions.  shapes(expr) returns a list of alternatives, each
a tuple of segments: a `str` literal or None (a hole: runtime text).  Handles constants, f-strings, `"tpl".format(...)`,
`+`, conditional expressions, local names (all their definitions in the enclosing function, including tuple unpacking
from tuples and from conditional expressions of tuples).  Anything else is a hole.
"""
import ast
import string

MAX_ALT = 48


def _merge(segs):
    out = []
    for s in segs:
        if s is not None and out and out[-1] is not None:
            out[-1] = out[-1] + s
        elif s is None and out and out[-1] is None:
            continue
        else:
            out.append(s)
    return tuple(out)


def _cat(a_alts, b_alts):
    out = []
    for a in a_alts:
        for b in b_alts:
            out.append(_merge(list(a) + list(b)))
            if len(out) >= MAX_ALT:
                return out
    return out


HOLE = [(None,)]


def _module_fns(fn_node):
    """{name: FunctionDef} of the functions visible from fn_node: its own nested defs and the module's top-level defs"""
    out = {}
    top = fn_node
    while getattr(top, "_parent", None) is not None:
        top = top._parent
    for st in getattr(top, "body", []):
        if isinstance(st, (ast.FunctionDef, ast.AsyncFunctionDef)):
            out[st.name] = st
    for st in ast.walk(fn_node):
        if isinstance(st, (ast.FunctionDef, ast.AsyncFunctionDef)) and st is not fn_node:
            out[st.name] = st
    return out


def _returns_of(fdef):
    out = []
    stack = list(fdef.body)
    while stack:
        n = stack.pop()
        if isinstance(n, (ast.FunctionDef, ast.AsyncFunctionDef, ast.Lambda, ast.ClassDef)):
            continue
        if isinstance(n, ast.Return):
            out.append(n.value)
        stack.extend(ast.iter_child_nodes(n))
    return out


class _In(object):
    """an expression to be evaluated in another function's scope"""
    def __init__(self, expr, fn_node):
        self.expr, self.fn_node = expr, fn_node


def _callee(fn_node, call):
    if isinstance(call, ast.Call) and isinstance(call.func, ast.Name):
        return _module_fns(fn_node).get(call.func.id)
    return None


def _defs_of(fn_node, name):
    """value expressions bound to `name` anywhere in fn_node (None = opaque binding; _In = an expression of a callee)"""
    out = []
    for st in ast.walk(fn_node):
        if isinstance(st, ast.Assign):
            for t in st.targets:
                if isinstance(t, ast.Name) and t.id == name:
                    out.append(st.value)
                elif isinstance(t, (ast.Tuple, ast.List)):
                    idx = next((i for i, e in enumerate(t.elts) if isinstance(e, ast.Name) and e.id == name), None)
                    if idx is None:
                        continue
                    vals = [st.value]
                    if isinstance(st.value, ast.IfExp):
                        vals = [st.value.body, st.value.orelse]
                    for v in vals:
                        if isinstance(v, (ast.Tuple, ast.List)) and len(v.elts) == len(t.elts):
                            out.append(v.elts[idx])
                            continue
                        cal = _callee(fn_node, v)
                        rets = _returns_of(cal) if cal is not None else []
                        if rets and all(isinstance(r, (ast.Tuple, ast.List)) and len(r.elts) == len(t.elts) for r in rets):
                            out.extend(_In(r.elts[idx], cal) for r in rets)
                        else:
                            out.append(None)
        elif isinstance(st, (ast.For, ast.comprehension)) and name in {n.id for n in ast.walk(st.target) if isinstance(n, ast.Name)}:
            out.append(None)
    return out


def shapes(e, fn_node=None, depth=0, seen=None):
    seen = seen or frozenset()
    if depth > 8 or e is None:
        return HOLE
    if isinstance(e, ast.Constant):
        return [(e.value,)] if isinstance(e.value, str) else HOLE
    if isinstance(e, ast.JoinedStr):
        alts = [()]
        for v in e.values:
            if isinstance(v, ast.Constant):
                alts = _cat(alts, [(str(v.value),)])
            elif isinstance(v, ast.FormattedValue) and v.format_spec is None and v.conversion in (-1, 115):
                alts = _cat(alts, shapes(v.value, fn_node, depth + 1, seen))
            else:
                alts = _cat(alts, HOLE)
        return alts
    if isinstance(e, ast.BinOp) and isinstance(e.op, ast.Add):
        return _cat(shapes(e.left, fn_node, depth + 1, seen), shapes(e.right, fn_node, depth + 1, seen))
    if isinstance(e, ast.IfExp):
        return (shapes(e.body, fn_node, depth + 1, seen) + shapes(e.orelse, fn_node, depth + 1, seen))[:MAX_ALT]
    if isinstance(e, ast.Call) and isinstance(e.func, ast.Attribute) and e.func.attr == "format":
        out = []
        for tpl in shapes(e.func.value, fn_node, depth + 1, seen):
            if len(tpl) != 1 or tpl[0] is None:
                out += HOLE
                continue
            alts = [()]
            auto = 0
            try:
                parts = list(string.Formatter().parse(tpl[0]))
            except ValueError:
                out += HOLE
                continue
            for lit, field, spec, conv in parts:
                if lit:
                    alts = _cat(alts, [(lit,)])
                if field is None:
                    continue
                arg = None
                base = field.split(".")[0].split("[")[0]
                if base == "":
                    if auto < len(e.args):
                        arg = e.args[auto]
                    auto += 1
                elif base.isdigit():
                    if int(base) < len(e.args):
                        arg = e.args[int(base)]
                else:
                    arg = next((k.value for k in e.keywords if k.arg == base), None)
                if arg is None or spec or conv or base != field:
                    alts = _cat(alts, HOLE)
                else:
                    alts = _cat(alts, shapes(arg, fn_node, depth + 1, seen))
            out += alts
        return out[:MAX_ALT]
    if isinstance(e, ast.Name) and fn_node is not None and e.id not in seen:
        defs = _defs_of(fn_node, e.id)
        if not defs:
            return HOLE
        out = []
        for d in defs:
            if isinstance(d, _In):
                out += shapes(d.expr, d.fn_node, depth + 1, frozenset())
            else:
                out += HOLE if d is None else shapes(d, fn_node, depth + 1, seen | {e.id})
        # dedupe
        uniq = []
        for a in out:
            if a not in uniq:
                uniq.append(a)
        return uniq[:MAX_ALT]
    if isinstance(e, ast.Call) and fn_node is not None:
        # a call of a function of the same module: the union of the shapes of what it returns (its parameters are holes)
        cal = _callee(fn_node, e)
        if cal is not None and cal is not fn_node:
            rets = _returns_of(cal)
            if rets:
                out = []
                for r in rets:
                    out += shapes(r, cal, depth + 1, frozenset())
                return out[:MAX_ALT]
    return HOLE


def is_string_builder(e):
    return isinstance(e, ast.JoinedStr) or (isinstance(e, ast.Constant) and isinstance(e.value, str)) or \
        (isinstance(e, ast.Call) and isinstance(e.func, ast.Attribute) and e.func.attr == "format") or \
        (isinstance(e, ast.BinOp) and isinstance(e.op, ast.Add))


def maximal_string_exprs(root):
    """string-building expressions of `root` that are not themselves part of a larger string-building expression"""
    out = []
    for n in ast.walk(root):
        if not is_string_builder(n):
            continue
        p = getattr(n, "_parent", None)
        # climb through FormattedValue / keyword / format-receiver positions
        part_of_bigger = False
        while p is not None:
            if isinstance(p, (ast.FormattedValue, ast.keyword, ast.Attribute)):
                p = getattr(p, "_parent", None)
                continue
            if is_string_builder(p):
                part_of_bigger = True
            break
        if not part_of_bigger:
            out.append(n)
    return out


def literal_prefixes(root, fn_node, starts_with=None):
    """{literal prefix: node} over all maximal string expressions of root"""
    out = {}
    for n in maximal_string_exprs(root):
        for alt in shapes(n, fn_node):
            if alt and alt[0] is not None and (starts_with is None or alt[0].startswith(starts_with)):
                out.setdefault(alt[0], n)
    return out


def literal_fragments(root, fn_node):
    """all literal segments (any position) of all maximal string expressions: {fragment: node}"""
    out = {}
    for n in maximal_string_exprs(root):
        for alt in shapes(n, fn_node):
            for seg in alt:
                if seg:
                    out.setdefault(seg, n)
    return out
