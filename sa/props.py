"""Which rules decide which property (DESIGN.md sections 0 and 4)."""
from sa.rules import file as F

SPECS = {}


def spec(pid, title, rules, explanation, floors=None, technique="", not_decided="", assumptions=None):
    SPECS[pid] = dict(id=pid, title=title, rules=rules, explanation=explanation, floors=floors or {},
                      technique=technique, not_decided=not_decided, assumptions=assumptions or [])


spec("C10", "sync idempotent / truth untouched / truthful report",
     [F.rule_file0, F.rule_file1_truth, F.rule_file2, F.rule_file2b],
     "Structural necessary conditions of C10 decided on the source: (FILE-1) no call from the sync worker that can reach a write "
     "sink is reachable for the truth file - each is guarded by a comparison of the target filename with the truth file; (FILE-2) on "
     "every enumerated path of _conform_filename the returned/printed changed-flag is true iff a write lies on the path; (FILE-2b) "
     "the in-place rewrite is control-dependent on an AST-inequality test.",
     floors={"FILE-1": 1, "FILE-2": 4, "FILE-2b": 1},
     technique="call-graph reachability of write sinks, syntactic guard/control-dependence analysis, exhaustive CFG path enumeration",
     not_decided="byte identity of a second run (needs emit∘parse to be a fixed point: value-level); growth by repeated append when the lookup cannot find what was appended")

from sa.rules import call as C
from sa.rules import cli as CLI

spec("C19", "gen writes one well-formed definition per entry",
     [C.rule_call_getattr, F.rule_file6, CLI.rule_cli1],
     "tmp", floors={})
spec("C09", "sync makes targets agree",
     [C.rule_call_direct, C.rule_call_dispatch],
     "tmp", floors={})

from sa.rules import det as D

spec("C12", "output is a deterministic function of the input",
     [D.rule_det1, D.rule_det1b, D.rule_det2, D.rule_det3],
     "tmp", floors={})

from sa.rules import visit as V

spec("C15", "dotted locations",
     [lambda p, r, t: V.rule_visit3(p, r, t, location_inductive=V.location_is_inductive), V.rule_visit4, V.rule_visit2, V.rule_visit6, V.rule_visit1],
     "tmp", floors={})
spec("C16", "bodies verbatim", [V.rule_visit5], "tmp")

from sa.rules import align as A

spec("C06", "emitted code valid", [A.rule_align_emit, A.rule_align_parse], "tmp")

from sa.rules import mod as M

spec("C13", "non-interference", [M.rule_mod1_2, M.rule_mod3], "tmp")
spec("C11", "sync preserves rest", [M.rule_modf, M.rule_modf2], "tmp")

from sa.rules import typeflow as T

spec("C18", "wrapping transparent", [T.rule_typeflow, T.rule_wrap_last], "tmp")

from sa.rules import table as TB

spec("C01", "docstring round trip", [TB.rule_table_style], "tmp")
spec("C02", "class round trip", [TB.rule_table_cvar], "tmp")
spec("C03", "function round trip", [TB.rule_table_kind], "tmp")
spec("C04", "argparse round trip", [TB.rule_table_argparse], "tmp")
spec("C17", "defaults through prose", [TB.rule_table_announce], "tmp")

from sa.rules import order as O

spec("C07", "parse faithful", [O.rule_order, O.rule_sigcover, O.rule_allpair], "tmp")

from sa.rules import null as N

spec("C08", "fixed point", [N.rule_null1, N.rule_null2], "tmp")

from sa.rules import cli2 as C2

spec("C20", "rejected invocations", [C2.rule_cli2], "tmp")
SPECS["C09"]["rules"].append(F.rule_file2c)
