"""
Which rules decide which property (DESIGN.md sections 0 and 4).  Every entry states the structural clause that is
decided and what is NOT decided; the behaviour as a whole (equality of values after a round trip, byte identity ...)
is never claimed.
"""
from functools import partial as P

from sa.rules import align as A
from sa.rules import call as C
from sa.rules import cli as CLI
from sa.rules import cli2 as C2
from sa.rules import coord as CO
from sa.rules import ctor as CT
from sa.rules import det as D
from sa.rules import falsy as FA
from sa.rules import file as F
from sa.rules import hole as H
from sa.rules import ladder as L
from sa.rules import fwd as FW
from sa.rules import mod as M
from sa.rules import null as N
from sa.rules import order as O
from sa.rules import pitfall as PT
from sa.rules import table as TB
from sa.rules import typeflow as T
from sa.rules import visit as V
from sa.rules import wrap as W

SPECS = {}


def spec(pid, title, rules, explanation, floors=None, technique="", not_decided="", assumptions=None):
    SPECS[pid] = dict(id=pid, title=title, rules=rules, explanation=explanation, floors=floors or {},
                      technique=technique, not_decided=not_decided, assumptions=assumptions or [])


def named(f, name, **kw):
    g = P(f, **kw)
    g.__name__ = name
    return g


def scope_of(*roots):
    return lambda prog: prog.reachable([prog.fn(r) for r in roots])


def scoped(rule, name, *roots):
    """quick: the rule over the functions reachable from the property's own entry points; thorough: over the whole package
    (a superset: a construct the rule forbids is forbidden everywhere, the scope only keeps the quick report focused)"""
    def run(prog, rep, tier):
        return rule(prog, rep, tier, scope=None if tier == "thorough" else scope_of(*roots)(prog))
    run.__name__ = name
    return run


def coord(name, *anchors):
    """COORD over the regions of the anchors (quick) or over every function of the package (thorough)"""
    def run(prog, rep, tier):
        import ast as _ast
        if tier == "thorough":
            return CO.rule_coord(prog, rep, tier, scope=[f for f in prog.all_functions() if isinstance(f.node, _ast.FunctionDef)])
        return CO.rule_coord(prog, rep, tier, anchors=anchors)
    run.__name__ = name
    return run


def det3(name, *roots):
    return scoped(D.rule_det3, "det3_" + name, *roots)


def pit(name, *roots):
    """LATE-BIND / STALE-CAPTURE / SHARED-DEFAULT / STR-MEMBER over the property's code region (thorough: whole package)"""
    return scoped(PT.rule_pitfalls, "pitfalls_" + name, *roots)


FWD_ACCEPTED = {
    ("docstring_parsers.parse_docstring", "option-not-forwarded:default_search_announce->emitter_utils.interpolate_defaults"):
        "outside every property's domain (they quantify over the four built-in announcement phrases); observed and noted in DESIGN: the ReST phase ignores a custom "
        "announcement that the google/numpydoc phase honours",
    ("emit.argparse_function", "option-not-forwarded:emit_default_doc->emit.docstring"):
        "the IR handed to the helper docstring carries no `default` key (fixed `argument_parser` parameter, return entry of doc and typ only), so no default sentence can be "
        "written there; the parser reads the return default from the `return` statement",
    ("parse.class_", "option-not-forwarded:infer_type->parse.docstring"):
        "type inference from defaults is done by the final _set_name_and_type pass of class_ with the caller's infer_type after the attribute values were merged in",
}

DET1_ACCEPTED = {
    ("parser_utils._join_non_none", "insert-into-param:primacy"):
        "inserts into a parameter dict (level L2) whose key order is unobservable: DET-1b checks that nothing iterates / serialises such dicts",
}

spec("C01", "Docstring round trip",
     [L.rule_scan_end, L.rule_type_ladder, W.rule_rejoin_uniform, W.rule_wrap_breaks, W.rule_wrap_cont, W.rule_wrap_not_type, W.rule_scan_after_rejoin, L.rule_quote_pair, TB.rule_table_style, TB.rule_table_announce, N.rule_null2, H.rule_invented_default, H.rule_empty_hole, H.rule_prose_gate, scoped(FA.rule_falsy, "falsy_defaults", "defaults_utils.set_default_doc", "defaults_utils.extract_default", "emitter_utils.interpolate_defaults"), L.rule_quote_types, coord("rule_coord_docstring", "docstring_parsers.parse_docstring", "emit.docstring"),
      det3("docstring", "emit.docstring", "docstring_parsers.parse_docstring"), pit("docstring", "emit.docstring", "docstring_parsers.parse_docstring")],
     "Necessary conditions decided on the source: (WRAP-NOT-TYPE) no text built from an entry's declared type reaches a word-wrapper - a type contains blanks and is read back from one line; (SCAN-END) the reader's scan for the end of an announced value, followed character by character on sample texts (a number, a decimal, a word, a quoted string with a full stop in it, bracketed values, an expression - with and without prose behind them), hands the conversion ladder the value: not cut at a dot inside quotes or a decimal, not running on into the prose behind a bracketed value; (TYPE-LADDER) every class of default text (integers signed or not, floats in every notation, booleans, quoted and unquoted strings - also those that look like numbers -, expressions) comes out of the reader's conversion ladder with its own Python type and no exception escapes; (REJOIN-UNIFORM) when word-wrapped prose is read back, the lines of a description are re-joined the same way at every line boundary - no decision on what a line contains, no join without a blank - so the prose comes back word for word; (WRAP-BREAKS, WRAP-CONT, SCAN-AFTER-REJOIN - emit.docstring wraps by default, so the round trip of any description longer than a line rests on them) every wrapping call breaks lines at whitespace only, continuation lines of a wrapped description keep the indentation the reader needs, and the default reader sees a description only after its lines were re-joined; (QUOTE-PAIR) what the writer does to a string default when it quotes it the reader's unquote undoes, quoting its own result changes nothing, and unquote leaves a text that is not a quoted pair alone - followed on representatives of the kinds of string a default can be (a word, inner double quote, apostrophe, inner blank, padded, blank, line break, digits); (INVENTED-DEFAULT) on the docstring reader's path a default is only ever taken from the text: every call of a function "
     "that writes the IR key 'default' with something other than what the default reader extracted, when one of its flag parameters is true, passes that flag as a constant "
     "false; (EMPTY-HOLE) the explicit default '' is written as a value the reader recognises, never as the empty text; (PROSE-GATE) whether the default sentence is written does not hang on the parameter having prose: the function that writes the announcement does not leave in front of it because the key 'doc' is missing while a default may be there, and on the docstring writer's path no use of the text it returns stands under a test of the IR's own prose; (FALSY) in the default writer and reader no default value - nor a helper's result that can be that value handed back unchanged - is used as a truth test (None, '', 0 and False are different defaults); (QUOTE-TYPES) the quoting helper, applied to every default whose "
     "declared type mentions str, raises for no kind of default value (str, int, float, bool, None); (TABLE-announce) the default sentence the writer appends contains an announcement the reader looks for, and the writer decides 'this prose already announces a default' by asking the reader or by searching for texts each of which contains a reader announcement - also when those texts are computed from the reader's table (`a.rstrip() in prose for a in TABLE`); (TABLE-style) per docstring style, every section header / line marker the emitter writes contains a "
     "detection token of that style, none of a style detected earlier, and is a header the style's scanner splits on; ARG/RETURN token tables are subsets of "
     "TOKENS. (NULL-2) the pending-parameter slot [None, {}] of the ReST parser cannot reach the name post-processing, which dereferences the name, without a "
     "test of its name element (the 'documents only a return value' crash). (COORD) the scanners and the writer never cut a docstring at a position that was measured on a stripped / case-folded / otherwise length-changed copy of it. (DET-3, scoped) no function on this property's code path writes state that outlives the call (module globals/objects, function or class attributes, mutated mutable defaults, memoised mutable results): the conversion is not history-dependent. (LATE-BIND / STALE-CAPTURE / SHARED-DEFAULT / STR-MEMBER, scoped) on this property's code path no closure created per iteration reads its loop variable late, no partial / lambda default captures a name that is rebound before the call, no mutable default is mutated, returned or stored, and no membership test is made against an identifier-like string (a tuple that lost its comma).",
     floors={"TABLE-style": 9, "NULL-2": 1},
     technique="constant folding of the repository's token tables and templates; def-use / CFG reachability of a None literal through callee summaries",
     not_decided="IR equality after emit->parse (values); prose that itself contains a marker of another style; exceptions other than the definite None dereference")

spec("C02", "Config-class round trip",
     [W.rule_rejoin_uniform, L.rule_quote_types, named(O.rule_order, "rule_order_class", only=("emit.class_",)), TB.rule_table_cvar, scoped(FA.rule_falsy, "falsy_class", "emit.class_", "parse.class_"), named(FW.rule_fwd, "rule_fwd", accepted=FWD_ACCEPTED), det3("class", "emit.class_", "parse.class_"), pit("class", "emit.class_", "parse.class_")],
     "Necessary conditions: (REJOIN-UNIFORM) when word-wrapped prose is read back, the lines of a description are re-joined the same way at every line boundary - no decision on what a line contains, no join without a blank - so the prose comes back word for word; (QUOTE-TYPES) the quoting helper, applied to every default whose declared type mentions str (Union[int, str] = 3), raises for no kind of default value (str, int, float, bool, None): its type dispatch is run abstractly per kind; (ORDER) the class emitter produces exactly one attribute per parameter, in mapping order, never None, named by the parameter's key, with "
     "no filter/sort between the mapping and the attribute list; (TABLE-cvar) the ':cvar' marker and the reserved 'return_type' attribute written by the class "
     "emitter are exactly what the class and function parsers substitute / pop back. (FWD) an option the caller was given (word_wrap, emit_default_doc, docstring_format, ...) is forwarded to every callee that has the same option with a default - directly, through a partial or a wrapper; the confirmed exceptions are listed with reasons (props.FWD_ACCEPTED) or lie on the live-object path. (DET-3, scoped) no function on this property's code path writes state that outlives the call (module globals/objects, function or class attributes, mutated mutable defaults, memoised mutable results): the conversion is not history-dependent. (LATE-BIND / STALE-CAPTURE / SHARED-DEFAULT / STR-MEMBER, scoped) on this property's code path no closure created per iteration reads its loop variable late, no partial / lambda default captures a name that is rebound before the call, no mutable default is mutated, returned or stored, and no membership test is made against an identifier-like string (a tuple that lost its comma).",
     floors={"ORDER": 1, "TABLE-cvar": 4},
     technique="structural sequence analysis of the emitter (map/filter/comprehension chain), return-path analysis of the element function, constant folding",
     not_decided="preservation of values/types/prose; the documented zero-value normalisation; the parser's merge of docstring- and attribute-derived entries")

spec("C03", "Function / method round trip",
     [W.rule_rejoin_cover, H.rule_ast_leak, H.rule_default_kind, W.rule_rejoin_uniform, L.rule_quote_pair, named(O.rule_order, "rule_order_function", only=("emit.function",)), A.rule_align_emit, A.rule_align_parse, TB.rule_table_kind, N.rule_null1, N.rule_null2,
      scoped(FA.rule_falsy, "falsy_function", "emit.function", "parse.function"), named(FW.rule_fwd, "rule_fwd", accepted=FWD_ACCEPTED), O.rule_kwarg_last, O.rule_order_merge, det3("function", "emit.function", "parse.function"), pit("function", "emit.function", "parse.function")],
     "Necessary conditions: (REJOIN-COVER) the function that re-joins the wrapped lines of a description is applied to an entry under no test of the entry's default or type - an entry without a default is wrapped all the same; (AST-LEAK) on every path through the reader's default post-processing on which a signature default can still be a syntax node (no condition has said it is a str / constant / None-like, no statement has converted it) the function does not return: the IR holds values and code-quoted text, never raw ast objects; (DEFAULT-KIND) an operation only a str has (a str method, len(), indexing) is applied to a read of the IR key 'default' only under evidence that this default is a str (isinstance, a package predicate that tests it, equality with a str constant): defaults are also ints, floats, booleans and None; (REJOIN-UNIFORM) when word-wrapped prose is read back, the lines of a description are re-joined the same way at every line boundary - no decision on what a line contains, no join without a blank - so the prose comes back word for word; (QUOTE-PAIR) what the writer does to a string default when it quotes it the reader's unquote undoes, quoting its own result changes nothing, and unquote leaves a text that is not a quoted pair alone - followed on representatives of the kinds of string a default can be (a word, inner double quote, apostrophe, inner blank, padded, blank, line break, digits); (ORDER) one argument per non-**kwargs parameter in order, named by the key, with the name-only **kwargs partition and its complement both "
     "consumed; (ALIGN-emit) defaults/kw_defaults are built one per argument from the same sequence (symbolic length identities over all paths); (ALIGN-parse) "
     "signature defaults are padded to exactly the argument count and keep their positions; (TABLE-kind) self/cls/static and the **kwargs suffix agree between "
     "emitter and recognisers; (NULL-1/2) no definite None dereference on the return-only / prose-less return paths. (FWD) an option the caller was given (word_wrap, emit_default_doc, docstring_format, ...) is forwarded to every callee that has the same option with a default - directly, through a partial or a wrapper; the confirmed exceptions are listed with reasons (props.FWD_ACCEPTED) or lie on the live-object path. (DET-3, scoped) no function on this property's code path writes state that outlives the call (module globals/objects, function or class attributes, mutated mutable defaults, memoised mutable results): the conversion is not history-dependent. (LATE-BIND / STALE-CAPTURE / SHARED-DEFAULT / STR-MEMBER, scoped) on this property's code path no closure created per iteration reads its loop variable late, no partial / lambda default captures a name that is rebound before the call, no mutable default is mutated, returned or stored, and no membership test is made against an identifier-like string (a tuple that lost its comma). (KWARG-LAST, ORDER-merge) as under C07.",
     floors={"ORDER": 2, "ALIGN-emit": 2, "ALIGN-parse": 1, "TABLE-kind": 3, "NULL-1": 1},
     technique="linear-form length algebra evaluated path-sensitively; structural sequence analysis; constant folding; None-return summaries",
     not_decided="equality of types/prose/defaults, return interpolation text, indent levels")

spec("C04", "argparse round trip",
     [named(O.rule_order, "rule_order_argparse", only=("emit.argparse_function",)), TB.rule_table_argparse,
      scoped(FA.rule_falsy, "falsy_argparse", "emit.argparse_function", "parse.argparse_ast"), scoped(FA.rule_stripset, "stripset_argparse", "emit.argparse_function", "parse.argparse_ast"),
      coord("rule_coord_defaults", "defaults_utils.extract_default", "defaults_utils.set_default_doc"), named(FW.rule_fwd, "rule_fwd", accepted=FWD_ACCEPTED), det3("argparse", "emit.argparse_function", "parse.argparse_ast"), pit("argparse", "emit.argparse_function", "parse.argparse_ast")],
     "Necessary conditions: (ORDER) exactly one add_argument call per parameter, in order, carrying '--<key>'; (TABLE-argparse) every keyword by which the emitter "
     "carries IR information is read by the parser, the '--' prefix added is the prefix stripped, the recogniser predicates test both receiver and attribute the "
     "emitter builds, written action constants are understood. (COORD) no position measured on a transformed copy of the prose (strip / casefold / replace change lengths; also through a search helper given a normalising callable) is used to cut the original prose. (FWD) an option the caller was given (word_wrap, emit_default_doc, docstring_format, ...) is forwarded to every callee that has the same option with a default - directly, through a partial or a wrapper; the confirmed exceptions are listed with reasons (props.FWD_ACCEPTED) or lie on the live-object path. (DET-3, scoped) no function on this property's code path writes state that outlives the call (module globals/objects, function or class attributes, mutated mutable defaults, memoised mutable results): the conversion is not history-dependent. (LATE-BIND / STALE-CAPTURE / SHARED-DEFAULT / STR-MEMBER, scoped) on this property's code path no closure created per iteration reads its loop variable late, no partial / lambda default captures a name that is rebound before the call, no mutable default is mutated, returned or stored, and no membership test is made against an identifier-like string (a tuple that lost its comma).",
     floors={"ORDER": 1, "TABLE-argparse": 10},
     technique="structural sequence analysis; constant/keyword table extraction from writer and reader",
     not_decided="required/default/Optional interplay, choices quoting, numeric vs string defaults (value-level)")

spec("C06", "Emitted code is valid Python",
     [H.rule_default_kind, L.rule_quote_pair, L.rule_quote_types, TB.rule_table_argparse, TB.rule_argparse_verbatim, A.rule_align_emit, O.rule_order, CT.rule_ctor, scoped(FA.rule_falsy, "falsy_emit", "emit.class_", "emit.function", "emit.argparse_function"),
      det3("emit", "emit.class_", "emit.function", "emit.argparse_function", "emit.file"), pit("emit", "emit.class_", "emit.function", "emit.argparse_function", "emit.file"), F.rule_file5],
     "Necessary conditions, for all inputs: (TABLE-argparse) what the argparse emitter builds is what a real ArgumentParser accepts and the recogniser reads back - in particular a '%' in help text is written doubled, because argparse %-formats every help string (else printing the help raises), and halved again by the parser; (ARGPARSE-VERBATIM) the text assigned to the parser's description, which argparse prints as it is, passes through no percent rewriting; (DEFAULT-KIND) an operation only a str has (a str method, len(), indexing) is applied to a read of the IR key 'default' only under evidence that this default is a str (isinstance, a package predicate that tests it, equality with a str constant): defaults are also ints, floats, booleans and None; (QUOTE-PAIR) what the writer does to a string default when it quotes it the reader's unquote undoes, quoting its own result changes nothing, and unquote leaves a text that is not a quoted pair alone - followed on representatives of the kinds of string a default can be (a word, inner double quote, apostrophe, inner blank, padded, blank, line break, digits); (QUOTE-TYPES) the quoting helper, applied to every default whose declared type mentions str (Union[int, str] = 3), raises for no kind of default value (str, int, float, bool, None): its type dispatch is run abstractly per kind; (ALIGN-emit) every ast.arguments(...) the package builds satisfies Python's length invariants and aligns defaults with "
     "arguments as symbolic identities; (ORDER) names/order/count of attributes, arguments and options are those of the IR by construction; (CTOR) every ast node "
     "construction supplies the mandatory _fields of the running interpreter. (DET-3, scoped) no function on this property's code path writes state that outlives the call (module globals/objects, function or class attributes, mutated mutable defaults, memoised mutable results): the conversion is not history-dependent. (LATE-BIND / STALE-CAPTURE / SHARED-DEFAULT / STR-MEMBER, scoped) on this property's code path no closure created per iteration reads its loop variable late, no partial / lambda default captures a name that is rebound before the call, no mutable default is mutated, returned or stored, and no membership test is made against an identifier-like string (a tuple that lost its comma). (FILE-5c) existing content is not read through a handle opened for appending.",
     floors={"ALIGN-emit": 2, "ORDER": 4, "CTOR": 1},
     technique="linear-form length algebra; structural sequence analysis; constructor-call conformance against ast.<Node>._fields",
     not_decided="behaviour of the executed artefacts, identifier validity of type strings, values of defaults")

spec("C07", "Parsing faithful to Python's view",
     [H.rule_ast_leak, lambda prog, rep, tier: D.rule_det1(prog, rep, tier, scope=prog.reachable([prog.fn("parse.function"), prog.fn("parse.class_")]), accepted=DET1_ACCEPTED),
      A.rule_align_parse, O.rule_sigcover, O.rule_first_match, O.rule_kwarg_last, O.rule_order_merge, H.rule_invented_default, W.rule_rejoin_uniform, det3("parse", "parse.function", "parse.class_"), pit("parse", "parse.function", "parse.class_")],
     "Necessary conditions: (AST-LEAK) on every path through the reader's default post-processing on which a signature default can still be a syntax node (no condition has said it is a str / constant / None-like, no statement has converted it) the function does not return: the IR holds values and code-quoted text, never raw ast objects; (REJOIN-UNIFORM) the reader's blank-join of lines is applied to descriptions only, never to a default value or a type (the same post-processing sees the defaults "
     "taken from the signature, where a line break is content), and treats every line boundary alike; (INVENTED-DEFAULT) the docstring reader never invents a default (a flag that makes a helper write a zero value / None placeholder as 'default' is "
     "a constant false on every call on the reader's path): the docstring takes precedence in the merge, so an invented default makes a parameter Python sees as required optional; "
     "(DET-1) on the parse path no iteration order of an unordered collection reaches the parameter mapping (order independent of run-to-run "
     "variation); (ALIGN-parse) signature defaults stay aligned with their arguments; (SIGCOVER) args, kwonlyargs and **kwarg each reach the result on some read that "
     "is not guarded by docstring-derived data; (FIRST-MATCH) the method merged into a class is the first definition of that name in breadth-first order (the class's own, not a nested class's). (KWARG-LAST) a documented `**kwargs` is out of the parameter mapping while the signature merge appends the undocumented parameters and is inserted (or moved to the end) afterwards, so it stays the last parameter as in the signature. (DET-3, scoped) no function on this property's code path writes state that outlives the call (module globals/objects, function or class attributes, mutated mutable defaults, memoised mutable results): the conversion is not history-dependent. (LATE-BIND / STALE-CAPTURE / SHARED-DEFAULT / STR-MEMBER, scoped) on this property's code path no closure created per iteration reads its loop variable late, no partial / lambda default captures a name that is rebound before the call, no mutable default is mutated, returned or stored, and no membership test is made against an identifier-like string (a tuple that lost its comma). (ORDER-merge) the signature merge inserts the undocumented parameters in signature order (no LIFO popitem / reversed source).",
     floors={"DET-1": 2, "ALIGN-parse": 1, "SIGCOVER": 3},
     technique="unordered-value dataflow with order-sensitive-effect classification; length algebra; guard (control-dependence) analysis of signature reads",
     not_decided="that the order is the source order (documented-first is value-level), precedence of documented information, prose attribution, the inspect path")

spec("C08", "Fixed point after one pass",
     [W.rule_rejoin_cover, L.rule_scan_end, H.rule_default_kind, L.rule_quote_pair, TB.rule_table_announce, H.rule_empty_hole, scoped(FA.rule_falsy, "falsy_defaults", "defaults_utils.set_default_doc", "defaults_utils.extract_default", "emitter_utils.interpolate_defaults"),
      coord("rule_coord_defaults", "defaults_utils.extract_default", "defaults_utils.set_default_doc"), named(FW.rule_fwd, "rule_fwd", accepted=FWD_ACCEPTED), O.rule_order_merge, det3("all", "emit.docstring", "emit.class_", "emit.function", "emit.argparse_function", "parse.docstring", "parse.class_", "parse.function", "parse.argparse_ast"), pit("all", "emit.docstring", "emit.class_", "emit.function", "emit.argparse_function", "parse.docstring", "parse.class_", "parse.function", "parse.argparse_ast"),
      C.rule_call_dispatch],
     "Necessary condition: (SCAN-END) the reader's scan for the end of an announced value, followed character by character on sample texts (a number, a decimal, a word, a quoted string with a full stop in it, bracketed values, an expression - with and without prose behind them), hands the conversion ladder the value: not cut at a dot inside quotes or a decimal, not running on into the prose behind a bracketed value; (DEFAULT-KIND) an operation only a str has (a str method, len(), indexing) is applied to a read of the IR key 'default' only under evidence that this default is a str (isinstance, a package predicate that tests it, equality with a str constant): defaults are also ints, floats, booleans and None; (QUOTE-PAIR) what the writer does to a string default when it quotes it the reader's unquote undoes, quoting its own result changes nothing, and unquote leaves a text that is not a quoted pair alone - followed on representatives of the kinds of string a default can be (a word, inner double quote, apostrophe, inner blank, padded, blank, line break, digits); (TABLE-announce b) each writer of the default sentence recognises its own sentence as 'already present' - either by calling the reader "
     "itself or by a substring of the written phrase - otherwise one more sentence is appended on every pass; (EMPTY-HOLE) the value written behind the announcement cannot be the empty text for the explicit default '': a bare "
     "announcement is not recognised by the reader, so the sentence would be appended again on every pass. (COORD) no position measured on a transformed copy of the prose (strip / casefold / replace change lengths; also through a search helper given a normalising callable) is used to cut the original prose. (FWD) an option the caller was given (word_wrap, emit_default_doc, docstring_format, ...) is forwarded to every callee that has the same option with a default - directly, through a partial or a wrapper; the confirmed exceptions are listed with reasons (props.FWD_ACCEPTED) or lie on the live-object path. (DET-3, scoped) no function on this property's code path writes state that outlives the call (module globals/objects, function or class attributes, mutated mutable defaults, memoised mutable results): the conversion is not history-dependent. (LATE-BIND / STALE-CAPTURE / SHARED-DEFAULT / STR-MEMBER, scoped) on this property's code path no closure created per iteration reads its loop variable late, no partial / lambda default captures a name that is rebound before the call, no mutable default is mutated, returned or stored, and no membership test is made against an identifier-like string (a tuple that lost its comma). (ORDER-merge) as under C07.",
     floors={"TABLE-announce": 3, "EMPTY-HOLE": 1},
     technique="constant folding of writer phrase / reader announcement tables; guard analysis of the writer",
     not_decided="byte identity of the 2nd and 3rd emission in general (quote guards, indentation, wrapping are value-level)")

spec("C09", "sync makes targets agree",
     [CT.rule_cmp_parsed, C.rule_call_direct, C.rule_call_dispatch, C2.rule_cli2, V.rule_visit1, F.rule_target_cover, F.rule_file5, F.rule_file2b, F.rule_file2c, F.rule_file2d, V.rule_visit4, M.rule_modf2_conform, det3("sync", "conformance.ground_truth"), pit("sync", "conformance.ground_truth")],
     "Necessary conditions: (CMP-PARSED) the test 'this target already is what would be written' compares a node read from source with the emitted node only after the emitted node was read back through a parse - or every node construction the emitters reach supplies every non-optional field of the running interpreter's grammar (a parsed ClassDef has `type_params` on 3.12): otherwise the two never compare equal and every run rewrites and reports the target; (REJOIN-COVER) the function that re-joins the wrapped lines of a description is applied to an entry under no test of the entry's default or type - an entry without a default is wrapped all the same; (CALL) every call through the sync dispatch table binds to its callee's signature for every table row and branch (create / append / replace), "
     "on top of 290+ directly resolved calls; (TARGET-COVER) the per-file worker is mapped over the whole list of files the caller gave for a kind - not a slice, an index, a filtered or shortened copy - and stands under no condition on the file other than the comparison with the truth file; (CLI-2) no accepted combination of the three kinds dereferences an option that was not given (192 abstract states); (VISIT-1) "
     "every visit_<T> override of the replacer replaces under the location predicate or delegates; (FILE-5) an appended definition starts on a new line; (FILE-2c) an "
     "existing, found definition is left unwritten only when its tree equals the replacement; (FILE-2b incl. ZIP-EQ) an existing file is rewritten only under an AST inequality test whose element-wise comparison also compares lengths; (MOD-F2) each target receives a freshly built replacement node. (DET-3, scoped) no function on this property's code path writes state that outlives the call (module globals/objects, function or class attributes, mutated mutable defaults, memoised mutable results): the conversion is not history-dependent. (LATE-BIND / STALE-CAPTURE / SHARED-DEFAULT / STR-MEMBER, scoped) on this property's code path no closure created per iteration reads its loop variable late, no partial / lambda default captures a name that is rebound before the call, no mutable default is mutated, returned or stored, and no membership test is made against an identifier-like string (a tuple that lost its comma). (FILE-2d) the existence test that decides between creating and editing a target looks at the same canonical form of the path that is written; (VISIT-4) locations are built inductively (the three recorded findings also fail C09).",
     floors={"CALL": 8, "CLI-2": 1, "VISIT-1": 2, "FILE-5": 1, "FILE-2c": 1},
     technique="signature binding over resolved and table-dispatched calls; finite abstract interpretation of option presence; CFG path enumeration; visitor-protocol check",
     not_decided="that the parsed targets equal the truth IR (values); method target absent from the file (a bare function is appended)")

spec("C10", "sync idempotent / truth untouched / truthful report",
     [CT.rule_cmp_parsed, F.rule_file0, F.rule_file1_truth, F.rule_file1b, F.rule_file2, F.rule_file2b, C.rule_call_dispatch, F.rule_file2d, F.rule_file5, det3("sync", "conformance.ground_truth"), pit("sync", "conformance.ground_truth")],
     "Necessary conditions: (CMP-PARSED) the test 'this target already is what would be written' compares a node read from source with the emitted node only after the emitted node was read back through a parse - or every node construction the emitters reach supplies every non-optional field of the running interpreter's grammar (a parsed ClassDef has `type_params` on 3.12): otherwise the two never compare equal and every run rewrites and reports the target; (FILE-1) every call from the sync worker that can reach a write sink is guarded by a comparison of the target filename with the truth file; (FILE-1b) both sides of that comparison are canonicalised by the same path functions; (CALL-SIB) the create / append / replace branches emit with the same option flags; "
     "(FILE-2) on every enumerated path of _conform_filename the returned and printed changed-flag is true iff a write lies on the path; (FILE-2b) the in-place rewrite is "
     "control-dependent on an AST-inequality test. (FILE-5) a definition appended to an existing file starts on a new line after every other transformation of the text (otherwise it is glued to the last line, is not found by the next run, and is appended again). (DET-3, scoped) no function on this property's code path writes state that outlives the call (module globals/objects, function or class attributes, mutated mutable defaults, memoised mutable results): the conversion is not history-dependent. (LATE-BIND / STALE-CAPTURE / SHARED-DEFAULT / STR-MEMBER, scoped) on this property's code path no closure created per iteration reads its loop variable late, no partial / lambda default captures a name that is rebound before the call, no mutable default is mutated, returned or stored, and no membership test is made against an identifier-like string (a tuple that lost its comma). (FILE-2d) as under C09.",
     floors={"FILE-1": 1, "FILE-2": 4, "FILE-2b": 1},
     technique="call-graph reachability of write sinks, guard/control-dependence analysis, exhaustive CFG path enumeration",
     not_decided="byte identity of a second run (needs emit.parse to be a fixed point: value-level); growth by repeated append when the lookup cannot find what was appended")

spec("C11", "sync preserves the rest",
     [TB.rule_receiver_sites, named(M.rule_modf, "rule_modf_sync", workers=("conformance._conform_filename",)), F.rule_file5, F.rule_file2d, F.rule_file2b, F.rule_file3, V.rule_visit2, V.rule_visit6, V.rule_visit4, V.rule_visit4b, det3("sync", "conformance.ground_truth"), pit("sync", "conformance.ground_truth")],
     "Necessary conditions: (RECEIVER-SITES) every test in the location machinery that names a receiver (`args[0].arg in (...)`, `get_function_type(f) == ...`) names all the receivers get_function_type recognises - 'self' and 'cls' - so the arguments of class methods are numbered like those of instance methods; (MOD-F) between reading a target module and writing it back the only field-visible writes on the tree are the replacer's or identity-preserving "
     "re-listings, the reader's docstring re-indent being disabled at the call site; (FILE-5) appended text starts on a new line so the file still parses; (VISIT-2) at most "
     "one node is replaced; (VISIT-6) locations are compared by exact equality; (VISIT-4) locations are built inductively, so only the addressed node can match. (DET-3, scoped) no function on this property's code path writes state that outlives the call (module globals/objects, function or class attributes, mutated mutable defaults, memoised mutable results): the conversion is not history-dependent. (LATE-BIND / STALE-CAPTURE / SHARED-DEFAULT / STR-MEMBER, scoped) on this property's code path no closure created per iteration reads its loop variable late, no partial / lambda default captures a name that is rebound before the call, no mutable default is mutated, returned or stored, and no membership test is made against an identifier-like string (a tuple that lost its comma). (FILE-2d) as under C09; (FILE-2b) the whole-module rewrite truncates (no update mode) and is guarded by an AST inequality; (FILE-3b) a rendering / formatting error aborts the write.",
     floors={"MOD-F": 3, "FILE-5": 1, "VISIT-2": 1, "VISIT-6": 3, "VISIT-4": 3},
     technique="frame rule over AST field writes on the read->write path; guard analysis; visitor-protocol checks",
     not_decided="that black/ast.unparse keep every other statement's tree (trusted); statements inside a replaced function (function targets are never replaced today: VISIT-1)")

spec("C12", "Deterministic output",
     [named(D.rule_det1, "rule_det1_all", accepted=DET1_ACCEPTED), D.rule_det1b, D.rule_det2, D.rule_det3, named(PT.rule_pitfalls, "rule_pitfalls_all")],
     "Full structural claim over every function of the package: (DET-1) no iteration order of an unordered collection (set displays/calls, set algebra on dict views, names/"
     "parameters/attributes that only receive such values) has an order-sensitive effect; (DET-1b) key order of parameter dicts is unobservable; (DET-2) no volatile source "
     "(id, hash, clocks, random, pid, unsorted listings, environment other than the documented width) anywhere; (DET-3) no function writes state that outlives the call "
     "(module globals, module-level mutable objects, function/class attributes, mutated mutable defaults, memoised mutable results). (LATE-BIND / STALE-CAPTURE / SHARED-DEFAULT / STR-MEMBER, scoped) on this property's code path no closure created per iteration reads its loop variable late, no partial / lambda default captures a name that is rebound before the call, no mutable default is mutated, returned or stored, and no membership test is made against an identifier-like string (a tuple that lost its comma).",
     floors={"DET-1": 20, "DET-2": 1, "DET-3": 1},
     technique="unordered-value dataflow (interprocedural through parameters and instance attributes), source inventory, persistent-state write inventory",
     not_decided="nothing structural is left out; trusted: determinism of ast, textwrap, black, yaml, json, pickle for the values they are given; objects with address-bearing repr are outside the input domain")

spec("C13", "Non-interference through shared inputs",
     [M.rule_mod1_2, M.rule_mod3, M.rule_modf2_conform, det3("all", "emit.docstring", "emit.class_", "emit.function", "emit.argparse_function", "parse.docstring", "parse.class_", "parse.function", "parse.argparse_ast"), pit("all", "emit.docstring", "emit.class_", "emit.function", "emit.argparse_function", "parse.docstring", "parse.class_", "parse.function", "parse.argparse_ast")],
     "Decided by an alias/ownership abstraction of the dict IR (levels IR / params-returns / parameter dict / carried body): (MOD-1) no emitter changes the shape (keys, "
     "parameter set, order) of the IR it was given; (MOD-2) carried body nodes are not transformed in place; (MOD-5) no emit-path helper writes into a parameter dict "
     "of the caller's IR (every such write goes to an owned copy); (MOD-3) parsers write AST fields of their input only after rebinding it to a copy on every path; (MOD-F2) the node sync grafts into a target's tree is built afresh for that target (a constructor call, a deepcopy or a result of a dispatch-table emitter, all of which return constructor calls), never handed back from a cache or container shared between the targets of one run. (DET-3, scoped) no function on this property's code path writes state that outlives the call (module globals/objects, function or class attributes, mutated mutable defaults, memoised mutable results): the conversion is not history-dependent. (LATE-BIND / STALE-CAPTURE / SHARED-DEFAULT / STR-MEMBER, scoped) on this property's code path no closure created per iteration reads its loop variable late, no partial / lambda default captures a name that is rebound before the call, no mutable default is mutated, returned or stored, and no membership test is made against an identifier-like string (a tuple that lost its comma).",
     floors={"MOD-5": 5, "MOD-3": 3},
     technique="flow-sensitive abstract interpretation over IR levels with interprocedural (function, kinds) summaries; CFG must-pass-through for copies",
     not_decided="value-level effects of reads; helpers reached only through unresolved dynamic calls")

spec("C14", "sync_properties changes exactly the addressed property",
     [TB.rule_receiver_sites, F.rule_file1_input, F.rule_file7, O.rule_pairs_all, named(M.rule_modf, "rule_modf_sync_properties", workers=("sync_properties.sync_properties",)), M.rule_modf2, CLI.rule_cli1, A.rule_align_idx, det3("sync_properties", "sync_properties.sync_properties"), pit("sync_properties", "sync_properties.sync_properties")],
     "Necessary conditions: (RECEIVER-SITES) every test in the location machinery that names a receiver (`args[0].arg in (...)`, `get_function_type(f) == ...`) names all the receivers get_function_type recognises - 'self' and 'cls' - so the arguments of class methods are numbered like those of instance methods; (FILE-1) no value derived from the input filename reaches the path of a write sink; (FILE-7) the single write of the output file comes after all "
     "pairs and every returning path after the transformer ran tests `.replaced` with a raising failing branch; (MOD-F) only the addressed node is field-mutated on the "
     "read->write path; (MOD-F2) the node taken from the input tree is copied before it is mutated/grafted; (CLI-1) CLI dests bind to the worker's signature. (ALIGN-idx) an index used on `<fn>.args.defaults` comes from the positional argument list only (the `_idx` numbering restarts for keyword-only arguments), so replacing one argument cannot overwrite the default of another. (DET-3, scoped) no function on this property's code path writes state that outlives the call (module globals/objects, function or class attributes, mutated mutable defaults, memoised mutable results): the conversion is not history-dependent. (LATE-BIND / STALE-CAPTURE / SHARED-DEFAULT / STR-MEMBER, scoped) on this property's code path no closure created per iteration reads its loop variable late, no partial / lambda default captures a name that is rebound before the call, no mutable default is mutated, returned or stored, and no membership test is made against an identifier-like string (a tuple that lost its comma).",
     floors={"FILE-1": 2, "FILE-7": 2, "MOD-F": 3, "MOD-F2": 1, "CLI-1": 2},
     technique="taint over the call graph, CFG path facts, frame rule, ownership of foreign nodes",
     not_decided="that the addressed node is the right one (C15), eval mode (executes the input module)")

spec("C15", "Dotted locations",
     [TB.rule_receiver_sites, named(V.rule_visit3, "rule_visit3", location_inductive=V.location_is_inductive), V.rule_visit4, V.rule_visit4b, V.rule_visit2, V.rule_visit6, A.rule_align_idx, pit("locations", "ast_utils.find_in_ast", "ast_utils.annotate_ancestry")],
     "Necessary conditions: (RECEIVER-SITES) every test in the location machinery that names a receiver (`args[0].arg in (...)`, `get_function_type(f) == ...`) names all the receivers get_function_type recognises - 'self' and 'cls' - so the arguments of class methods are numbered like those of instance methods; (VISIT-3) typestate over the CFG of find_in_ast: a path segment is consumed only after the previous one was matched and a node is answered only "
     "in state MATCHED; (VISIT-3b) answers decided by `_location == search` alone are only accepted while the annotation is inductive; (VISIT-4) every `_location` is built "
     "from the parent's location; (VISIT-2) replace at most once; (VISIT-6) locations are compared by exact equality only. (ALIGN-idx) an index used on `<fn>.args.defaults` comes from the positional argument list only (the `_idx` numbering restarts for keyword-only arguments), so replacing one argument cannot overwrite the default of another. (LATE-BIND / STALE-CAPTURE / SHARED-DEFAULT / STR-MEMBER, scoped) on this property's code path no closure created per iteration reads its loop variable late, no partial / lambda default captures a name that is rebound before the call, no mutable default is mutated, returned or stored, and no membership test is made against an identifier-like string (a tuple that lost its comma).",
     floors={"VISIT-3": 4, "VISIT-4": 4, "VISIT-2": 1, "VISIT-6": 3},
     technique="three-state typestate dataflow on a hand-built statement CFG; data-dependence of location assignments",
     not_decided="full functional correctness of the resolver against an independent one")

spec("C16", "Bodies carried verbatim",
     [V.rule_visit5, TB.rule_table_argparse, M.rule_mod1_2, O.rule_ret_top, det3("bodies", "emit.class_", "emit.function", "emit.argparse_function", "parse.class_", "parse.function", "parse.argparse_ast"), pit("bodies", "emit.class_", "emit.function", "emit.argparse_function", "parse.class_", "parse.function", "parse.argparse_ast")],
     "Necessary conditions: (VISIT-5) the parameter->self.<parameter> renamer rewrites only names in its set, handles every scope-introducing node kind, and its set is exactly "
     "the IR's parameter names as given (computed before the return entry is folded in); (TABLE-argparse) the argparse recognisers pin down receiver and attribute, so only "
     "the emitter's own statements are treated as interface and every other statement stays in the carried body. (RET-TOP) the return default is read from a top-level statement of the body only, which is what the function emitter's replacement of a trailing `return` assumes; a default taken from a nested block makes the re-emitted body one statement longer. (DET-3, scoped) no function on this property's code path writes state that outlives the call (module globals/objects, function or class attributes, mutated mutable defaults, memoised mutable results): the conversion is not history-dependent. (LATE-BIND / STALE-CAPTURE / SHARED-DEFAULT / STR-MEMBER, scoped) on this property's code path no closure created per iteration reads its loop variable late, no partial / lambda default captures a name that is rebound before the call, no mutable default is mutated, returned or stored, and no membership test is made against an identifier-like string (a tuple that lost its comma).",
     floors={"VISIT-5": 3, "TABLE-argparse": 10},
     technique="visitor-coverage check against the grammar's scope-introducing node kinds; reaching-definition check of the rename set; recogniser constant extraction",
     not_decided="positional special cases of body splicing (slices of the runtime body list), trailing-return handling")

spec("C17", "Defaults through prose",
     [L.rule_scan_end, TB.rule_table_announce, L.rule_type_ladder, H.rule_empty_hole, scoped(FA.rule_falsy, "falsy_defaults", "defaults_utils.set_default_doc", "defaults_utils.extract_default", "emitter_utils.interpolate_defaults"),
      coord("rule_coord", "defaults_utils.extract_default", "defaults_utils.set_default_doc"),
      det3("defaults", "defaults_utils.set_default_doc", "defaults_utils.extract_default", "emitter_utils.interpolate_defaults"), pit("defaults", "defaults_utils.set_default_doc", "defaults_utils.extract_default", "emitter_utils.interpolate_defaults")],
     "Necessary conditions: (SCAN-END) the reader's scan for the end of an announced value, followed character by character on sample texts (a number, a decimal, a word, a quoted string with a full stop in it, bracketed values, an expression - with and without prose behind them), hands the conversion ladder the value: not cut at a dot inside quotes or a decimal, not running on into the prose behind a bracketed value; (TYPE-LADDER) the ladder of tests and conversions that turns the announced text into a value is run abstractly over the finite classes of "
     "default text (unsigned / signed integer, fractional / whole-valued / exponent float, boolean, None, unquoted word, quoted string) crossed with the declared type: "
     "every class comes out with its own Python type (integers stay int, floats stay float, booleans bool, strings str) and no exception escapes; "
     "(EMPTY-HOLE) the value written behind the default announcement cannot be the empty text for the explicit default '' (a may-be-empty analysis of the hole expression through the quoting helper's returns); "
     "(COORD) in the reader and the writer of default sentences no position measured on a transformed copy of the prose (strip / casefold / "
     "replace change lengths; also through a search helper given a normalising callable) is used to cut the original prose, which is how 'removing the sentence leaves the "
     "surrounding prose unchanged' breaks by a few characters; (TABLE-announce a) the sentence the writer produces contains an announcement the reader looks for; (c) the docstring writer skips writing a default "
     "only when the prose contains something the reader would recognise as an announcement (decided by calling the reader itself, or by substrings that contain an announcement). (DET-3, scoped) no function on this property's code path writes state that outlives the call (module globals/objects, function or class attributes, mutated mutable defaults, memoised mutable results): the conversion is not history-dependent. (LATE-BIND / STALE-CAPTURE / SHARED-DEFAULT / STR-MEMBER, scoped) on this property's code path no closure created per iteration reads its loop variable late, no partial / lambda default captures a name that is rebound before the call, no mutable default is mutated, returned or stored, and no membership test is made against an identifier-like string (a tuple that lost its comma).",
     floors={"TABLE-announce": 3, "COORD": 3, "TYPE-LADDER": 8, "EMPTY-HOLE": 1},
     technique="constant folding of the announcement tables, guard analysis of the writer, forward dataflow of string-coordinate provenance with callee return summaries; "
               "finite abstract interpretation of the conversion ladder over classes of literal text (what each str predicate, numeric constructor and literal_eval does on a class is tabulated in the rule)",
     not_decided="the arithmetic of the removal offsets themselves, values and scan inputs outside the tabulated classes and samples (character-level)")

spec("C18", "Wrapping / line length transparent",
     [T.rule_typeflow, T.rule_wrap_last, W.rule_wrap_breaks, W.rule_wrap_cont, W.rule_rejoin_uniform, W.rule_rejoin_cover, W.rule_wrap_not_type, W.rule_scan_after_rejoin, coord("rule_coord_defaults", "defaults_utils.extract_default", "defaults_utils.set_default_doc"), det3("emit", "emit.docstring", "emit.class_", "emit.function", "emit.argparse_function"), pit("emit", "emit.docstring", "emit.class_", "emit.function", "emit.argparse_function")],
     "Necessary conditions: (WRAP-NOT-TYPE) no text built from an entry's declared type reaches a word-wrapper - a type contains blanks and is read back from one line; (REJOIN-COVER) the function that re-joins the wrapped lines of a description is applied to an entry under no test of the entry's default or type - an entry without a default is wrapped all the same; (TYPEFLOW) the configured width read from the environment passes int()/float() before every numeric sink (width= of textwrap, comparison with "
     "len()); (WRAP-LAST) no reader of prose (default-sentence scanner) is applied to an already word-wrapped string; (WRAP-BREAKS) every wrapping call breaks lines at "
     "whitespace only (break_long_words=False, break_on_hyphens=False), because the reader re-joins the lines of an entry with a blank; (WRAP-CONT) in the functions that "
     "write one documented entry the wrapped text reaches the output through an indenter (or subsequent_indent=): continuation lines at the entry's own column are read as "
     "new entries; (REJOIN-UNIFORM) the reader's re-join treats every line boundary alike (no decision on what a line contains, no join without a blank); "
     "(SCAN-AFTER-REJOIN) wherever the default reader runs on a description that is not re-joined yet, a later reader after the re-join exists on every chain into that "
     "style path. (COORD) no position measured on a transformed copy of the prose (strip / casefold / replace change lengths; also through a search helper given a normalising callable) is used to cut the original prose. (DET-3, scoped) no function on this property's code path writes state that outlives the call (module globals/objects, function or class attributes, mutated mutable defaults, memoised mutable results): the conversion is not history-dependent. (LATE-BIND / STALE-CAPTURE / SHARED-DEFAULT / STR-MEMBER, scoped) on this property's code path no closure created per iteration reads its loop variable late, no partial / lambda default captures a name that is rebound before the call, no mutable default is mutated, returned or stored, and no membership test is made against an identifier-like string (a tuple that lost its comma).",
     floors={"TYPEFLOW": 2, "WRAP-LAST": 5, "WRAP-BREAKS": 2, "WRAP-CONT": 2, "REJOIN-UNIFORM": 1, "SCAN-AFTER-REJOIN": 3},
     technique="type-state taint from environment reads to numeric sinks across modules; intra-procedural taint from wrapping calls to reader calls; keyword configuration "
               "of every wrapping call resolved through partial / alias / parameter chains; consumption walk of wrapped values to indenters; composition order of reader and "
               "re-join applications with guard-implication over the call chains from parse_docstring",
     not_decided="parse(wrapped) == parse(unwrapped) as values: character-level scanning inside extract_default, the numpydoc return description's continuation lines, textual unwrapping of the argparse return type")

spec("C19", "gen writes one definition per entry",
     [C.rule_call_getattr, F.rule_file6, F.rule_file6b, O.rule_allpair, O.rule_gen_layout, O.rule_first_match, CLI.rule_cli1, det3("gen", "gen.gen"), pit("gen", "gen.gen")],
     "Necessary conditions: (CALL) for each --type value the getattr(emit, ...) call binds to the selected emitter's signature; (FILE-6) the existing-output guard dominates "
     "the gen call with a no-return failing branch; (FIRST-MATCH) a class entry is described by its own `__init__` (first match in breadth-first order), not a nested class's; (ALL-PAIR) __all__ is built from the list filled exactly once per mapping entry with the expression that names the "
     "emitted definition, after the definitions are joined; (CLI-1) gen's CLI dests bind to gen's signature. (DET-3, scoped) no function on this property's code path writes state that outlives the call (module globals/objects, function or class attributes, mutated mutable defaults, memoised mutable results): the conversion is not history-dependent. (LATE-BIND / STALE-CAPTURE / SHARED-DEFAULT / STR-MEMBER, scoped) on this property's code path no closure created per iteration reads its loop variable late, no partial / lambda default captures a name that is rebound before the call, no mutable default is mutated, returned or stored, and no membership test is made against an identifier-like string (a tuple that lost its comma).",
     floors={"CALL": 3, "FILE-6": 5, "ALL-PAIR": 2, "CLI-1": 2},
     technique="finite-domain constant folding of dynamic dispatch; CFG path facts; def-use of the __all__ list",
     not_decided="that each definition describes its source object; import hoisting")

spec("C20", "Rejected or failing invocations never damage files",
     [F.rule_file6, F.rule_file6b, F.rule_file6c, CLI.rule_cli1, C2.rule_cli2, C.rule_call_dispatch, C.rule_call_getattr, F.rule_file3, F.rule_file4, pit("cli", "__main__.main", "emit.file")],
     "Necessary conditions: (FILE-6) every path of main() reaching a worker has established that worker's validations with a no-return failing branch; (CLI-1) dests bind to "
     "worker signatures; (CLI-2, CALL) no accepted argument combination ends in a None dereference or an unbindable call; (FILE-3) emit.file renders and formats before it "
     "opens the file; (FILE-4) a file that may exist is replaced atomically. (LATE-BIND / STALE-CAPTURE / SHARED-DEFAULT / STR-MEMBER, scoped) on this property's code path no closure created per iteration reads its loop variable late, no partial / lambda default captures a name that is rebound before the call, no mutable default is mutated, returned or stored, and no membership test is made against an identifier-like string (a tuple that lost its comma).",
     floors={"FILE-6": 5, "CLI-1": 2, "CLI-2": 1, "CALL": 8, "FILE-3": 1, "FILE-4": 1},
     technique="CFG path facts over main(); finite abstract interpretation of option presence; signature binding; syntactic dominance of rendering over open()",
     not_decided="exit status / usage text; faults inside third-party code")
