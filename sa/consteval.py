"""
Finite-domain constant folding over the repository's AST.

`Folder.fold(expr, env)` returns a Python value or UNKNOWN.  It folds literals, tuples/lists/dicts/sets,
module-level constants (followed across `from doctrans.x import y`), namedtuple construction and attribute
access, subscripts/slices, +, %, comparisons, bool ops, conditional expressions, a whitelist of `str`/`dict`
methods, `len/int/str/tuple/list/frozenset/sorted/getattr(namedtuple, const)`, `sys.version_info`, and calls of
*pure string helpers of the repository* (module-level functions whose bodies use only the supported statement
forms) on fully constant arguments.  The latter is partial evaluation at the AST level with a fuel bound: the
repository is never imported and no repository code object is ever executed.
"""
import ast
import sys


class _Unknown(object):
    def __repr__(self):
        return "UNKNOWN"

    def __bool__(self):
        raise TypeError("UNKNOWN has no truth value")


UNKNOWN = _Unknown()


class _Return(Exception):
    def __init__(self, value):
        self.value = value


class _Raise(Exception):
    def __init__(self, name):
        self.name = name


def _same(a, b):
    if a is b:
        return True
    try:
        return type(a) is type(b) and bool(a == b)
    except Exception:
        return False


def _join(a, b):
    if _same(a, b):
        return a
    if isinstance(a, dict) and isinstance(b, dict) and set(a) == set(b):
        return {k: _join(a[k], b[k]) for k in a}
    return UNKNOWN


class NT(object):
    """namedtuple instance value"""

    def __init__(self, fields, values):
        self.fields = tuple(fields)
        self.values = tuple(values)

    def __iter__(self):
        return iter(self.values)

    def __getitem__(self, i):
        return self.values[i]

    def __len__(self):
        return len(self.values)

    def __eq__(self, other):
        return isinstance(other, NT) and (self.fields, self.values) == (other.fields, other.values)

    def __hash__(self):
        return hash((self.fields, self.values))


class NTClass(object):
    def __init__(self, name, fields):
        self.name = name
        self.fields = tuple(fields)


class Lam(object):
    def __init__(self, node, env):
        self.node = node
        self.env = env


class FnVal(object):
    """a repository function as a value (with the environment of its definition for closures); `bound_args` /
    `bound_kw` are the arguments already supplied by functools.partial"""

    def __init__(self, fi, env, bound_args=(), bound_kw=None):
        self.fi = fi
        self.env = env
        self.bound_args = tuple(bound_args)
        self.bound_kw = dict(bound_kw or {})


STR_METHODS = {
    "format", "replace", "join", "startswith", "endswith", "split", "rsplit", "strip", "lstrip", "rstrip", "lower",
    "upper", "casefold", "partition", "rpartition", "splitlines", "count", "find", "isdecimal", "isdigit", "title",
    "capitalize", "isupper", "islower", "isspace",
}
DICT_METHODS = {"get", "keys", "values", "items"}
SAFE_BUILTINS = {
    "len": len, "int": int, "str": str, "tuple": tuple, "list": list, "frozenset": frozenset, "set": set,
    "sorted": sorted, "bool": bool, "float": float, "dict": dict, "abs": abs, "min": min, "max": max, "sum": sum,
    "any": any, "all": all, "reversed": lambda x: list(reversed(x)), "repr": repr, "range": lambda *a: list(range(*a)),
    "enumerate": lambda x, s=0: list(enumerate(x, s)), "zip": lambda *a: list(zip(*a)), "isinstance": None,
}


class Folder(object):
    def __init__(self, prog, fuel=4000):
        self.prog = prog
        self.fuel0 = fuel
        self.fuel = fuel

    # public -----------------------------------------------------------------
    def fold(self, expr, env=None, at=None):
        self.fuel = self.fuel0
        try:
            return self._e(expr, env or {}, at or expr)
        except (_Raise, RecursionError):
            return UNKNOWN

    def fold_name(self, module, name):
        """Value of a module-level name of a repository module."""
        m = self.prog.modules.get(module)
        if m is None or name not in m.assigns:
            return UNKNOWN
        return self.fold(m.assigns[name], {}, m.assigns[name])

    # expressions ------------------------------------------------------------
    def _tick(self):
        self.fuel -= 1
        if self.fuel < 0:
            raise _Raise("fuel")

    def _e(self, e, env, at):
        self._tick()
        U = UNKNOWN
        if isinstance(e, ast.Constant):
            return e.value
        if isinstance(e, ast.JoinedStr):
            parts = []
            for v in e.values:
                if isinstance(v, ast.Constant):
                    parts.append(str(v.value))
                elif isinstance(v, ast.FormattedValue) and v.format_spec is None and v.conversion in (-1, 115):
                    x = self._e(v.value, env, at)
                    if x is U:
                        return U
                    parts.append(str(x))
                else:
                    return U
            return "".join(parts)
        if isinstance(e, (ast.Tuple, ast.List, ast.Set)):
            vals = []
            for x in e.elts:
                if isinstance(x, ast.Starred):
                    v = self._e(x.value, env, at)
                    if v is U:
                        return U
                    vals.extend(v)
                else:
                    v = self._e(x, env, at)
                    if v is U:
                        return U
                    vals.append(v)
            if isinstance(e, ast.Tuple):
                return tuple(vals)
            if isinstance(e, ast.Set):
                try:
                    return frozenset(vals)
                except TypeError:
                    return U
            return vals
        if isinstance(e, ast.Dict):
            d = {}
            for k, v in zip(e.keys, e.values):
                if k is None:
                    vv = self._e(v, env, at)
                    if vv is U or not isinstance(vv, dict):
                        return U
                    d.update(vv)
                    continue
                kk = self._e(k, env, at)
                if kk is U:
                    return U
                vv = self._e(v, env, at)
                try:
                    d[kk] = vv  # values may be UNKNOWN: keys still known
                except TypeError:
                    return U
            return d
        if isinstance(e, ast.Name):
            if e.id in env:
                return env[e.id]
            self._cur_env = env
            return self._global(e.id, at)
        if isinstance(e, ast.Attribute):
            base = self._e(e.value, env, at) if not self._is_module_ref(e.value, at) else U
            if base is U:
                # module attribute?
                tgt = self._module_attr(e, at)
                return tgt
            if isinstance(base, NT) and e.attr in base.fields:
                return base.values[base.fields.index(e.attr)]
            if isinstance(base, NT) and e.attr == "_fields":
                return base.fields
            if isinstance(base, NTClass) and e.attr == "_fields":
                return base.fields
            if isinstance(base, type) and e.attr == "__name__":
                return base.__name__
            if isinstance(base, NTClass) and e.attr == "__name__":
                return base.name
            if isinstance(base, FnVal) and e.attr == "__name__":
                return base.fi.name
            return U
        if isinstance(e, ast.Subscript):
            base = self._e(e.value, env, at)
            if base is U:
                return U
            if isinstance(e.slice, ast.Slice):
                lo = None if e.slice.lower is None else self._e(e.slice.lower, env, at)
                hi = None if e.slice.upper is None else self._e(e.slice.upper, env, at)
                st = None if e.slice.step is None else self._e(e.slice.step, env, at)
                if U in (lo, hi, st):
                    return U
                try:
                    v = (base.values if isinstance(base, NT) else base)[lo:hi:st]
                    return v
                except Exception:
                    return U
            idx = self._e(e.slice, env, at)
            if idx is U:
                return U
            try:
                return base[idx]
            except IndexError:
                raise _Raise("IndexError")
            except KeyError:
                raise _Raise("KeyError")
            except Exception:
                return U
        if isinstance(e, ast.BinOp):
            l, r = self._e(e.left, env, at), self._e(e.right, env, at)
            if l is U or r is U:
                return U
            try:
                if isinstance(e.op, ast.Add):
                    return l + r
                if isinstance(e.op, ast.Sub):
                    return l - r
                if isinstance(e.op, ast.Mult):
                    return l * r
                if isinstance(e.op, ast.Mod):
                    return l % r
                if isinstance(e.op, ast.BitOr):
                    return l | r
                if isinstance(e.op, ast.BitAnd):
                    return l & r
            except Exception:
                return U
            return U
        if isinstance(e, ast.UnaryOp):
            v = self._e(e.operand, env, at)
            if v is U:
                return U
            if isinstance(e.op, ast.Not):
                return not v
            if isinstance(e.op, ast.USub):
                return -v
            return U
        if isinstance(e, ast.BoolOp):
            last = None
            for x in e.values:
                v = self._e(x, env, at)
                if v is U:
                    return U
                last = v
                if isinstance(e.op, ast.And) and not v:
                    return v
                if isinstance(e.op, ast.Or) and v:
                    return v
            return last
        if isinstance(e, ast.Compare):
            left = self._e(e.left, env, at)
            if left is U:
                return U
            for op, c in zip(e.ops, e.comparators):
                right = self._e(c, env, at)
                if right is U:
                    return U
                try:
                    ok = {
                        ast.Eq: lambda a, b: a == b, ast.NotEq: lambda a, b: a != b, ast.Lt: lambda a, b: a < b,
                        ast.LtE: lambda a, b: a <= b, ast.Gt: lambda a, b: a > b, ast.GtE: lambda a, b: a >= b,
                        ast.In: lambda a, b: a in b, ast.NotIn: lambda a, b: a not in b,
                        ast.Is: lambda a, b: a is b, ast.IsNot: lambda a, b: a is not b,
                    }[type(op)](left, right)
                except Exception:
                    return U
                if not ok:
                    return False
                left = right
            return True
        if isinstance(e, ast.IfExp):
            t = self._e(e.test, env, at)
            if t is U:
                return U
            return self._e(e.body if t else e.orelse, env, at)
        if isinstance(e, ast.Lambda):
            return Lam(e, dict(env))
        if isinstance(e, ast.Call):
            return self._call(e, env, at)
        return U

    def _is_module_ref(self, e, at):
        if isinstance(e, ast.Name):
            b = self.prog.lookup(e.id, at)
            return b[0] in ("module",) or (b[0] == "ext" and b[1] in ("sys", "os", "typing", "ast"))
        return False

    def _module_attr(self, e, at):
        if isinstance(e.value, ast.Name):
            b = self.prog.lookup(e.value.id, at)
            if b[0] == "module":
                return self.fold_name(b[1], e.attr)
            if b[0] == "ext" and b[1] == "sys" and e.attr == "version_info":
                return tuple(sys.version_info)
        return UNKNOWN

    def _global(self, name, at):
        b = self.prog.lookup(name, at)
        if b[0] == "value":
            return self._e(b[2], {}, b[2])
        if b[0] == "local" and isinstance(b[1], (ast.FunctionDef, ast.AsyncFunctionDef)):
            # a local bound exactly once: fold its definition in the caller's environment
            defs = [n for n in ast.walk(b[1]) if isinstance(n, ast.Assign) and any(isinstance(t, ast.Name) and t.id == name for t in n.targets)]
            if len(defs) == 1 and not any(isinstance(x, ast.Name) and x.id == name for x in ast.walk(defs[0].value)):
                self._local_depth = getattr(self, "_local_depth", 0) + 1
                try:
                    if self._local_depth <= 6:
                        return self._e(defs[0].value, self._cur_env, defs[0].value)
                finally:
                    self._local_depth -= 1
            return UNKNOWN
        if b[0] == "ext":
            if b[1] == "sys.version_info":
                return tuple(sys.version_info)
            if b[1].startswith("ast.") and hasattr(ast, b[1][4:]) and isinstance(getattr(ast, b[1][4:]), type):
                return getattr(ast, b[1][4:])
            return UNKNOWN
        if b[0] == "builtin":
            return {"True": True, "False": False, "None": None, "dict": dict}.get(name, UNKNOWN)
        if b[0] == "func":
            return FnVal(b[1], dict(getattr(self, "_cur_env", {}) or {}))
        return UNKNOWN

    def _call(self, e, env, at):
        U = UNKNOWN
        f = e.func
        # method calls on folded receivers
        if isinstance(f, ast.Attribute) and not self._is_module_ref(f.value, at):
            recv = self._e(f.value, env, at)
            if recv is not U:
                args = [self._e(a, env, at) for a in e.args]
                kw = {k.arg: self._e(k.value, env, at) for k in e.keywords if k.arg}
                if any(a is U for a in args) or any(v is U for v in kw.values()) or any(k.arg is None for k in e.keywords):
                    return U
                if isinstance(recv, str) and f.attr in STR_METHODS:
                    try:
                        r = getattr(recv, f.attr)(*args, **kw)
                        return list(r) if f.attr in ("split", "rsplit", "splitlines") else r
                    except Exception:
                        return U
                if isinstance(recv, dict) and f.attr in DICT_METHODS:
                    try:
                        r = getattr(recv, f.attr)(*args)
                        return list(r) if f.attr in ("keys", "values", "items") else r
                    except Exception:
                        return U
                return U
        # calling a folded lambda / callable value
        if isinstance(f, (ast.Lambda, ast.Call, ast.Subscript)) or (isinstance(f, ast.Name) and f.id in env and isinstance(env[f.id], (Lam, FnVal, NTClass))) \
                or (isinstance(f, ast.Name) and f.id not in env and self.prog.lookup(f.id, at)[0] == "local" and isinstance(self._e(f, env, at), (Lam, FnVal))):
            fv = self._e(f, env, at)
            if isinstance(fv, Lam):
                args = [self._e(a, env, at) for a in e.args]
                return self._apply_lambda(fv, args, at)
            if isinstance(fv, NTClass):
                return self._mk_nt(fv, e, env, at)
            if fv is dict and not e.args and not e.keywords:
                return {}
            if isinstance(fv, FnVal):
                args = list(fv.bound_args) + [self._e(a, env, at) for a in e.args]
                kw = dict(fv.bound_kw)
                kw.update({k.arg: self._e(k.value, env, at) for k in e.keywords if k.arg})
                try:
                    return self._apply_fn(fv.fi, args, kw, closure=fv.env)
                except _Raise as r:
                    if r.name in ("IndexError", "KeyError"):
                        raise
                    return U
            return U
        tgt = self.prog.resolve_expr_fn(f, at)
        for t in tgt:
            if isinstance(t, tuple) and t[0] == "ext":
                nm = t[1]
                if nm.startswith("builtins.") and nm[9:] in SAFE_BUILTINS:
                    bn = nm[9:]
                    if bn == "isinstance":
                        return U
                    args = [self._e(a, env, at) for a in e.args]
                    if any(a is U for a in args) or e.keywords:
                        return U
                    if bn == "getattr" or SAFE_BUILTINS[bn] is None:
                        return U
                    try:
                        args = [a.values if isinstance(a, NT) else a for a in args]
                        return SAFE_BUILTINS[bn](*args)
                    except Exception:
                        return U
                if nm == "functools.partial" and e.args:
                    base = self._e(e.args[0], env, at)
                    if isinstance(base, FnVal):
                        kw2 = dict(base.bound_kw)
                        kw2.update({k.arg: self._e(k.value, env, at) for k in e.keywords if k.arg})
                        return FnVal(base.fi, base.env, tuple(base.bound_args) + tuple(self._e(a, env, at) for a in e.args[1:]), kw2)
                    return U
                if nm == "builtins.map" and len(e.args) == 2 and isinstance(e.args[0], ast.Attribute) and isinstance(e.args[0].value, ast.Name) \
                        and e.args[0].value.id == "str" and e.args[0].attr in ("casefold", "lower", "upper", "strip", "lstrip", "rstrip", "title", "capitalize"):
                    # map(str.<pure method>, <constant strings>)
                    seq = self._e(e.args[1], env, at)
                    if isinstance(seq, (tuple, list)) and all(isinstance(x, str) for x in seq):
                        return [getattr(x, e.args[0].attr)() for x in seq]
                    return U
                if nm == "builtins.getattr" and len(e.args) >= 2:
                    o, a = self._e(e.args[0], env, at), self._e(e.args[1], env, at)
                    if isinstance(o, NT) and isinstance(a, str) and a in o.fields:
                        return o.values[o.fields.index(a)]
                    if self._is_module_ref(e.args[0], at) and isinstance(a, str):
                        b = self.prog.lookup(e.args[0].id, at)
                        if b[0] == "module":
                            return ModAttr(b[1], a)
                    return U
                if nm == "collections.namedtuple" and len(e.args) == 2:
                    n, flds = self._e(e.args[0], env, at), self._e(e.args[1], env, at)
                    if n is U or flds is U:
                        return U
                    if isinstance(flds, str):
                        flds = flds.replace(",", " ").split()
                    return NTClass(n, flds)
                return U
            if hasattr(t, "node") and isinstance(t.node, ast.FunctionDef):
                # unknown arguments are passed through as UNKNOWN: the result may still fold (e.g. key sets)
                args = [self._e(a, env, at) for a in e.args]
                kw = {k.arg: self._e(k.value, env, at) for k in e.keywords if k.arg}
                if any(k.arg is None for k in e.keywords) or any(isinstance(a, ast.Starred) for a in e.args):
                    return U
                try:
                    # a closure of the function being evaluated reads its free variables from the environment at the call
                    return self._apply_fn(t, args, kw, closure=env if getattr(t, "parent_fn", None) is not None else None)
                except _Raise as r:
                    if r.name in ("IndexError", "KeyError"):
                        raise  # a simulated exception an enclosing interpreted try/except may handle
                    return U  # the helper uses constructs the evaluator does not interpret
        # namedtuple class bound at module level
        if isinstance(f, ast.Name):
            fv = self._e(f, env, at)
            if isinstance(fv, NTClass):
                return self._mk_nt(fv, e, env, at)
        return U

    def _mk_nt(self, cls, e, env, at):
        vals = [self._e(a, env, at) for a in e.args]
        kw = {k.arg: self._e(k.value, env, at) for k in e.keywords if k.arg}
        if any(k.arg is None for k in e.keywords):
            return UNKNOWN
        for f in cls.fields[len(vals):]:
            if f not in kw:
                return UNKNOWN
            vals.append(kw[f])
        if any(v is UNKNOWN for v in vals) or len(vals) != len(cls.fields):
            return UNKNOWN
        return NT(cls.fields, vals)

    def _apply_lambda(self, lam, args, at):
        a = lam.node.args
        names = [x.arg for x in a.args]
        if len(names) != len(args) or a.vararg or a.kwarg or a.kwonlyargs:
            return UNKNOWN
        env = dict(lam.env)
        env.update(zip(names, args))
        return self._e(lam.node.body, env, lam.node)

    # repository pure helpers ------------------------------------------------
    def _apply_fn(self, fi, args, kw, closure=None):
        node = fi.node
        a = node.args
        if a.vararg or a.kwarg or a.posonlyargs:
            return UNKNOWN
        names = [x.arg for x in a.args]
        if len(args) > len(names):
            return UNKNOWN
        env = dict(closure or {})
        env.update(zip(names, args))
        defaults = dict(zip(names[len(names) - len(a.defaults) :], a.defaults))
        defaults.update({x.arg: d for x, d in zip(a.kwonlyargs, a.kw_defaults) if d is not None})
        for n in names[len(args) :] + [x.arg for x in a.kwonlyargs]:
            if n in kw:
                env[n] = kw[n]
            elif n in defaults:
                v = self._e(defaults[n], {}, defaults[n])
                if v is UNKNOWN:
                    return UNKNOWN
                env[n] = v
            else:
                return UNKNOWN
        try:
            self._block(node.body, env, node)
        except _Return as r:
            return r.value
        except _Raise:
            raise
        return None

    def _block(self, stmts, env, at):
        for s in stmts:
            self._tick()
            if isinstance(s, ast.Expr):
                if isinstance(s.value, ast.Constant):
                    continue
                raise _Raise("unsupported")
            elif isinstance(s, ast.Return):
                v = None if s.value is None else self._e(s.value, env, s)
                raise _Return(v)
            elif isinstance(s, ast.Assign) and len(s.targets) == 1 and isinstance(s.targets[0], ast.Name):
                env[s.targets[0].id] = self._e(s.value, env, s)
            elif isinstance(s, ast.If):
                t = self._e(s.test, env, s)
                if t is UNKNOWN:
                    # both branches, joined: a name keeps its value when both agree, a dict result keeps its keys
                    outs = []
                    for blk in (s.body, s.orelse):
                        e2 = dict(env)
                        try:
                            self._block(blk, e2, at)
                            outs.append(("fall", e2))
                        except _Return as r:
                            outs.append(("ret", r.value))
                    if all(k == "fall" for k, _ in outs):
                        a_, b_ = outs[0][1], outs[1][1]
                        for k in set(a_) | set(b_):
                            env[k] = a_[k] if (k in a_ and k in b_ and _same(a_[k], b_[k])) else UNKNOWN
                        continue
                    if all(k == "ret" for k, _ in outs):
                        raise _Return(_join(outs[0][1], outs[1][1]))
                    raise _Return(UNKNOWN)
                self._block(s.body if t else s.orelse, env, at)
            elif isinstance(s, ast.Try):
                try:
                    self._block(s.body, env, at)
                except _Raise as r:
                    for h in s.handlers:
                        hn = h.type.id if isinstance(h.type, ast.Name) else None
                        if hn == r.name:
                            self._block(h.body, env, at)
                            break
                    else:
                        raise
            elif isinstance(s, (ast.Pass, ast.FunctionDef)):
                continue
            else:
                raise _Return(UNKNOWN)


class ModAttr(object):
    """Result of getattr(<repo module>, <const name>)"""

    def __init__(self, module, attr):
        self.module = module
        self.attr = attr

    def __repr__(self):
        return "ModAttr(%s.%s)" % (self.module, self.attr)
