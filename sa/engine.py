"""
Driver: runs the rules registered for one property on /repo's current source, classifies findings against
/verif/known_findings.json, writes /verif/evidence/<id>.json (+ replay files) and returns the exit status.

exit 0  nothing armed fired, or only constructs listed as `known` fired (printed as KNOWN-FINDING)
exit 1  an unlisted armed violation (printed as `VIOLATION property=<id> replay=<path>`)
exit 2  ANALYSIS-ERROR: a named anchor vanished, a vacuity floor was missed, or the checker crashed
"""
import json
import os
import sys
import time
import traceback

from sa.model import AnalysisError, Program, Report

VERIF = os.path.dirname(os.path.dirname(os.path.abspath(__file__)))
EVIDENCE_DIR = os.environ.get("SA_EVIDENCE_DIR") or os.path.join(VERIF, "evidence")
KNOWN_FILE = os.path.join(VERIF, "known_findings.json")

TRUSTED_BASE = [
    "CPython 3.12 `ast` parses /repo/doctrans/*.py exactly as the interpreter that runs the repository would",
    "documented semantics encoded in the rules: set iteration order varies under hash randomisation; "
    "NodeVisitor.visit dispatches to visit_<T> instead of generic_visit; open() modes; os.replace atomicity; "
    "argparse yields None for an absent optional option and ArgumentParser.error does not return; "
    "ast.arguments length invariants",
    "determinism and tree round-tripping of ast.unparse, black.format_str, textwrap for the values they are given",
    "the rule implementations under /verif/sa (tested both ways by /verif/selftest and /verif/fixtures)",
]


def load_known():
    if not os.path.isfile(KNOWN_FILE):
        return []
    with open(KNOWN_FILE) as f:
        return json.load(f)["findings"]


def _selfcheck(pid):
    import subprocess
    env = dict(os.environ, SA_NO_SELFCHECK="1")
    env.pop("SA_EVIDENCE_DIR", None)
    p = subprocess.run([sys.executable, os.path.join(VERIF, "selftest", "run_selftest.py"), "--props", pid, "--no-write"], capture_output=True, text=True, env=env)
    lines = [l for l in p.stdout.splitlines() if l.strip()]
    failed = [l.split()[2] + ": " + " ".join(l.split()[3:])[:160] for l in lines if l.startswith("FAIL")]
    na = [l.split()[2] for l in lines if l.startswith("not-applicable")]
    ok_b = sum(1 for l in lines if l.startswith("ok") and " breaking " in l)
    ok_n = sum(1 for l in lines if l.startswith("ok") and " neutral " in l)
    return {"breaking_variants_fired": ok_b, "neutral_variants_silent": ok_n, "not_applicable": na, "failed": failed, "summary": lines[-1] if lines else ""}


def run_property(spec, tier="quick"):
    """spec: dict(id, title, rules=[callable(prog, report, tier)], floors={rule: min obligations}, explanation, assumptions)"""
    t0 = time.time()
    pid = spec["id"]
    seed = int(os.environ.get("VERIF_SEED", "0") or 0)
    os.makedirs(EVIDENCE_DIR, exist_ok=True)
    os.makedirs(os.path.join(EVIDENCE_DIR, "replay"), exist_ok=True)
    evidence_path = os.path.join(EVIDENCE_DIR, "%s.json" % pid)
    report = Report()
    status = 0
    err = None
    prog = None
    errors = []
    try:
        prog = Program()
        for rule in spec["rules"]:
            try:
                rule(prog, report, tier)
            except AnalysisError as e:
                errors.append("rule %s: %s" % (getattr(rule, "__name__", "?"), e))
            except Exception:
                errors.append("rule %s crashed:\n%s" % (getattr(rule, "__name__", "?"), traceback.format_exc()))
        if errors:
            raise AnalysisError("; ".join(errors))
        for rule_name, floor in spec.get("floors", {}).items():
            n = report.count(rule_name)
            if any(f.rule == rule_name for f in report.findings):
                continue  # a rule that found a violation has evidently matched the code
            if n < floor:
                raise AnalysisError(
                    "vacuity floor: rule %s examined %d instance(s), fewer than the %d without which its model of "
                    "the code is evidently incomplete" % (rule_name, n, floor)
                )
    except AnalysisError as e:
        status, err = 2, "ANALYSIS-ERROR property=%s %s" % (pid, e)
    except Exception:
        status, err = 2, "ANALYSIS-ERROR property=%s checker crashed:\n%s" % (pid, traceback.format_exc())

    known = [k for k in load_known() if k.get("status") == "known" and k["property"] == pid]
    known_keys = {(k["rule"], k["where"], k["construct"]): k for k in known}
    lines = []
    n_viol = 0
    known_hit = []
    if True:
        for i, f in enumerate(report.findings, 1):
            k = known_keys.get(f.key())
            if k is not None:
                known_hit.append(f)
                lines.append(
                    "KNOWN-FINDING: property=%s %s %s [%s] %s (%s)"
                    % (pid, f.rule, f.where, f.construct, k.get("human", f.message), f.location)
                )
            else:
                n_viol += 1
                rp = os.path.join(EVIDENCE_DIR, "replay", "%s-%d.json" % (pid, n_viol))
                with open(rp, "w") as fh:
                    json.dump(
                        dict(f.as_dict(), property=pid, tier=tier, how_to_replay="%s %s --tier %s"
                             % (sys.executable, os.path.join(VERIF, "sa", "run.py") + " " + pid, tier)),
                        fh, indent=1,
                    )
                lines.append("  %s: %s %s [%s]: %s" % (f.location, f.rule, f.where, f.construct, f.message))
                lines.append("VIOLATION property=%s replay=%s" % (pid, rp))
        if n_viol:
            status = 1

    selfcheck = None
    if tier == "thorough" and status == 0 and not os.environ.get("SA_NO_SELFCHECK"):
        # thorough tier: the rules of this property are additionally run against the variant catalogue computed from the
        # current source (one instance of a rule broken -> must fire; accepted-idiom refactor -> must stay silent)
        try:
            selfcheck = _selfcheck(pid)
        except Exception:
            selfcheck = {"error": traceback.format_exc()}
        if selfcheck.get("failed") and not n_viol:
            status, err = 2, "ANALYSIS-ERROR property=%s the checker no longer meets its both-ways expectations on %d variant(s): %s" % (
                pid, len(selfcheck["failed"]), "; ".join(selfcheck["failed"])[:600])


    obligations = len(report.obligations)
    discharged = sum(1 for o in report.obligations if o["verdict"] in ("holds", "accepted"))
    by_rule = {}
    for o in report.obligations:
        d = by_rule.setdefault(o["rule"], {"examined": 0, "holds": 0, "violation": 0, "accepted": 0, "unresolved": 0})
        d["examined"] += 1
        d[o["verdict"]] = d.get(o["verdict"], 0) + 1
    distinct = len({(o["rule"], o["instance"]) for o in report.obligations})
    samples = report.obligations[:12] + [o for o in report.obligations[12:] if o["verdict"] == "violation"][:12]
    units = {}
    if prog is not None:
        units = {
            "modules": len(prog.modules),
            "functions_and_methods": sum(len(m.functions) for m in prog.modules.values()),
            "classes": sum(len(m.classes) for m in prog.modules.values()),
            "source_lines": sum(m.source.count("\n") for m in prog.modules.values()),
        }
    ev = {
        "property_id": pid,
        "tier": tier,
        "seed": seed,
        "level": "other",
        "coverage": {
            "explanation": spec["explanation"],
            "technique": "static analysis (ast): " + spec.get("technique", ""),
            "obligations": obligations,
            "discharged": discharged,
            "known_findings_reported": len(known_hit),
            "evaluations": max(obligations, 1) if status != 2 else 0,
            "distinct_nontrivial": distinct,
            "rule": "one obligation per rule instance found in /repo's current source (call site, path, table entry, "
            "write site, visitor method); distinct = distinct (rule, instance) pairs; all are non-trivial by "
            "construction because each is a site the rule's template matched in the code",
            "exhaustive": True,
            "samples": samples or [{"note": "no obligations (analysis error)"}],
            "units_analysed": units,
            "per_rule": by_rule,
            "all_obligations": report.obligations,
            "informational": report.info[:200],
            "checker_cmd": "/venv/bin/python /verif/sa/run.py %s --tier %s" % (pid, tier),
            "trusted_base": TRUSTED_BASE,
            "analysed_tree": prog.repo if prog else None,
            "not_decided": spec.get("not_decided", ""),
        },
        "assumptions": spec.get("assumptions", []) + ["see coverage.trusted_base"],
        "wall_s": round(time.time() - t0, 3),
        "violations": n_viol,
    }
    if selfcheck is not None:
        ev["coverage"]["variant_selfcheck"] = selfcheck
    if status == 2:
        ev["coverage"]["analysis_error"] = err
    with open(evidence_path, "w") as fh:
        json.dump(ev, fh, indent=1, default=str)

    print("property %s (%s) tier=%s: %d obligations over %s; %d hold, %d known finding(s), %d violation(s) [%.2fs]"
          % (pid, spec["title"], tier, obligations, ", ".join("%s=%d" % (r, d["examined"]) for r, d in sorted(by_rule.items())),
             discharged, len(known_hit), n_viol, time.time() - t0))
    for ln in lines:
        print(ln)
    if err:
        print(err)
    return status
