"""
C18 - the writer's word-wrapping and the reader's un-wrapping as a pair of inverse layouts.

The emitters wrap prose with `textwrap` (through `pure_utils.fill`); the docstring reader puts the lines of an entry back on
one line with a blank between them when `word_wrap` is on.  Four structural rules, each a necessary condition of
"parse(wrapped) == parse(unwrapped) modulo line breaks and runs of whitespace":

WRAP-BREAKS         the writer may break a line only where the reader's blank-join restores the text: at whitespace.  Every wrapping
                    call must carry break_long_words=False and break_on_hyphens=False (textwrap's defaults break inside a long word
                    and behind a hyphen; the reader then reads `Dict[str, Unio n[...]]` / `ml- prepare`).
WRAP-CONT           the continuation lines of a wrapped entry are indented (the wrapped text is handed to an indenter, or the wrapper
                    gets subsequent_indent=): a continuation line at the column of the entry's first line is read as a new entry.
REJOIN-UNIFORM      the reader's re-join treats every line boundary alike: no decision that depends on what a line contains (a
                    "de-hyphenating" join glues `pre- and post` into `pre-and post`), and no join without a blank.
SCAN-AFTER-REJOIN   the default reader ("Defaults to ...") must see re-joined text: wherever it is applied to text that has not been
                    re-joined yet, a later application on the same description, after the re-join and on the same style path,
                    is required - otherwise an announcement split by a line break is lost (or half cut out of the prose).
"""
import ast

from sa.cfg import expr_guards
from sa.model import AnalysisError, Finding, FunctionInfo, dump, enclosing_fn, loc, names_in, order_key, src

WRAP_EXT = {"textwrap.fill", "textwrap.wrap"}
WORD_WRAP_FLAG = "word_wrap"  # the public keyword of every parser / emitter that switches wrapping on


# ---------------------------------------------------------------------------- wrapping call sites
def _binding_name(m, node):
    for k, v in m.assigns.items():
        if v is node:
            return k
    return "?"


def _keywords_of(prog, call):
    """keyword arguments of a call as {name: node}, `**options` written out when `options` is a dict display, a `dict(k=v)`
    call, or a single-assignment name (module level or local) bound to one"""
    out = {}
    for k in call.keywords:
        if k.arg:
            out[k.arg] = k.value
            continue
        v = k.value
        if isinstance(v, ast.Name):
            b = prog.lookup(v.id, call)
            if b[0] == "value":
                v = b[2]
            elif b[0] == "local" and isinstance(b[1], (ast.FunctionDef, ast.AsyncFunctionDef)):
                defs = [n for n in ast.walk(b[1]) if isinstance(n, ast.Assign) and any(isinstance(t, ast.Name) and t.id == v.id for t in n.targets)]
                if len(defs) == 1:
                    v = defs[0].value
        if isinstance(v, ast.Call) and isinstance(v.func, ast.Name) and v.func.id == "dict" and len(v.args) == 1 and isinstance(v.args[0], ast.Name):
            # a copy of a constant table: `options = dict(_OPTIONS)`
            b = prog.lookup(v.args[0].id, call)
            extra = {kw.arg: kw.value for kw in v.keywords if kw.arg}
            v = b[2] if b[0] == "value" else v
            out.update(extra)
        if isinstance(v, ast.Dict):
            for kk, vv in zip(v.keys, v.values):
                if isinstance(kk, ast.Constant) and isinstance(kk.value, str):
                    out.setdefault(kk.value, vv)
        elif isinstance(v, ast.Call) and isinstance(v.func, ast.Name) and v.func.id == "dict" and not v.args:
            for kw in v.keywords:
                if kw.arg:
                    out.setdefault(kw.arg, kw.value)
    return out


def wrap_chain(prog, e, at, depth=0):
    """What a function-valued expression denotes when it is a word-wrapper: list of (external name, {keyword: node} bound on
    the way by partial(...), origin) - origin names the module-level binding the configuration lives in, if any."""
    if depth > 8 or e is None:
        return []
    if isinstance(e, ast.IfExp):
        return wrap_chain(prog, e.body, at, depth + 1) + wrap_chain(prog, e.orelse, at, depth + 1)
    if isinstance(e, ast.Call):
        if isinstance(e.func, (ast.Name, ast.Attribute)) and prog.ext_name(e.func, e) == "functools.partial" and e.args:
            out = []
            for name, kw, origin in wrap_chain(prog, e.args[0], e, depth + 1):
                kw2 = dict(kw)
                kw2.update(_keywords_of(prog, e))
                out.append((name, kw2, origin))
            return out
        return []
    if isinstance(e, ast.Attribute):
        en = prog.ext_name(e, at)
        if en in WRAP_EXT:
            return [(en, {}, None)]
        if e.attr in ("fill", "wrap"):
            # a method of a wrapper object: `TextWrapper(width=.., ..).fill`, also through a local / module-level name; options set
            # afterwards as attributes (`w.break_on_hyphens = False`) count like constructor keywords
            obj, scope, nm = e.value, None, None
            if isinstance(obj, ast.Name):
                nm = obj.id
                b = prog.lookup(obj.id, at)
                if b[0] == "value":
                    obj, scope = b[2], b[1].tree
                elif b[0] == "local" and isinstance(b[1], (ast.FunctionDef, ast.AsyncFunctionDef)):
                    defs = [n for n in ast.walk(b[1]) if isinstance(n, ast.Assign) and any(isinstance(t, ast.Name) and t.id == obj.id for t in n.targets)]
                    if len(defs) == 1:
                        obj, scope = defs[0].value, b[1]
            if isinstance(obj, ast.Call) and isinstance(obj.func, (ast.Name, ast.Attribute)) and prog.ext_name(obj.func, obj) == "textwrap.TextWrapper":
                kw = _keywords_of(prog, obj)
                if scope is not None and nm is not None:
                    for st in ast.walk(scope):
                        if isinstance(st, ast.Assign) and len(st.targets) == 1 and isinstance(st.targets[0], ast.Attribute) and isinstance(st.targets[0].value, ast.Name) \
                                and st.targets[0].value.id == nm:
                            kw[st.targets[0].attr] = st.value
                return [("textwrap.%s" % e.attr, kw, None)]
        return []
    if isinstance(e, ast.Name):
        b = prog.lookup(e.id, at)
        if b[0] == "ext":
            return [(b[1], {}, None)] if b[1] in WRAP_EXT else []
        if b[0] == "func" and isinstance(b[1].node, ast.FunctionDef) and b[1].params():
            # a package function that hands its first parameter to a wrapper and returns the result is a wrapper itself
            f0 = b[1]
            p0 = f0.params()[0]
            out = []
            for r in ast.walk(f0.node):
                if isinstance(r, ast.Return) and isinstance(r.value, ast.Call) and r.value.args and isinstance(r.value.args[0], ast.Name) and r.value.args[0].id == p0:
                    for n_, kw_, o_ in wrap_chain(prog, r.value.func, r.value, depth + 1):
                        kw2 = dict(kw_)
                        kw2.update(_keywords_of(prog, r.value))
                        out.append((n_, kw2, o_ or (f0.qualname, f0.node)))
            return out
        if b[0] == "value":
            sub = wrap_chain(prog, b[2], b[2], depth + 1)
            return [(n, kw, o or ("%s.%s" % (b[1].name, _binding_name(b[1], b[2])), b[2])) for n, kw, o in sub]
        if b[0] == "local" and isinstance(b[1], (ast.FunctionDef, ast.AsyncFunctionDef)):
            defs = [n for n in ast.walk(b[1]) if isinstance(n, ast.Assign) and any(isinstance(t, ast.Name) and t.id == e.id for t in n.targets)]
            if len(defs) == 1 and e.id not in names_in(defs[0].value):
                return wrap_chain(prog, defs[0].value, defs[0].value, depth + 1)
        if b[0] == "param" and isinstance(b[1], ast.FunctionDef):
            # a wrapper handed to a private helper / closure: what its call sites pass
            out = []
            for v in prog.param_arg_exprs(e.id, b[1]) or []:
                out += wrap_chain(prog, v, v, depth + 1)
            return out
    return []


def wrap_sites(prog):
    """(node, function expr, config alternatives, text argument) for every place a word-wrapper is applied: a direct call
    `W(text, ...)` or an element-wise `map(W, texts)`."""
    out = []
    for m in prog.modules.values():
        for c in ast.walk(m.tree):
            if not isinstance(c, ast.Call):
                continue
            ch = wrap_chain(prog, c.func, c)
            if ch and isinstance(getattr(c, "_parent", None), ast.Return) and c.args and isinstance(c.args[0], ast.Name):
                fn_ = enclosing_fn(c)
                if fn_ is not None and fn_.params() and fn_.params()[0] == c.args[0].id:
                    continue  # the body of a wrapper function (`def fill(text, ..): return textwrap.fill(text, ..)`): judged where that function is applied
            if ch:
                alts = []
                for name, kw, origin in ch:
                    kw2 = dict(kw)
                    kw2.update(_keywords_of(prog, c))
                    alts.append((name, kw2, origin))
                out.append((c, c.func, alts, c.args[0] if c.args else None))
            elif isinstance(c.func, ast.Name) and c.func.id == "map" and prog.lookup("map", c)[0] == "builtin" and len(c.args) == 2:
                ch = wrap_chain(prog, c.args[0], c)
                if ch:
                    out.append((c, c.args[0], ch, c.args[1]))
    return out


# ---------------------------------------------------------------------------- the reader's un-wrapping
def _is_line_split(e):
    """`X.split("\\n")`, `X.splitlines()`, `X.split()` (any whitespace)"""
    if isinstance(e, ast.Call) and isinstance(e.func, ast.Attribute):
        if e.func.attr == "splitlines":
            return True
        if e.func.attr == "split":
            if not e.args and not e.keywords:
                return True
            a = e.args[0] if e.args else None
            return isinstance(a, ast.Constant) and isinstance(a.value, str) and a.value in ("\n", "\r\n")
    return False


def _helper_bodies(prog, expr, depth=2):
    """package functions called inside `expr` (through partial / map), to `depth` levels"""
    out, todo = [], [(expr, 0)]
    while todo:
        e, d = todo.pop()
        for n in ast.walk(e):
            if isinstance(n, (ast.Name, ast.Attribute)) and isinstance(getattr(n, "ctx", None), ast.Load):
                for t in prog.resolve_expr_fn(n, n):
                    if isinstance(t, FunctionInfo) and t not in out and d < depth:
                        out.append(t)
                        todo.append((t.node, d + 1))
    return out


def unwrap_sites(prog):
    """(enclosing FunctionInfo, conditional node, transformed branch): a conditional on the `word_wrap` flag whose taken branch
    splits a text into lines - what the reader does to a description only when wrapping is on."""
    out = []
    for fi in prog.all_functions():
        if WORD_WRAP_FLAG not in fi.params():
            continue
        for n in ast.walk(fi.node):
            if enclosing_fn(n) is not fi:
                continue
            branch = None
            if isinstance(n, ast.IfExp) and isinstance(n.test, ast.Name) and n.test.id == WORD_WRAP_FLAG:
                branch = [n.body]
            elif isinstance(n, ast.IfExp) and isinstance(n.test, ast.UnaryOp) and isinstance(n.test.op, ast.Not) and isinstance(n.test.operand, ast.Name) \
                    and n.test.operand.id == WORD_WRAP_FLAG:
                branch = [n.orelse]
            elif isinstance(n, ast.If) and isinstance(n.test, ast.Name) and n.test.id == WORD_WRAP_FLAG:
                branch = n.body
            elif isinstance(n, ast.If) and isinstance(n.test, ast.UnaryOp) and isinstance(n.test.op, ast.Not) and isinstance(n.test.operand, ast.Name) \
                    and n.test.operand.id == WORD_WRAP_FLAG:
                # `if not word_wrap: <leave>`: with wrapping on, what follows in the same block runs
                branch = list(n.orelse)
                if n.body and isinstance(n.body[-1], (ast.Return, ast.Raise, ast.Continue, ast.Break)):
                    par = getattr(n, "_parent", None)
                    for fld in ("body", "orelse", "finalbody"):
                        blk = getattr(par, fld, None)
                        if isinstance(blk, list) and any(x is n for x in blk):
                            branch += blk[[i for i, x in enumerate(blk) if x is n][0] + 1:]
            if not branch:
                continue
            code = list(branch) + [t.node for b in branch for t in _helper_bodies(prog, b)]
            if any(wrap_chain(prog, c.func, c) for b in branch for c in ast.walk(b) if isinstance(c, ast.Call)):
                continue  # the writer's side: the branch wraps
            if any(_is_line_split(x) for cd in code for x in ast.walk(cd)):
                out.append((fi, n, branch, code))
    return out


# ---------------------------------------------------------------------------- WRAP-BREAKS
def rule_wrap_breaks(prog, rep, tier):
    """WRAP-BREAKS: every wrapping call breaks lines at whitespace only (break_long_words=False, break_on_hyphens=False),
    because the reader re-joins the lines of an entry with a blank."""
    sites = wrap_sites(prog)
    us = unwrap_sites(prog)
    if not us:
        raise AnalysisError("WRAP-BREAKS: the reader's re-join of wrapped lines (a conditional on `word_wrap` that splits a description into lines) was not found")
    if len(sites) < 3:
        raise AnalysisError("WRAP-BREAKS: only %d wrapping call sites found (emit_param_str and to_docstring are expected)" % len(sites))
    reader = "%s (%s)" % (us[0][0].qualname, loc(prog, us[0][1]))
    seen = set()
    for node, fe, alts, text in sites:
        fn = enclosing_fn(node)
        for name, kw, origin in alts:
            here = prog.owner_name(fn) if fn else prog.module_of(node).name
            for opt, what in (("break_long_words", "inside a word longer than the width (a long type string gets a blank in its middle)"),
                              ("break_on_hyphens", "behind the hyphen of a compound word (`ml-prepare` is read back as `ml- prepare`)")):
                v = kw.get(opt)
                ok = isinstance(v, ast.Constant) and v.value is False
                # the finding belongs to where the option is (or should be) set: the shared configuration, unless this site overrides it
                local = isinstance(node, ast.Call) and any(k.arg == opt for k in node.keywords) and fe is node.func
                where, at = (origin[0], origin[1]) if (origin and not local) else (here, node)
                key = (where, opt)
                if key in seen:
                    continue
                seen.add(key)
                if ok:
                    rep.holds("WRAP-BREAKS", "%s: %s=False" % (where, opt), loc(prog, at), "lines are broken at whitespace only; the reader joins them with a blank")
                else:
                    rep.violation(Finding(
                        "WRAP-BREAKS", where, "breaks-inside-word:%s" % opt,
                        "the wrapper %s is used with textwrap's default %s=True%s: it may break a line %s, while the reader %s joins the lines "
                        "of an entry with a blank - the text read back differs from the text written by more than layout"
                        % (where, opt, "" if v is None else " (given: %s)" % src(v, 20), what, reader), loc(prog, at)))


# ---------------------------------------------------------------------------- WRAP-CONT
# ---------------------------------------------------------------------------- WRAP-WIDTH
def rule_wrap_width(prog, rep, tier, writer="emitter_utils.to_docstring"):
    """WRAP-WIDTH (C18, C01, C03): on the docstring writer's path an entry is wrapped more than once (the per-entry writer wraps the
    description, the docstring writer wraps the finished entry again).  textwrap keeps the white-space inside a line: the second
    pass leaves no trace of the first only because it breaks at the same words, i.e. because every wrapper applied on that path
    wraps to one and the same width.  Decided: all wrapper applications in the functions reachable from the docstring writer
    bind `width` to the same expression (the shared configuration's, or the same override everywhere)."""
    w = prog.fn(writer)
    region = {id(f) for f in prog.reachable([w])}
    sites = [(node, fe, alts) for node, fe, alts, _t in wrap_sites(prog) if enclosing_fn(node) is not None and id(enclosing_fn(node)) in region]
    fns = {enclosing_fn(node).qualname.split(".<")[0] for node, _fe, _a in sites}
    if len(sites) < 2:
        raise AnalysisError("WRAP-WIDTH: fewer than two wrapper applications found on the path of %s (the per-entry writer and the docstring writer are expected)" % writer)
    widths = {}
    for node, fe, alts in sites:
        for name, kw, origin in alts:
            v = kw.get("width")
            # a name is read through to what it is bound to, so `width=line_length` and the configured `line_length` are one width
            key = "textwrap's default (70)" if v is None else src(v, 60)
            widths.setdefault(key, []).append((node, origin))
    if len(widths) == 1:
        rep.holds("WRAP-WIDTH", "%s: %d wrapper application(s) in %d function(s)" % (writer, len(sites), len(fns)), loc(prog, w.node),
                  "all wrap to %s" % next(iter(widths)))
        return
    common = max(widths, key=lambda k: len(widths[k]))
    for key, where in sorted(widths.items()):
        if key == common:
            continue
        node = where[0][0]
        fn = enclosing_fn(node)
        rep.violation(Finding(
            "WRAP-WIDTH", prog.owner_name(fn), "second-width",
            "%s wraps to %s while the other wrapper application(s) on the docstring writer's path wrap to %s: an entry passes through more than one of them, and "
            "textwrap keeps white-space inside a line - where the second pass breaks at other words than the first, the first pass's line break and indent stay "
            "in the middle of a line as a run of blanks, which the reader takes for prose" % (src(node, 50), key, common), loc(prog, node)))


def _is_indenter(prog, fe, at):
    """textwrap.indent, or a package function whose region applies it (indent_all_but_first, a local wrap-and-indent helper)"""
    if isinstance(fe, ast.Call) and isinstance(fe.func, (ast.Name, ast.Attribute)) and prog.ext_name(fe.func, fe) == "functools.partial" and fe.args:
        return _is_indenter(prog, fe.args[0], at)
    if not isinstance(fe, (ast.Name, ast.Attribute)):
        return False
    for t in prog.resolve_expr_fn(fe, at):
        if isinstance(t, tuple) and t[0] == "ext" and t[1] == "textwrap.indent":
            return True
        if isinstance(t, FunctionInfo):
            for f in prog.reachable([t]):
                for c in ast.walk(f.node):
                    if isinstance(c, ast.Call) and isinstance(c.func, (ast.Name, ast.Attribute)) and prog.ext_name(c.func, c) == "textwrap.indent":
                        return True
    return False


def _consumption(prog, fn, node, depth=0):
    """How the value of `node` (a wrapped text, or texts) reaches the emitted string: 'indented' (an indenter takes it),
    'direct' (it is emitted as it is: returned / joined / formatted in), 'unknown' (anything else: re-laid out by other code)."""
    child, p = node, getattr(node, "_parent", None)
    while p is not None:
        if isinstance(p, ast.Call):
            if child is p.func:
                return "unknown", p
            is_arg = child in p.args or child in p.keywords or any(k.value is child for k in p.keywords)
            if not is_arg:
                return "unknown", p
            f = p.func
            if isinstance(f, ast.Name) and f.id in ("map",) and prog.lookup(f.id, p)[0] == "builtin" and len(p.args) == 2:
                if child is p.args[1]:
                    if _is_indenter(prog, p.args[0], p):
                        return "indented", p
                    if wrap_chain(prog, p.args[0], p):
                        child, p = p, p._parent
                        continue
                    return "unknown", p
                return "unknown", p
            if isinstance(f, ast.Name) and f.id in ("filter", "list", "tuple", "iter", "next") and prog.lookup(f.id, p)[0] == "builtin":
                child, p = p, p._parent
                continue
            if isinstance(f, ast.Attribute) and f.attr in ("join", "format") and isinstance(f.value, ast.Constant) and isinstance(f.value.value, str):
                child, p = p, p._parent
                continue
            if _is_indenter(prog, f, p) and ((p.args and child is p.args[0]) or any(k.value is child and k.arg in ("s", "text") for k in p.keywords)):
                return "indented", p
            if isinstance(f, ast.Attribute) and f.attr in ("append", "extend", "insert") and isinstance(f.value, ast.Name) and depth < 3 and fn is not None \
                    and isinstance(getattr(p, "_parent", None), ast.Expr):
                # collected in a local list: where the list goes, the text goes
                verdicts = [_consumption(prog, fn, u, depth + 1) for u in ast.walk(fn.node)
                            if isinstance(u, ast.Name) and u.id == f.value.id and isinstance(u.ctx, ast.Load) and order_key(u) > order_key(p)
                            and not (isinstance(u._parent, ast.Attribute) and u._parent.attr in ("append", "extend", "insert"))]
                for v in verdicts:
                    if v[0] == "direct":
                        return v
                return ("indented", p) if verdicts and all(v[0] == "indented" for v in verdicts) else ("unknown", p)
            return "unknown", p
        if isinstance(p, ast.IfExp):
            if child is p.test:
                return "unknown", p
        elif isinstance(p, (ast.Tuple, ast.List, ast.Starred, ast.keyword, ast.JoinedStr, ast.FormattedValue)):
            pass
        elif isinstance(p, ast.comprehension) and child is p.iter and isinstance(p._parent, (ast.GeneratorExp, ast.ListComp)) \
                and isinstance(p._parent.elt, ast.Name) and isinstance(p.target, ast.Name) and p._parent.elt.id == p.target.id:
            p = p._parent  # `x for x in <texts> [if x]`: the texts themselves
        elif isinstance(p, ast.BinOp) and isinstance(p.op, ast.Add):
            pass
        elif isinstance(p, ast.Return):
            return "direct", p
        elif isinstance(p, ast.Assign) and len(p.targets) == 1 and isinstance(p.targets[0], ast.Name) and depth < 3 and fn is not None:
            nm = p.targets[0].id
            verdicts = []
            for u in ast.walk(fn.node):
                if isinstance(u, ast.Name) and u.id == nm and isinstance(u.ctx, ast.Load) and order_key(u) > order_key(p):
                    verdicts.append(_consumption(prog, fn, u, depth + 1))
            for v in verdicts:
                if v[0] == "direct":
                    return v
            return ("indented", p) if verdicts and all(v[0] == "indented" for v in verdicts) else ("unknown", p)
        else:
            return "unknown", p
        child, p = p, getattr(p, "_parent", None)
    return "unknown", node


def _is_indented_text(prog, fn, e, depth=0):
    """is the text being wrapped the result of an indenter (`fill(indent(x, tab))`)?"""
    if isinstance(e, ast.Call) and isinstance(e.func, (ast.Name, ast.Attribute)) and _is_indenter(prog, e.func, e):
        return True
    if isinstance(e, ast.Name) and fn is not None and depth < 2:
        defs = [n for n in ast.walk(fn.node) if isinstance(n, ast.Assign) and any(isinstance(t, ast.Name) and t.id == e.id for t in n.targets)]
        if len(defs) == 1:
            return _is_indented_text(prog, fn, defs[0].value, depth + 1)
    return False


def entry_emitters(prog):
    """functions applied to the items of an interface description's `params` / `returns` mapping (`map(F, ir["params"].items())`,
    `F(p) for p in ir["params"].items()`, `F(next(iter(ir["returns"].items())))`), with everything they reach: the code that
    writes one documented entry"""
    def is_items(e):
        return any(isinstance(x, ast.Call) and isinstance(x.func, ast.Attribute) and x.func.attr == "items" and any(
            isinstance(sb, ast.Subscript) and isinstance(sb.slice, ast.Constant) and sb.slice.value in ("params", "returns") for sb in ast.walk(x.func.value))
            for x in ast.walk(e))
    roots = []
    for m in prog.modules.values():
        for c in ast.walk(m.tree):
            fe = None
            if isinstance(c, ast.Call) and isinstance(c.func, ast.Name) and c.func.id == "map" and len(c.args) == 2 and is_items(c.args[1]):
                fe = c.args[0]
            elif isinstance(c, (ast.GeneratorExp, ast.ListComp)) and len(c.generators) == 1 and is_items(c.generators[0].iter) and isinstance(c.elt, ast.Call):
                fe = c.elt.func
            elif isinstance(c, ast.Call) and c.args and is_items(c.args[0]) and not (isinstance(c.func, ast.Name) and c.func.id in ("map", "next", "iter", "list", "tuple", "OrderedDict", "dict", "filter")):
                fe = c.func
            if fe is None:
                continue
            for t in prog.resolve_expr_fn(fe, c):
                if isinstance(t, FunctionInfo) and t not in roots:
                    roots.append(t)
    out = []
    for r in roots:
        for f in prog.reachable([r]):
            if f not in out:
                out.append(f)
    return roots, out


def rule_wrap_cont(prog, rep, tier):
    """WRAP-CONT: the continuation lines of a wrapped text are indented: the wrapped value is handed to an indenter, or the
    wrapper is given subsequent_indent=.  Wrapped text that is emitted as it comes back from the wrapper puts its
    continuation lines at column 0 - at the column of the entry's first line, where the reader takes them for new entries."""
    roots, entry_fns = entry_emitters(prog)
    sites = [s_ for s_ in wrap_sites(prog) if enclosing_fn(s_[0]) is not None and any(enclosing_fn(s_[0]) is f or enclosing_fn(s_[0]).node is f.node for f in entry_fns)]
    if len(sites) < 2:
        raise AnalysisError("WRAP-CONT: only %d wrapping call sites found in the functions that write one documented entry (%s)"
                            % (len(sites), ", ".join(sorted(r.qualname for r in roots)) or "none found"))
    for node, fe, alts, text in sites:
        fn = enclosing_fn(node)
        where = prog.owner_name(fn) if fn else prog.module_of(node).name
        if all("subsequent_indent" in kw for _, kw, _ in alts):
            rep.holds("WRAP-CONT", "%s: %s" % (where, src(node, 50)), loc(prog, node), "subsequent_indent= is given")
            continue
        verdict, at = _consumption(prog, fn, node)
        if verdict == "direct":
            kind = "indented-text" if (text is not None and _is_indented_text(prog, fn, text)) else "plain-text"
            # the docstring style the branch serves, from the string constants its guards compare with (spelling-free key)
            tags = []
            for t, pol in expr_guards(node, stop=fn.node if fn else None):
                cs = [c.value for c in ast.walk(t) if isinstance(c, ast.Constant) and isinstance(c.value, str)]
                if cs and isinstance(t, ast.Compare) and WORD_WRAP_FLAG not in names_in(t):
                    tags.append((not pol, ("" if pol else "not-") + cs[0]))
            style = sorted(tags)[0][1] if tags else ""
            rep.violation(Finding(
                "WRAP-CONT", where, "continuation-at-first-column:%s%s" % (kind, (":" + style) if style else ""),
                "%s is emitted as the wrapper returns it: its continuation lines start at column 0%s. In an entry whose lines are told apart by "
                "indentation they are read as new entries (a parameter named after the rest of the sentence), so wrapping re-attributes prose"
                % (src(node, 60), " although its first line was indented beforehand (%s): wrap first, indent afterwards" % src(text, 40) if kind == "indented-text" else ""),
                loc(prog, node)))
        elif verdict == "indented":
            rep.holds("WRAP-CONT", "%s: %s" % (where, src(node, 50)), loc(prog, node), "the wrapped text goes through an indenter (%s)" % src(at.func if isinstance(at, ast.Call) else at, 40))
        else:
            rep.ob("WRAP-CONT", "%s: %s" % (where, src(node, 50)), "unresolved", loc(prog, node), "the wrapped text is re-laid out by other code (%s)" % src(at, 50))


# ---------------------------------------------------------------------------- REJOIN-UNIFORM
def _line_vars(code_nodes):
    """names that hold one line (or something derived from lines) inside the un-wrapping code"""
    tainted = set()
    lam_params = set()
    for cd in code_nodes:
        for n in ast.walk(cd):
            if isinstance(n, ast.comprehension) and any(_is_line_split(x) for x in ast.walk(n.iter)):
                tainted |= names_in(n.target)
            elif isinstance(n, ast.For) and any(_is_line_split(x) for x in ast.walk(n.iter)):
                tainted |= names_in(n.target)
            elif isinstance(n, ast.Call) and any(isinstance(a, ast.Lambda) for a in n.args) \
                    and any(_is_line_split(x) for a in n.args if not isinstance(a, ast.Lambda) for x in ast.walk(a)):
                # map / filter / reduce / sorted(key=..) over the lines: the callable's parameters are lines (or what was built from them)
                for a in n.args:
                    if isinstance(a, ast.Lambda):
                        tainted |= {x.arg for x in a.args.args}
                        lam_params |= {x.arg for x in a.args.args}
            elif isinstance(n, ast.Assign) and any(_is_line_split(x) for x in ast.walk(n.value)):
                for t in n.targets:
                    tainted |= names_in(t)
    direct = set(lam_params)
    for cd in code_nodes:
        for n in ast.walk(cd):
            if isinstance(n, (ast.For, ast.comprehension)) and (any(_is_line_split(x) for x in ast.walk(n.iter)) or names_in(n.iter) & tainted):
                direct |= names_in(n.target)
    # iterate: for-loops / comprehensions over tainted names, next(...) of them, assignments from tainted values
    for _ in range(4):
        for cd in code_nodes:
            for n in ast.walk(cd):
                if isinstance(n, (ast.For, ast.comprehension)) and names_in(n.iter) & tainted:
                    tainted |= names_in(n.target)
                elif isinstance(n, ast.Assign) and names_in(n.value) & tainted:
                    for t in n.targets:
                        tainted |= names_in(t)
                elif isinstance(n, ast.AugAssign) and names_in(n.value) & tainted:
                    tainted |= names_in(n.target)
    return tainted, direct


def _is_blank_test(t, line_names):
    """a test that only asks whether a line is empty: `line`, `line.strip()`, `not line` (line: a loop / comprehension variable over the lines)"""
    while isinstance(t, ast.UnaryOp) and isinstance(t.op, ast.Not):
        t = t.operand
    if isinstance(t, ast.Name):
        return t.id in line_names
    return isinstance(t, ast.Call) and isinstance(t.func, ast.Attribute) and t.func.attr in ("strip", "lstrip", "rstrip") and isinstance(t.func.value, ast.Name) \
        and t.func.value.id in line_names and not t.args


def _blank_joins_of_lines(fn_node):
    """`<blank>.join(<lines of X>)` expressions: (node, X) with X the text that is split into lines"""
    out = []
    for n in ast.walk(fn_node):
        if isinstance(n, ast.Call) and isinstance(n.func, ast.Attribute) and n.func.attr == "join" and isinstance(n.func.value, ast.Constant) \
                and isinstance(n.func.value.value, str) and n.func.value.value.strip(" ") == "" and n.func.value.value != "" and n.args:
            for x in ast.walk(n.args[0]):
                if _is_line_split(x) and isinstance(x.func, ast.Attribute) and x.func.attr in ("split", "splitlines") and (x.args or x.func.attr == "splitlines"):
                    out.append((n, x.func.value))
    return out


def rule_rejoin_uniform(prog, rep, tier, entry="docstring_parsers.parse_docstring"):
    """REJOIN-UNIFORM: the reader puts wrapped lines back together the same way at every line boundary - and only the lines of
    a description: a line break inside a default value or a type is content, not layout."""
    us = unwrap_sites(prog)
    if not us:
        raise AnalysisError("REJOIN-UNIFORM: the reader's re-join of wrapped lines was not found")
    # REJOIN (scope): on the reader's path a blank-join of lines is applied to prose only
    if prog.has_fn(entry):
        for f in prog.reachable([prog.fn(entry)]):
            if f.parent_fn is not None:
                continue
            for n, x in _blank_joins_of_lines(f.node):
                keys = [c.slice.value for c in ast.walk(x) if isinstance(c, ast.Subscript) and isinstance(c.slice, ast.Constant) and isinstance(c.slice.value, str)]
                if keys and keys[-1] in ("default", "typ"):
                    rep.violation(Finding(
                        "REJOIN-UNIFORM", prog.owner_name(f), "rejoin-of-value:%s" % keys[-1],
                        "the lines of a %s are re-joined with a blank (%s): a line break inside a value is content (end='\\n', a multi-line header), and this code also sees the "
                        "defaults taken from a signature" % ("default value" if keys[-1] == "default" else "type", src(n, 60)), loc(prog, n)))
    for fi, cond, branch, code in us:
        where = prog.owner_name(fi)
        tainted, line_names = _line_vars(code)
        bad = None
        for cd in code:
            for n in ast.walk(cd):
                tests = []
                if isinstance(n, (ast.IfExp, ast.If, ast.While)):
                    if n is cond:
                        continue
                    tests.append(n.test)
                elif isinstance(n, ast.comprehension):
                    tests += n.ifs
                elif isinstance(n, ast.Call) and isinstance(n.func, ast.Name) and n.func.id == "filter" and len(n.args) == 2 \
                        and not (isinstance(n.args[0], ast.Constant) and n.args[0].value is None) and any(_is_line_split(x) for x in ast.walk(n.args[1])):
                    tests.append(n.args[0])
                for t in tests:
                    if isinstance(t, ast.Name) and t.id == WORD_WRAP_FLAG:
                        continue
                    if (names_in(t) & tainted or isinstance(t, ast.Lambda)) and not _is_blank_test(t, line_names):
                        bad = bad or (n, t)
        if bad:
            rep.violation(Finding(
                "REJOIN-UNIFORM", where, "content-dependent-join",
                "the re-join of wrapped lines decides per line (%s): the writer breaks lines at blanks only, so a join that treats some boundaries differently "
                "(e.g. no blank behind a hyphen) changes words - `pre- and post` becomes `pre-and post`, `0 - 1` becomes `0 -1`" % src(bad[1], 60), loc(prog, bad[0])))
            continue
        # a join of the lines without a blank between them
        merged = None
        for cd in code:
            for n in ast.walk(cd):
                if isinstance(n, ast.Call) and isinstance(n.func, ast.Attribute) and n.func.attr == "join" and isinstance(n.func.value, ast.Constant) \
                        and n.func.value.value == "" and n.args and any(_is_line_split(x) for x in ast.walk(n.args[0])):
                    elts = [n.args[0].elt] if isinstance(n.args[0], (ast.GeneratorExp, ast.ListComp)) else []
                    plain = not elts or all(isinstance(e, ast.Name) or (isinstance(e, ast.Call) and isinstance(e.func, ast.Attribute) and e.func.attr in ("strip", "lstrip", "rstrip"))
                                            for e in elts)
                    if plain:
                        merged = n
        if merged is not None:
            rep.violation(Finding("REJOIN-UNIFORM", where, "join-without-blank",
                                  "the wrapped lines are joined with nothing between them (%s): the last word of a line and the first word of the next one merge" % src(merged, 60),
                                  loc(prog, merged)))
        else:
            rep.holds("REJOIN-UNIFORM", "%s: %s" % (where, src(branch[0], 60)), loc(prog, cond), "every line boundary is treated alike; nothing depends on what a line contains")


# ---------------------------------------------------------------------------- SCAN-AFTER-REJOIN
READER_ANCHOR = "defaults_utils.extract_default"


class _Subst(ast.NodeTransformer):
    def __init__(self, binding):
        self.binding = binding

    def visit_Name(self, n):
        b = self.binding.get(n.id)
        return _clone(b) if b is not None and isinstance(n.ctx, ast.Load) else n


def _clone(e):
    from sa.model import _strip_parents
    return _strip_parents(e)


def _translate(e, binding):
    return _Subst(binding).visit(_clone(e)) if binding else e


def _gkey(t, pol):
    return ("" if pol else "not ") + dump(t)


def _invocation(n):
    """the call that invokes the function referenced at `n`: `n(...)`, `(n if t else m)(...)`, `partial(n, k=v)(...)`;
    returns (call, extra keyword bindings) or (None, {})"""
    cur, extra = n, {}
    p = getattr(cur, "_parent", None)
    while p is not None:
        if isinstance(p, ast.IfExp) and cur in (p.body, p.orelse):
            cur, p = p, p._parent
            continue
        if isinstance(p, ast.Call) and p.func is cur:
            return p, extra
        if isinstance(p, ast.Call) and p.args and p.args[0] is cur and isinstance(p.func, ast.Name) and p.func.id == "partial":
            extra.update({k.arg: k.value for k in p.keywords if k.arg})
            cur, p = p, p._parent
            continue
        break
    return None, {}


def rule_scan_after_rejoin(prog, rep, tier, entry="docstring_parsers.parse_docstring"):
    """SCAN-AFTER-REJOIN: wherever the default reader is applied to a description that has not been re-joined yet, a later
    application after the re-join, on the same style path, exists."""
    if not prog.has_fn(READER_ANCHOR):
        raise AnalysisError("SCAN-AFTER-REJOIN: %s not found" % READER_ANCHOR)
    reader_fn = prog.fn(READER_ANCHOR)
    us = unwrap_sites(prog)
    if not us:
        raise AnalysisError("SCAN-AFTER-REJOIN: the reader's re-join of wrapped lines was not found")
    ufns = {id(fi) for fi, _, _, _ in us}
    start = prog.fn(entry)
    reach_cache = {}

    def reach(f):
        if id(f) not in reach_cache:
            reach_cache[id(f)] = {id(x) for x in prog.reachable([f])}
        return reach_cache[id(f)]

    def kind_of_fn(f):
        r = reach(f)
        has_u = bool(ufns & r)
        has_r = id(reader_fn) in r
        return "C" if (has_u and has_r) else "U" if has_u else "R" if has_r else None

    def kind_of_expr(fe, at):
        """'U' (re-joins) / 'R' (reads defaults) / 'C' (does both) for a function-valued expression"""
        if isinstance(fe, ast.Lambda):
            ks = {kind_of_expr(c.func, c) for c in ast.walk(fe.body) if isinstance(c, ast.Call)} - {None}
            return "C" if ks >= {"U", "R"} or "C" in ks else (ks.pop() if len(ks) == 1 else None)
        if not isinstance(fe, (ast.Name, ast.Attribute, ast.Call, ast.IfExp)):
            return None
        ks = {kind_of_fn(t) for t in prog.resolve_expr_fn(fe, at) if isinstance(t, FunctionInfo)} - {None}
        if not ks:
            return None
        return ks.pop() if len(ks) == 1 else "C"

    apps_cache = {}

    def applications(f):
        """(node, kind, operand) for each application of a re-joiner or reader in f: `F(x, ...)` (operand x), `map(F, xs)`
        (operand xs); closures of f that are themselves readers / re-joiners are single steps, not looked into"""
        if id(f) in apps_cache:
            return apps_cache[id(f)]
        out = []

        def own_param(fe, at):
            """(closure node, parameter name) when `fe` names a parameter of a closure / lambda nested in f"""
            if isinstance(fe, ast.Name):
                b = prog.lookup(fe.id, at)
                if b[0] == "param" and b[1] is not f.node:
                    return b[1], fe.id
            return None

        def applied(n):
            """(function expression, operand) when n applies a function to data: `F(x, ...)` or `map(F, xs)`"""
            if not isinstance(n, ast.Call):
                return None
            if isinstance(n.func, ast.Name) and n.func.id == "map" and len(n.args) >= 2 and prog.lookup("map", n)[0] == "builtin":
                return n.args[0], n.args[1]
            return (n.func, n.args[0]) if n.args else None

        def walk(n):
            if isinstance(n, (ast.FunctionDef, ast.AsyncFunctionDef)) and n is not f.node:
                g = getattr(n, "_fninfo", None)
                if g is not None and kind_of_fn(g) in ("R", "U"):
                    return  # a reader / re-joiner of its own: one step, not looked into
            ap = applied(n)
            if ap is not None:
                fe, operand = ap
                if own_param(fe, n) is None:
                    k = kind_of_expr(fe, n)
                    if k in ("U", "R") and not (names_in(operand) and all(own_param(x, x) for x in ast.walk(operand) if isinstance(x, ast.Name))):
                        # (an application to nothing but the parameters of the lambda / closure it stands in is judged where that one is applied)
                        out.append((n, k, operand))
                # a closure of f called with a function: what the closure applies its parameter to, is applied here
                if isinstance(n.func, ast.Name):
                    b = prog.lookup(n.func.id, n)
                    if b[0] == "func" and b[1].parent_fn is not None and isinstance(b[1].node, ast.FunctionDef):
                        h = b[1]
                        pn = h.params()
                        for inner in ast.walk(h.node):
                            iap = applied(inner)
                            if iap is None:
                                continue
                            op_ = own_param(iap[0], inner)
                            if op_ is None or op_[0] is not h.node:
                                continue
                            i = pn.index(op_[1])
                            arg = n.args[i] if i < len(n.args) else next((kw.value for kw in n.keywords if kw.arg == op_[1]), None)
                            k = kind_of_expr(arg, n) if arg is not None else None
                            if k in ("U", "R"):
                                out.append((n, k, iap[1]))
            for ch in ast.iter_child_nodes(n):
                walk(ch)
        walk(f.node)
        apps_cache[id(f)] = out
        return out

    composites = [f for f in prog.reachable([start]) if kind_of_fn(f) == "C"]
    if start not in composites:
        raise AnalysisError("SCAN-AFTER-REJOIN: %s does not reach both the default reader and the re-join" % entry)

    def chains_into(f, seen=()):
        """one (guards, binding) per chain of references entry -> ... -> f: the conditions under which f runs and what its
        parameters are bound to, both written with the entry's names"""
        if f is start:
            return [([], {})]
        out = []
        for g in composites:
            if g is f or g in seen:
                continue
            for n in ast.walk(g.node):
                if not (isinstance(n, (ast.Name, ast.Attribute)) and isinstance(getattr(n, "ctx", None), ast.Load) and enclosing_fn(n) is g):
                    continue
                if not any(t is f for t in prog.resolve_expr_fn(n, n)):
                    continue
                call, extra = _invocation(n)
                for up_guards, up_bind in chains_into(g, seen + (f,)):
                    gs = [(_translate(t, up_bind), pol) for t, pol in expr_guards(n, stop=g.node)]
                    bind = {}
                    if call is not None:
                        pn = f.params()
                        for i, a in enumerate(call.args):
                            if i < len(pn) and not isinstance(a, ast.Starred):
                                bind[pn[i]] = _translate(a, up_bind)
                        for k, v in list(extra.items()) + [(kw.arg, kw.value) for kw in call.keywords if kw.arg]:
                            bind[k] = _translate(v, up_bind)
                    out.append((up_guards + gs, bind))
        return out

    def history_apps(f, node, operand):
        """the applications the operand has been through: nested in it, or in the assignment that last defined a local it
        is built from"""
        apps = applications(f)
        out = [a for a in apps if a[0] is not node and any(x is a[0] for x in ast.walk(operand))]
        for nm in names_in(operand):
            defs = [st for st in ast.walk(f.node) if isinstance(st, ast.Assign) and order_key(st) < order_key(node)
                    and nm in {x for t in st.targets for x in names_in(t)} and not any(x is node for x in ast.walk(st))]
            if defs:
                last = max(defs, key=order_key)
                out += [a for a in apps if any(x is a[0] for x in ast.walk(last.value)) and a not in out]
        return out

    def history(f, node, operand):
        late = {id(l[0]) for l in late_readers(f)}
        return {a[1] for a in history_apps(f, node, operand) if id(a[0]) not in late}

    def flows_on(f, node):
        """the value of this application is bound to a local that a later application of f takes as (part of) its operand"""
        st = node
        while st is not None and not isinstance(st, ast.stmt):
            st = getattr(st, "_parent", None)
        if not isinstance(st, ast.Assign):
            return False
        tnames = {x for t in st.targets for x in names_in(t)}
        return any(a[0] is not node and order_key(a[0]) > order_key(st) and names_in(a[2]) & tnames and not any(x is a[0] for x in ast.walk(st))
                   for a in applications(f))

    late_cache = {}

    def late_readers(g):
        """(node, guards) for reader applications in g on data of an object that an earlier call of g handed to a callee that
        reads and re-joins (what such a reader was given may itself come from an earlier late reader)"""
        if id(g) in late_cache:
            return late_cache[id(g)]
        late_cache[id(g)] = out = []
        for node, k, operand in sorted(applications(g), key=lambda a: order_key(a[0])):
            if k != "R" or any(id(a[0]) not in {id(l[0]) for l in out} for a in history_apps(g, node, operand)):
                continue
            for c in ast.walk(g.node):
                if isinstance(c, ast.Call) and enclosing_fn(c) is g and order_key(c) < order_key(node) and kind_of_expr(c.func, c) == "C":
                    handed = {a.id for a in list(c.args) + [kw.value for kw in c.keywords] if isinstance(a, ast.Name)}
                    if handed & names_in(operand):
                        # conditions on the very data being processed (skip an empty mapping) are not path conditions
                        gs = [(t, pol) for t, pol in expr_guards(node, stop=g.node) if not (names_in(t) and names_in(t) <= names_in(operand))]
                        out.append((node, gs, c))
                        break
        return out

    def style_tag(guards):
        for t, pol in reversed(guards):
            if isinstance(t, ast.Compare) and len(t.ops) == 1 and isinstance(t.ops[0], (ast.Is, ast.Eq, ast.IsNot, ast.NotEq)) and isinstance(t.comparators[0], ast.Attribute):
                neg = isinstance(t.ops[0], (ast.IsNot, ast.NotEq)) == pol
                return "%s%s" % ("not-" if neg else "", t.comparators[0].attr)
        return "any"

    def owner(f):
        top = f
        while top.parent_fn is not None:
            top = top.parent_fn
        return prog.owner_name(top)

    n_flows = 0
    for f in composites:
        apps = applications(f)
        lates = {id(l[0]) for l in late_readers(f)}
        chains = chains_into(f)
        tag = style_tag(chains[0][0]) if chains else "any"
        for node, k, operand in apps:
            if id(node) in lates:
                continue
            if any(a[0] is not node and any(x is node for x in ast.walk(a[0])) for a in apps):
                continue  # part of an enclosing application, judged there
            hist = history(f, node, operand)
            if k == "U" and "R" not in hist:
                continue  # a re-join alone: nothing was read before it
            if k == "R" and "U" not in hist and flows_on(f, node):
                continue  # its result is the operand of a later step: judged there
            n_flows += 1
            inst = "%s: %s" % (f.qualname, src(node, 60))
            if k == "R" and "U" in hist:
                rep.holds("SCAN-AFTER-REJOIN", inst, loc(prog, node), "the reader is applied to the re-joined description")
                continue
            slot = _slot_of(node)
            if k == "R":
                rep.violation(Finding(
                    "SCAN-AFTER-REJOIN", owner(f), "reader-never-rejoined:%s:%s" % (slot, tag),
                    "the default reader is applied to a description whose lines are never re-joined (%s): a `Defaults to ...` that the wrapper split across "
                    "two lines is not found, so the default of this entry depends on the line length" % src(node, 70), loc(prog, node)))
                continue
            # read first, re-joined afterwards: some caller must read again, after the call that gets here, whenever this path is taken
            comp = None
            for g2 in composites:
                if g2 is f:
                    continue
                for node2, g_late, c in late_readers(g2):
                    tg = [t for t in prog.resolve_expr_fn(c.func, c) if isinstance(t, FunctionInfo)]
                    if not any(t is f or id(f) in reach(t) for t in tg):
                        continue
                    for up_guards, up_bind in chains_into(g2) or [([], {})]:
                        want = {_gkey(_translate(t, up_bind), pol) for t, pol in g_late}
                        if chains and all(want <= {_gkey(t, pol) for t, pol in ch_guards} for ch_guards, _ in chains):
                            comp = (g2, node2)
            if comp:
                rep.holds("SCAN-AFTER-REJOIN", inst, loc(prog, node), "read before the re-join, and read again afterwards by %s (%s)" % (comp[0].qualname, loc(prog, comp[1])))
            else:
                rep.violation(Finding(
                    "SCAN-AFTER-REJOIN", owner(f), "reader-before-rejoin:%s:%s" % (slot, tag),
                    "the default reader is applied before the lines of the description are re-joined (%s) and nothing reads the re-joined text again on this "
                    "path: a `Defaults to ...` that the wrapper split across two lines is not found (the default is lost, or forced to a placeholder)" % src(node, 70),
                    loc(prog, node)))
    if n_flows < 3:
        raise AnalysisError("SCAN-AFTER-REJOIN: only %d reader/re-join compositions recognised under %s" % (n_flows, entry))


def _slot_of(node):
    """the IR slot a composition fills, from the constant keys around it ('params' / 'returns'), for a stable finding key"""
    p = node
    while p is not None and not isinstance(p, ast.stmt):
        par = getattr(p, "_parent", None)
        if isinstance(par, ast.Dict):
            for k, v in zip(par.keys, par.values):
                if v is p and isinstance(k, ast.Constant) and k.value in ("params", "returns"):
                    return k.value
        p = par
    if p is not None:
        ks = [c.value for c in ast.walk(p) if isinstance(c, ast.Constant) and c.value in ("params", "returns", "return_type")]
        if ks:
            return "returns" if "returns" in ks or "return_type" in ks else ks[0]
    return "params"


def style_path_tag(prog, start, f, node=None, consts=False):
    """A spelling-free tag of the docstring-style path on which function f (and, inside it, `node`) runs when entered from
    `start`: from the enum-like comparisons (`style is Style.rest`) guarding the references along a call chain start -> ... -> f
    and guarding `node` inside f: 'rest', 'not-rest', ... or 'any'."""
    def tag_of(guards):
        for t, pol in reversed(guards):
            if isinstance(t, ast.Compare) and len(t.ops) == 1 and isinstance(t.ops[0], (ast.Is, ast.Eq, ast.IsNot, ast.NotEq)) and isinstance(t.comparators[0], ast.Attribute):
                neg = isinstance(t.ops[0], (ast.IsNot, ast.NotEq)) == pol
                return "%s%s" % ("not-" if neg else "", t.comparators[0].attr)
            if consts and isinstance(t, ast.Compare) and len(t.ops) == 1 and isinstance(t.ops[0], (ast.Is, ast.Eq, ast.IsNot, ast.NotEq)) \
                    and isinstance(t.comparators[0], ast.Constant) and isinstance(t.comparators[0].value, str) and WORD_WRAP_FLAG not in names_in(t):
                # the writers compare the style with its name (`style == "rest"`)
                neg = isinstance(t.ops[0], (ast.IsNot, ast.NotEq)) == pol
                return "%s%s" % ("not-" if neg else "", t.comparators[0].value)
        return None

    top = f
    while top.parent_fn is not None:
        top = top.parent_fn
    reach = {id(x): x for x in prog.reachable([start])}

    def chain(g, seen):
        if g is start:
            return []
        for h in reach.values():
            if h is g or id(h) in seen or h.parent_fn is not None:
                continue
            for n in ast.walk(h.node):
                if isinstance(n, (ast.Name, ast.Attribute)) and isinstance(getattr(n, "ctx", None), ast.Load) and any(t is g for t in prog.resolve_expr_fn(n, n)):
                    up = chain(h, seen | {id(g)})
                    if up is not None:
                        return up + list(expr_guards(n, stop=h.node))
        return None

    gs = chain(top, set()) or []
    if node is not None:
        gs = gs + list(expr_guards(node, stop=top.node))
    return tag_of(gs) or "any"


# ---------------------------------------------------------------------------- REJOIN-COVER
def rule_rejoin_cover(prog, rep, tier):
    """REJOIN-COVER (C18, C03, C08): the function that re-joins the wrapped lines of a description is applied to an entry whatever
    else the entry holds.  No application of it - direct, through partial or map - stands under a test of the entry's 'default'
    (or 'typ') key: prose is wrapped whether or not there is a default, so an entry without one would keep its line breaks (and a
    second pass would wrap the broken text again)."""
    from sa.rules.hole import _dnf, _key_test
    us = unwrap_sites(prog)
    if not us:
        raise AnalysisError("REJOIN-COVER: the reader's re-join of wrapped lines was not found")
    rejoiners = []
    for fi, cond, branch, code in us:
        top = fi
        while top.parent_fn is not None:
            top = top.parent_fn
        if top not in rejoiners:
            rejoiners.append(top)
    n = 0
    for f in prog.all_functions():
        if f in rejoiners or f.parent_fn is not None and f.parent_fn in rejoiners:
            continue
        for x in ast.walk(f.node):
            if not (isinstance(x, ast.Name) and isinstance(x.ctx, ast.Load)):
                continue
            if enclosing_fn(x) is not f:
                continue
            tg = [t for t in prog.resolve_expr_fn(x, x) if isinstance(t, FunctionInfo)]
            if not tg or tg[0] not in rejoiners:
                continue
            n += 1
            bad = None
            for t, pol in expr_guards(x, stop=f.node):
                for alt in _dnf(t, pol):
                    for atom, p_ in alt:
                        for key in ("default", "typ"):
                            if _key_test(atom, key) is not None:
                                bad = bad or (atom, key)
            inst = "%s applies %s" % (prog.owner_name(f), tg[0].qualname)
            if bad:
                rep.violation(Finding(
                    "REJOIN-COVER", prog.owner_name(f), "rejoin-only-with:%s" % bad[1],
                    "%s is applied only under `%s`, a test of the entry's %r key: an entry without it keeps the line breaks the writer's word-wrap put into its "
                    "description (the prose comes back changed, and the next emission wraps the broken text again)" % (tg[0].qualname, src(bad[0], 50), bad[1]), loc(prog, bad[0])))
            else:
                rep.holds("REJOIN-COVER", inst, loc(prog, x), "under no test of the entry's default / type")
    if n == 0:
        raise AnalysisError("REJOIN-COVER: no application of the re-joining function found")


# ---------------------------------------------------------------------------- WRAP-NOT-TYPE
def _value_parts(fn, e, depth=0, seen=None):
    """the sub-expressions that contribute text to the value of e (not the tests that choose between them): format arguments,
    joined / filtered / mapped elements, both arms of a conditional, what a local was assigned"""
    seen = seen if seen is not None else set()
    if e is None or depth > 12 or id(e) in seen:
        return
    seen.add(id(e))
    yield e
    if isinstance(e, ast.IfExp):
        yield from _value_parts(fn, e.body, depth + 1, seen)
        yield from _value_parts(fn, e.orelse, depth + 1, seen)
    elif isinstance(e, ast.BoolOp):
        for v in e.values:
            yield from _value_parts(fn, v, depth + 1, seen)
    elif isinstance(e, (ast.Tuple, ast.List, ast.Set)):
        for v in e.elts:
            yield from _value_parts(fn, v, depth + 1, seen)
    elif isinstance(e, ast.Starred):
        yield from _value_parts(fn, e.value, depth + 1, seen)
    elif isinstance(e, ast.BinOp):
        yield from _value_parts(fn, e.left, depth + 1, seen)
        yield from _value_parts(fn, e.right, depth + 1, seen)
    elif isinstance(e, ast.JoinedStr):
        for v in e.values:
            yield from _value_parts(fn, v.value if isinstance(v, ast.FormattedValue) else v, depth + 1, seen)
    elif isinstance(e, (ast.GeneratorExp, ast.ListComp)):
        yield from _value_parts(fn, e.elt, depth + 1, seen)
    elif isinstance(e, ast.Call):
        if isinstance(e.func, ast.Attribute):
            yield from _value_parts(fn, e.func.value, depth + 1, seen)
        first_is_fn = isinstance(e.func, ast.Name) and e.func.id in ("map", "filter")
        for a in (e.args[1:] if first_is_fn else e.args):
            yield from _value_parts(fn, a, depth + 1, seen)
        for k in e.keywords:
            yield from _value_parts(fn, k.value, depth + 1, seen)
    elif isinstance(e, ast.Name) and fn is not None:
        for st in ast.walk(fn.node):
            if isinstance(st, ast.Assign) and any(isinstance(t, ast.Name) and t.id == e.id for t in st.targets):
                yield from _value_parts(fn, st.value, depth + 1, seen)
            elif isinstance(st, ast.Assign) and any(isinstance(t, ast.Tuple) and any(isinstance(x, ast.Name) and x.id == e.id for x in t.elts) for t in st.targets):
                yield from _value_parts(fn, st.value, depth + 1, seen)


def _is_typ_read(e):
    if isinstance(e, ast.Subscript) and isinstance(e.slice, ast.Constant) and e.slice.value == "typ":
        return True
    return isinstance(e, ast.Call) and isinstance(e.func, ast.Attribute) and e.func.attr == "get" and bool(e.args) and isinstance(e.args[0], ast.Constant) and e.args[0].value == "typ"


def rule_wrap_not_type(prog, rep, tier):
    """WRAP-NOT-TYPE: a declared type is not prose.  `Union[int, str]`, `Literal['a b', 'c']`, `Dict[str, List[float]]` contain
    blanks, and the reader takes the type from one line (or re-joins it with a blank where the writer had none): text that is
    built from the entry's 'typ' never reaches a word-wrapper.  Decided per wrapping site of the entry writers and per element
    of what is wrapped there."""
    roots, entry_fns = entry_emitters(prog)
    sites = [s_ for s_ in wrap_sites(prog) if enclosing_fn(s_[0]) is not None and any(enclosing_fn(s_[0]) is f or enclosing_fn(s_[0]).node is f.node for f in entry_fns)]
    if len(sites) < 2:
        raise AnalysisError("WRAP-NOT-TYPE: only %d wrapping call sites found in the functions that write one documented entry" % len(sites))
    for node, fe, alts, text in sites:
        fn = enclosing_fn(node)
        where = prog.owner_name(fn)
        if text is None:
            continue
        # the elements that are wrapped one by one (map over a tuple / filter), or the one text
        elements = [text]
        if isinstance(node.func, ast.Name) and node.func.id == "map":
            t = text
            while isinstance(t, ast.Call) and isinstance(t.func, ast.Name) and t.func.id in ("filter", "map", "list", "tuple", "iter") and len(t.args) >= 1:
                t = t.args[-1]
            if isinstance(t, (ast.Tuple, ast.List)):
                elements = list(t.elts)
        # the style the site serves: from the comparisons guarding it here and along the call chain from the entry writer
        style = "any"
        for r_ in roots:
            tag = style_path_tag(prog, r_, fn, node, consts=True)
            if tag != "any":
                style = tag
                break
        for el in elements:
            hit = next((p for p in _value_parts(fn, el) if _is_typ_read(p)), None)
            inst = "%s: %s wraps %s" % (where, src(fe, 20), src(el, 40))
            if hit is not None:
                rep.violation(Finding(
                    "WRAP-NOT-TYPE", where, "type-text-wrapped:%s" % style,
                    "the text handed to the word-wrapper (%s) is built from the entry's type (%s): a type with blanks in it that is longer than what is left of the line is "
                    "broken, and it is read back with the break (and the continuation indent) inside it, or not at all" % (src(el, 50), src(hit, 30)), loc(prog, hit)))
            else:
                rep.holds("WRAP-NOT-TYPE", inst, loc(prog, node), "no part of the wrapped text is read from the entry's type")


# ---------------------------------------------------------------------------- DOC-ALL-LINES
def rule_doc_all_lines(prog, rep, tier, entry="docstring_parsers.parse_docstring", package_wide=False):
    """DOC-ALL-LINES (C18, C01): a description can run over several lines (the writer wraps it).  Where a reader builds an entry's
    'doc' from the scanner's lines, it takes all of them (a slice, a join) - a single line picked by a constant index >= 1
    leaves the continuation lines unread (and raises when the block is shorter), unless the length of that very sequence is
    pinned by a `len(..) == n` test on the way."""
    from sa.cfg import facts
    start = prog.fn(entry)
    n = 0
    for f in prog.reachable([start]):
        if f.module is not start.module:
            continue
        for d in ast.walk(f.node):
            if not isinstance(d, ast.Dict):
                continue
            for k, v in zip(d.keys, d.values):
                if not (isinstance(k, ast.Constant) and k.value == "doc"):
                    continue
                for s_ in ast.walk(v):
                    if not (isinstance(s_, ast.Subscript) and isinstance(s_.slice, ast.Constant) and isinstance(s_.slice.value, int) and s_.slice.value >= 1):
                        continue
                    if not isinstance(s_.value, (ast.Subscript, ast.Name)):
                        continue
                    # only sequences that come from the scanner (indexed containers, not tuples unpacked from a partition)
                    if isinstance(s_.value, ast.Name):
                        defs = [st.value for st in ast.walk(f.node) if isinstance(st, ast.Assign) and any(isinstance(t, ast.Name) and t.id == s_.value.id for t in st.targets)]
                        if any(isinstance(x, ast.Call) and isinstance(x.func, ast.Attribute) and x.func.attr in ("partition", "rpartition") for dv in defs for x in ast.walk(dv)):
                            continue
                    n += 1
                    key = dump(s_.value)
                    pinned = False
                    for t, pol in expr_guards(s_, stop=f.node):
                        for atom, p_ in facts(t, pol):
                            if isinstance(atom, ast.Compare) and len(atom.ops) == 1 and isinstance(atom.ops[0], ast.Eq) and p_ and isinstance(atom.left, ast.Call) \
                                    and isinstance(atom.left.func, ast.Name) and atom.left.func.id == "len" and atom.left.args and dump(atom.left.args[0]) == key \
                                    and isinstance(atom.comparators[0], ast.Constant) and atom.comparators[0].value == s_.slice.value + 1:
                                pinned = True
                    inst = "%s: doc from %s" % (prog.owner_name(f), src(s_, 50))
                    if pinned:
                        rep.holds("DOC-ALL-LINES", inst, loc(prog, s_), "the sequence has exactly %d elements there" % (s_.slice.value + 1))
                    else:
                        tag = style_path_tag(prog, start, f, s_)
                        rep.violation(Finding(
                            "DOC-ALL-LINES", prog.owner_name(f), "description-from-one-line:%s" % tag,
                            "the description is taken from the single element %s of the scanned lines: what the writer wrapped onto further lines is dropped when it is "
                            "read back (and a block without that line raises IndexError); the parameter reader of the same style joins `lines[1:]`" % src(s_, 50), loc(prog, s_)))
    # the same mistake in its other spelling, anywhere in the package: `"doc": .. next(<one line of text.split("\n") that starts with a marker>) ..`
    for f in (prog.all_functions() if package_wide else prog.reachable([start])):
        for d in ast.walk(f.node):
            if not isinstance(d, ast.Dict) or enclosing_fn(d) is not f:
                continue
            for k, v in zip(d.keys, d.values):
                if not (isinstance(k, ast.Constant) and k.value == "doc"):
                    continue
                for c in ast.walk(v):
                    if isinstance(c, ast.Call) and isinstance(c.func, ast.Name) and c.func.id == "next" and c.args and isinstance(c.args[0], ast.GeneratorExp) \
                            and any(_is_line_split(x) for g in c.args[0].generators for x in ast.walk(g.iter)):
                        n += 1
                        rep.violation(Finding(
                            "DOC-ALL-LINES", prog.owner_name(f), "description-from-one-line:next-of-lines",
                            "the description is the first line of the text that passes a test (%s): what the writer wrapped onto the following lines is dropped "
                            "when it is read back" % src(c, 70), loc(prog, c)))
    # (continuation clause) the lines after the first are read whether or not anything stands behind the label on the first: the wrapper may
    # break right behind the label (a first word too long for the rest of the line), and the description then starts on the second line.
    # Flagged: a use of `lines[1:]` that stands under a truth test of a text cut out of `lines[0]` (`rest = lines[0].partition(",")[2].strip()`).
    for f in (prog.all_functions() if package_wide else prog.reachable([start])):
        own_assigns = [st for st in ast.walk(f.node) if isinstance(st, ast.Assign) and len(st.targets) == 1 and isinstance(st.targets[0], ast.Name)]
        for s_ in ast.walk(f.node):
            if not (isinstance(s_, ast.Subscript) and isinstance(s_.slice, ast.Slice) and isinstance(s_.slice.lower, ast.Constant) and s_.slice.lower.value == 1
                    and s_.slice.upper is None and isinstance(s_.value, ast.Name)) or enclosing_fn(s_) is not f:
                continue
            seq = s_.value.id
            # a sequence of lines: bound from a split into lines somewhere in the function
            if not any(st.targets[0].id == seq and any(_is_line_split(x) for x in ast.walk(st.value)) for st in own_assigns):
                continue
            n += 1

            def from_first(e, depth=0):
                """e is (cut out of) the first line: `lines[0]`, a str method / index chain on it, or a name bound to one"""
                if isinstance(e, ast.Subscript) and isinstance(e.value, ast.Name) and e.value.id == seq and isinstance(e.slice, ast.Constant) and e.slice.value == 0:
                    return True
                if isinstance(e, ast.Subscript):
                    return from_first(e.value, depth)
                if isinstance(e, ast.Call) and isinstance(e.func, ast.Attribute) and e.func.attr in ("strip", "lstrip", "rstrip", "partition", "rpartition", "split", "rsplit", "replace"):
                    return from_first(e.func.value, depth)
                if isinstance(e, ast.IfExp):
                    return from_first(e.body, depth) or from_first(e.orelse, depth)
                if isinstance(e, ast.Name) and depth < 3:
                    defs = [st.value for st in own_assigns if st.targets[0].id == e.id]
                    return bool(defs) and all(from_first(d, depth + 1) for d in defs)
                return False
            hit = None
            for t, pol in expr_guards(s_, stop=f.node):
                for atom, p_ in facts(t, pol):
                    if p_ and from_first(atom):
                        hit = atom
            inst = "%s: %s" % (prog.owner_name(f), src(s_, 40))
            if hit is not None:
                rep.violation(Finding(
                    "DOC-ALL-LINES", prog.owner_name(f), "continuation-only-behind-text",
                    "%s is read only when %s - what is left of the first line - is not empty: where the wrapper breaks right behind the label (the first word does not fit "
                    "on the rest of that line) the description starts on the second line and is read back empty, while the unwrapped text reads in full" % (src(s_, 40), src(hit, 40)),
                    loc(prog, s_)))
            else:
                rep.holds("DOC-ALL-LINES", inst, loc(prog, s_), "the continuation lines are read whatever the first line holds behind its label")
    if n == 0:
        rep.ob("DOC-ALL-LINES", "no description is taken from a single scanned line", "holds", "", "entries are built from slices / joins of the scanned lines")
