"""
EMPTY-HOLE (C08, C17, C01): the value written behind the default announcement is never the empty text.

The writer of default sentences fills a template `"... Defaults to {default}"`.  The supported domain contains the explicit
empty-string default ''.  If the expression that fills the hole can evaluate to '' the sentence ends in the bare
announcement; the trailing blank is stripped on the way out, the reader (which looks for "defaults to " followed by a value)
does not recognise it, so the default is lost on the way back, and the writer - which decides "already announced" by asking
the reader - appends the sentence again on every pass (`the t. Defaults to. Defaults to. Defaults to`).

A may-be-empty analysis of the hole expression: a constant is empty iff it is ''; `a or b` is what `b` may be; a conditional
expression is either branch; a raw read of the IR's default may be '' (it is in the domain); a call of a package function may
be empty when one of its returns hands its own parameter back on a path an empty argument can take (an *identity return*
whose guard is, or contains as an alternative, an emptiness test of that parameter, or no guard at all).  Only the
alternatives that pass through a quoting call are judged: the other branch is taken for values that are not strings.
"""
import ast

from sa.cfg import expr_guards
from sa.cfg import facts as _facts
from sa.consteval import Folder
from sa.model import AnalysisError, Finding, FunctionInfo, enclosing_fn, loc, names_in, order_key, src


def _is_emptiness_test(t, p):
    """`len(p) == 0`, `not p`, `p == ""`, `not len(p)`"""
    if isinstance(t, ast.Compare) and len(t.ops) == 1 and isinstance(t.ops[0], ast.Eq):
        l, r = t.left, t.comparators[0]
        if isinstance(l, ast.Call) and isinstance(l.func, ast.Name) and l.func.id == "len" and l.args and isinstance(l.args[0], ast.Name) and l.args[0].id == p \
                and isinstance(r, ast.Constant) and r.value == 0:
            return True
        if isinstance(l, ast.Name) and l.id == p and isinstance(r, ast.Constant) and r.value == "":
            return True
    if isinstance(t, ast.UnaryOp) and isinstance(t.op, ast.Not):
        o = t.operand
        if isinstance(o, ast.Name) and o.id == p:
            return True
        if isinstance(o, ast.Call) and isinstance(o.func, ast.Name) and o.func.id == "len" and o.args and isinstance(o.args[0], ast.Name) and o.args[0].id == p:
            return True
    return False


def _needs_nonempty(t, p):
    """the condition reads a character of p (`p[0]`), tests `len(p) > 0` / `p` truthy: an empty p does not satisfy it"""
    for n in ast.walk(t):
        if isinstance(n, ast.Subscript) and isinstance(n.value, ast.Name) and n.value.id == p:
            return True
    if isinstance(t, ast.Name) and t.id == p:
        return True
    if isinstance(t, ast.Compare) and len(t.ops) == 1 and isinstance(t.ops[0], (ast.Gt, ast.GtE, ast.NotEq)) and isinstance(t.left, ast.Call) \
            and isinstance(t.left.func, ast.Name) and t.left.func.id == "len":
        return True
    return False


def _guard_admits_empty(t, pol, p):
    """can an empty string p make (t is pol)?  None = the condition does not speak about p"""
    if not (p in names_in(t)):
        return None
    if pol:
        if isinstance(t, ast.BoolOp) and isinstance(t.op, ast.Or):
            rs = [_guard_admits_empty(v, True, p) for v in t.values]
            return True if any(r is True for r in rs) else (False if all(r is False for r in rs) else None)
        if isinstance(t, ast.BoolOp) and isinstance(t.op, ast.And):
            rs = [_guard_admits_empty(v, True, p) for v in t.values]
            return False if any(r is False for r in rs) else (True if all(r is True for r in rs) else None)
        if _is_emptiness_test(t, p):
            return True
        if _needs_nonempty(t, p):
            return False
        if isinstance(t, ast.Compare) and isinstance(t.ops[0], (ast.Is,)) and isinstance(t.comparators[0], ast.Constant) and t.comparators[0].value is None:
            return False  # `p is None`: not a string at all
        if isinstance(t, ast.Call) and isinstance(t.func, ast.Name) and t.func.id == "isinstance" and len(t.args) == 2 and isinstance(t.args[0], ast.Name) and t.args[0].id == p:
            names = {n.id for n in ast.walk(t.args[1]) if isinstance(n, ast.Name)}
            if names and not (names & {"str", "object", "Sized", "Sequence"}):
                return False  # a test for other types: a string, empty or not, does not pass it
        return None
    # the condition must be false
    if _is_emptiness_test(t, p):
        return False
    if isinstance(t, ast.BoolOp) and isinstance(t.op, ast.Or):
        rs = [_guard_admits_empty(v, False, p) for v in t.values]
        return False if any(r is False for r in rs) else (True if all(r is True for r in rs) else None)
    if _needs_nonempty(t, p):
        return True
    return None


def _expr_emptiness(t):
    """(dump of E, polarity) when the test says E is empty (True) / non-empty (False): `E == ""`, `not E`, `len(E) == 0`, `E`, `E != ""`, `len(E) > 0`"""
    if isinstance(t, ast.UnaryOp) and isinstance(t.op, ast.Not):
        r = _expr_emptiness(t.operand)
        return (r[0], not r[1]) if r else None
    if isinstance(t, ast.BoolOp) and isinstance(t.op, ast.And):
        # `isinstance(E, str) and E == ""`: the question is asked about the empty *string*, for which the type test holds
        rest = [v for v in t.values if not (isinstance(v, ast.Call) and isinstance(v.func, ast.Name) and v.func.id == "isinstance" and len(v.args) == 2
                                            and "str" in {n.id for n in ast.walk(v.args[1]) if isinstance(n, ast.Name)})]
        if len(rest) == 1 and len(rest) < len(t.values):
            r = _expr_emptiness(rest[0])
            dropped = [v for v in t.values if v is not rest[0]]
            if r is not None and all(ast.dump(v.args[0]) == r[0] for v in dropped):
                return r
        return None
    if isinstance(t, ast.Compare) and len(t.ops) == 1:
        l, r, op = t.left, t.comparators[0], t.ops[0]
        if isinstance(r, ast.Constant) and r.value == "" and isinstance(op, (ast.Eq, ast.NotEq)):
            return ast.dump(l), isinstance(op, ast.Eq)
        if isinstance(l, ast.Call) and isinstance(l.func, ast.Name) and l.func.id == "len" and l.args and isinstance(r, ast.Constant) and r.value == 0:
            if isinstance(op, ast.Eq):
                return ast.dump(l.args[0]), True
            if isinstance(op, (ast.Gt, ast.NotEq)):
                return ast.dump(l.args[0]), False
        return None
    if isinstance(t, (ast.Name, ast.Subscript, ast.Attribute)):
        return ast.dump(t), False
    return None


class Hole(object):
    def __init__(self, prog):
        self.prog = prog
        self.why = []
        self.nonempty = set()  # dumps of expressions known to be non-empty where the analysis currently stands

    def fn_may_return_empty(self, fi, p, depth):
        """some return of fi hands parameter p back (or something that may be empty) on a path an empty p can take"""
        for r in ast.walk(fi.node):
            if not isinstance(r, ast.Return) or r.value is None:
                continue
            v = r.value
            identity = isinstance(v, ast.Name) and v.id == p
            if not identity:
                # `return quote(p)`: empty when the inner step hands an empty p back - unless a guard on the way has excluded it
                if depth < 4 and isinstance(v, ast.Call) and any(isinstance(a, ast.Name) and a.id == p for a in v.args) \
                        and not any(_guard_admits_empty(t, pol, p) is False for t, pol in expr_guards(r, stop=fi.node)) \
                        and self.may_be_empty(v, fi, depth + 1):
                    return True
                continue
            guards = list(expr_guards(r, stop=fi.node))
            verdicts = [_guard_admits_empty(t, pol, p) for t, pol in guards]
            if any(x is False for x in verdicts):
                continue
            # `if not needs_quoting(typ): return default`: the arm for the types that are written bare - the rule judges what goes
            # through the quoting step (an inline `quote(d) if needs_quoting(typ) else d` is read the same way, see _passes_quoting)
            if any(isinstance(c, ast.Call) and isinstance(c.func, (ast.Name, ast.Attribute)) and not pol_ and any(
                    isinstance(t_, FunctionInfo) and t_.qualname.endswith("needs_quoting") for t_ in self.prog.resolve_expr_fn(c.func, c))
                    for g, pol in guards for c, pol_ in _facts(g, pol)):
                continue
            self.why.append("%s returns its argument unchanged %s (%s)" % (
                fi.qualname, "when it is empty" if any(x is True for x in verdicts) else "on a path an empty argument can take", loc(self.prog, r)))
            return True
        return False

    def may_be_empty(self, e, at_fn, depth=0):
        if depth > 5:
            return True
        if isinstance(e, ast.Constant):
            return e.value == "" or e.value is None
        if isinstance(e, ast.BoolOp) and isinstance(e.op, ast.Or):
            return self.may_be_empty(e.values[-1], at_fn, depth + 1)
        if isinstance(e, ast.IfExp):
            em = _expr_emptiness(e.test)
            out = False
            for branch, taken_when_true in ((e.body, True), (e.orelse, False)):
                added = None
                if em is not None and em[1] != taken_when_true and em[0] not in self.nonempty:
                    added = em[0]  # in this branch the tested expression is known to be non-empty
                    self.nonempty.add(added)
                try:
                    out = self.may_be_empty(branch, at_fn, depth + 1) or out
                finally:
                    if added is not None:
                        self.nonempty.discard(added)
            return out
        if isinstance(e, ast.JoinedStr):
            return all(self.may_be_empty(v.value if isinstance(v, ast.FormattedValue) else v, at_fn, depth + 1) for v in e.values)
        if isinstance(e, ast.BinOp) and isinstance(e.op, ast.Add):
            return self.may_be_empty(e.left, at_fn, depth + 1) and self.may_be_empty(e.right, at_fn, depth + 1)
        if isinstance(e, ast.Call) and isinstance(e.func, ast.Attribute) and e.func.attr == "format" and isinstance(e.func.value, ast.Constant):
            import string
            lits = [lit for lit, _, _, _ in string.Formatter().parse(e.func.value.value) if lit]
            return not lits and all(self.may_be_empty(a, at_fn, depth + 1) for a in list(e.args) + [k.value for k in e.keywords])
        if isinstance(e, ast.Call) and isinstance(e.func, (ast.Name, ast.Attribute)):
            tg = [t for t in self.prog.resolve_expr_fn(e.func, e) if isinstance(t, FunctionInfo) and isinstance(t.node, ast.FunctionDef)]
            if len(tg) == 1 and e.args:
                t = tg[0]
                pn = t.params()
                if self.may_be_empty(e.args[0], at_fn, depth + 1) and pn:
                    return self.fn_may_return_empty(t, pn[0], depth + 1)
                return False
            return False  # an external / unresolved call: not judged
        if isinstance(e, (ast.Subscript, ast.Name, ast.Attribute)):
            return ast.dump(e) not in self.nonempty  # a value of the IR: '' is in the domain, unless a guard has just excluded it
        return False


def _passes_quoting(prog, e):
    """the alternatives of a hole expression that go through a call of a package function (the quoting step)"""
    if isinstance(e, ast.IfExp) and _expr_emptiness(e.test) is None:
        return _passes_quoting(prog, e.body) + _passes_quoting(prog, e.orelse)
    if any(isinstance(c, ast.Call) and any(isinstance(t, FunctionInfo) for t in prog.resolve_expr_fn(c.func, c)) for c in ast.walk(e) if isinstance(c, ast.Call) and isinstance(c.func, (ast.Name, ast.Attribute))):
        return [e]
    return []


def _announcement_holes(fi, R, norm):
    """(template node, announcement, hole expression) for every string the function builds that holds an announcement of the
    reader followed by a value: `"..Defaults to {x}".format(x=E)`, f"..Defaults to {E}", `"..Defaults to " + E`"""
    import string
    out = []
    for c in ast.walk(fi.node):
        if isinstance(c, ast.Call) and isinstance(c.func, ast.Attribute) and c.func.attr == "format" and isinstance(c.func.value, ast.Constant) and isinstance(c.func.value.value, str):
            tpl = c.func.value.value
            hit = next((r for r in R if norm(r).strip() in norm(tpl)), None)
            if hit is None:
                continue
            after, auto = None, 0
            for lit, name, _, _ in string.Formatter().parse(tpl):
                if name is None:
                    continue
                idx = name
                if name == "":
                    idx, auto = str(auto), auto + 1
                if lit and norm(hit).strip() in norm(lit):
                    after = idx
            if after is None:
                continue
            hole = next((k.value for k in c.keywords if k.arg == after), None)
            if hole is None and after.isdigit() and int(after) < len(c.args):
                hole = c.args[int(after)]
            if hole is not None:
                out.append((c, hit, hole))
        elif isinstance(c, ast.JoinedStr):
            prev = None
            for v in c.values:
                if isinstance(v, ast.FormattedValue) and prev is not None:
                    out.append((c, prev, v.value))
                prev = None
                if isinstance(v, ast.Constant) and isinstance(v.value, str):
                    prev = next((r for r in R if norm(v.value).rstrip().endswith(norm(r).strip())), None)
        elif isinstance(c, ast.BinOp) and isinstance(c.op, ast.Add) and isinstance(c.left, ast.Constant) and isinstance(c.left.value, str):
            hit = next((r for r in R if norm(c.left.value).rstrip().endswith(norm(r).strip())), None)
            if hit is not None:
                out.append((c, hit, c.right))
    return out


def _name_alternatives(fi, name, before):
    """what a local / parameter may hold where it is used: the values assigned to it earlier in the function, and the
    parameter itself when some path leaves it as it came"""
    vals = []
    for st in ast.walk(fi.node):
        if isinstance(st, ast.Assign) and any(isinstance(t, ast.Name) and t.id == name for t in st.targets) and (st.lineno, st.col_offset) < (before.lineno, before.col_offset):
            st.value._assigned_by = st  # the guards of the assignment (`if d == "": x = '""'` / `else: x = quote(d)`) belong to the alternative
            vals.append(st.value)
    if name in fi.params():
        vals.append(ast.Name(id=name, ctx=ast.Load()))
    return vals


def rule_empty_hole(prog, rep, tier, writer="defaults_utils.set_default_doc"):
    """EMPTY-HOLE: the expression written behind the default announcement cannot be the empty text for a string default."""
    from sa.rules.table import _announce_reader
    folder = Folder(prog)
    R, casefold, _ = _announce_reader(prog, folder)
    norm = (lambda s: s.casefold()) if casefold else (lambda s: s)
    fi0 = prog.fn(writer)
    n = 0
    for fi in prog.region(fi0):
        for c, hit, hole in _announcement_holes(fi, R, norm):
            exprs = [hole]
            if isinstance(hole, ast.Name):
                exprs = _name_alternatives(fi, hole.id, c) or [hole]
            alts = []
            for e in exprs:
                for a in _passes_quoting(prog, e):
                    if getattr(e, "_assigned_by", None) is not None:
                        a._assigned_by = e._assigned_by
                    alts.append(a)
            if not alts:
                rep.ob("EMPTY-HOLE", "%s: %s" % (prog.owner_name(fi), src(hole, 60)), "unresolved", loc(prog, hole), "no quoting step in the value written behind the announcement")
                continue
            for alt in alts:
                n += 1
                h = Hole(prog)
                st_ = getattr(alt, "_assigned_by", None)
                if st_ is not None:
                    for t, pol in expr_guards(st_, stop=fi.node):
                        em = _expr_emptiness(t)
                        if em is not None and em[1] != pol:
                            h.nonempty.add(em[0])  # this assignment is only reached when that expression is not empty
                if h.may_be_empty(alt, fi):
                    rep.violation(Finding(
                        "EMPTY-HOLE", prog.owner_name(fi), "announced-value-may-be-empty",
                        "the value written behind %r (%s) is the empty text for the explicit default '': %s. The sentence then ends in the bare announcement, the reader does not "
                        "recognise it (it looks for the announcement followed by a value), so the default is lost on the way back and the sentence is appended again on every pass"
                        % (hit.strip(), src(alt, 50), "; ".join(h.why) or "the expression may be empty"), loc(prog, alt)))
                else:
                    rep.holds("EMPTY-HOLE", "%s: %s" % (prog.owner_name(fi), src(alt, 60)), loc(prog, alt), "cannot be the empty text: a quoted pair or a non-empty fallback is written for ''")
    if n == 0:
        raise AnalysisError("EMPTY-HOLE: the template that writes the default announcement followed by a value was not found in %s" % writer)


# ---------------------------------------------------------------------------- INVENTED-DEFAULT
def _writes_default(fn_node):
    """assignments `X["default"] = V` in fn_node (own body)"""
    out = []
    for st in ast.walk(fn_node):
        if isinstance(st, ast.Assign):
            for t in st.targets:
                if isinstance(t, ast.Subscript) and isinstance(t.slice, ast.Constant) and t.slice.value == "default":
                    out.append((st, st.value))
    return out


def rule_invented_default(prog, rep, tier, entry="docstring_parsers.parse_docstring", reader="defaults_utils.extract_default"):
    """INVENTED-DEFAULT (C01, C07): on the docstring reader's path a default is only ever taken from the text.  A function that,
    when one of its flag parameters is true, writes the IR key 'default' with a value that does not come from the default reader
    (a zero value of the declared type, a None placeholder) *invents* a default; every call of it reachable from the docstring
    parser must pass that flag as a constant false (or leave it at a false default).  Otherwise a parameter whose text
    announces no default comes back with one: the round trip changes the description, and a parameter Python sees as required is
    reported as optional."""
    n_writes = 0
    inventors = []  # (FunctionInfo, flag parameter, assignment)
    for fi in prog.all_functions():
        ws = _writes_default(fi.node)
        if not ws:
            continue
        # names holding what the reader extracted
        derived = set()
        for st in ast.walk(fi.node):
            if isinstance(st, ast.Assign) and any(isinstance(c, ast.Call) and prog.is_fn(c.func, reader, c) for c in ast.walk(st.value)):
                for t in st.targets:
                    derived |= names_in(t)
        for st, v in ws:
            n_writes += 1
            if names_in(v) & derived:
                continue
            if any(isinstance(c, ast.Subscript) and isinstance(c.slice, ast.Constant) and c.slice.value == "default" for c in ast.walk(v)):
                continue  # rewrites the default that is already there (normalisation), not an invention
            flags = set()
            for t, pol in expr_guards(st, stop=fi.node):
                if pol:
                    for x in (t.values if isinstance(t, ast.BoolOp) and isinstance(t.op, ast.And) else [t]):
                        if isinstance(x, ast.Name) and x.id in fi.params():
                            flags.add(x.id)
            for q in sorted(flags):
                inventors.append((fi, q, st))
    if n_writes < 2:
        raise AnalysisError("INVENTED-DEFAULT: only %d writes of the IR key 'default' found in the package" % n_writes)
    start = prog.fn(entry)
    region = prog.reachable([start])
    n = 0
    seen_calls = set()
    for fi, q, st in inventors:
        a = fi.node.args
        pos = [x.arg for x in a.posonlyargs + a.args]
        defaults = dict(zip(pos[len(pos) - len(a.defaults):], a.defaults))
        defaults.update({x.arg: d for x, d in zip(a.kwonlyargs, a.kw_defaults) if d is not None})
        dflt = defaults.get(q)
        for g in region:
            for c in ast.walk(g.node):
                if not isinstance(c, ast.Call):
                    continue
                bound = None
                is_partial = isinstance(c.func, (ast.Name, ast.Attribute)) and prog.ext_name(c.func, c) == "functools.partial" and c.args
                tgt_expr = c.args[0] if is_partial else c.func
                if not any(t is fi for t in prog.resolve_expr_fn(tgt_expr, c)):
                    continue
                if (id(c), q) in seen_calls:
                    continue
                seen_calls.add((id(c), q))
                top = g
                while top.parent_fn is not None:
                    top = top.parent_fn
                kw = next((k.value for k in c.keywords if k.arg == q), None)
                args = c.args[1:] if is_partial else c.args
                if kw is None and q in pos and pos.index(q) < len(args):
                    kw = args[pos.index(q)]
                if kw is None and is_partial:
                    continue  # not bound here; judged where the partial is called
                val = kw if kw is not None else dflt
                n += 1
                from sa.rules.wrap import style_path_tag
                tag = style_path_tag(prog, start, g, c)
                inst = "%s -> %s(%s=%s) [%s path]" % (g.qualname, fi.qualname, q, src(val, 40) if val is not None else "<required>", tag)
                if isinstance(val, ast.Constant) and not val.value:
                    rep.holds("INVENTED-DEFAULT", inst, loc(prog, c), "the flag is a constant false: no default is invented on this path")
                else:
                    rep.violation(Finding(
                        "INVENTED-DEFAULT", prog.owner_name(top), "default-invented:%s:%s" % (q, tag),
                        "%s calls %s with %s=%s, which is not a constant false: when it is true, %s writes a default the text does not announce (%s). A documented parameter "
                        "without a default comes back with one (0, '', a None placeholder), so parse(emit(IR)) differs from IR and a parameter Python sees as required is reported as optional"
                        % (g.qualname, fi.qualname, q, src(val, 50) if val is not None else "?", fi.qualname, src(st, 70)), loc(prog, c)))
    rep.ob("INVENTED-DEFAULT", "%d writes of 'default', %d flag-controlled inventions, %d call sites on the docstring reader's path" % (n_writes, len(inventors), n), "holds", "", "listed above")


# ---------------------------------------------------------------------------- DEFAULT-KIND
STR_ONLY_METHODS = {"strip", "lstrip", "rstrip", "startswith", "endswith", "split", "rsplit", "splitlines", "partition", "rpartition", "replace", "lower", "upper", "casefold",
                    "join", "isdecimal", "isdigit", "isnumeric", "isalpha", "isspace", "encode", "count", "find", "index", "title", "capitalize", "zfill", "format"}


def rule_default_kind(prog, rep, tier, scope=None):
    """DEFAULT-KIND: a default in the IR is a str, an int, a float, a bool or None (the domain of every round-trip property).
    An operation only a str has - a str method, len(), indexing - applied to a read of the IR key 'default' needs evidence that
    this default is a str: an enclosing `isinstance(<it>, str)`, a package predicate that makes that test (`code_quoted`), or a
    comparison of it with a str constant.  A truth test is no such evidence (5 and True are truthy)."""
    from sa.rules.falsy import _default_names, _is_default_read
    fns = list(scope) if scope is not None else list(prog.all_functions())
    # package predicates whose body tests isinstance(<first parameter>, str)
    str_preds = set()
    for f in prog.all_functions():
        pn = f.params()
        if pn and any(isinstance(c, ast.Call) and isinstance(c.func, ast.Name) and c.func.id == "isinstance" and len(c.args) == 2 and isinstance(c.args[0], ast.Name)
                      and c.args[0].id == pn[0] and "str" in {n.id for n in ast.walk(c.args[1]) if isinstance(n, ast.Name)} for c in ast.walk(f.node)):
            str_preds.add(f.qualname)
    n = 0
    for fi in fns:
        dn = _default_names(prog, fi)
        for node in ast.walk(fi.node):
            target, what = None, None
            if isinstance(node, ast.Call) and isinstance(node.func, ast.Attribute) and node.func.attr in STR_ONLY_METHODS:
                target, what = node.func.value, ".%s(...)" % node.func.attr
            elif isinstance(node, ast.Call) and isinstance(node.func, ast.Name) and node.func.id == "len" and node.args:
                target, what = node.args[0], "len(...)"
            elif isinstance(node, ast.Call) and node.args and (prog.ext_name(node.func, node) if isinstance(node.func, (ast.Name, ast.Attribute)) else None) == "ast.parse":
                target, what = node.args[0], "ast.parse(...)"   # takes source text: compile() raises TypeError for 0 / 5 / True
            elif isinstance(node, ast.Subscript) and not (isinstance(node.slice, ast.Constant) and isinstance(node.slice.value, str)):
                target, what = node.value, "indexing"
            if target is None:
                continue
            is_default = _is_default_read(target) or (isinstance(target, ast.Name) and target.id in dn)
            if not is_default:
                continue
            n += 1

            def read_key(x):
                """`X["default"]` and `X.get("default")` are the same read"""
                if isinstance(x, ast.Subscript) and isinstance(x.slice, ast.Constant) and x.slice.value == "default":
                    return "default-of:" + ast.dump(x.value)
                if isinstance(x, ast.Call) and isinstance(x.func, ast.Attribute) and x.func.attr == "get" and x.args and isinstance(x.args[0], ast.Constant) \
                        and x.args[0].value == "default":
                    return "default-of:" + ast.dump(x.func.value)
                return ast.dump(x)
            key = read_key(target)
            evidence = None
            from sa.model import enclosing_fn
            from sa.cfg import facts
            atoms = [(a, p_) for t, pol in expr_guards(node, stop=fi.node) for a, p_ in facts(t, pol)]
            for c, pol in atoms:
                if not pol:
                    continue
                if isinstance(c, ast.Call) and isinstance(c.func, ast.Name) and c.func.id == "isinstance" and len(c.args) == 2 and read_key(c.args[0]) == key \
                        and "str" in {x.id for x in ast.walk(c.args[1]) if isinstance(x, ast.Name)}:
                    evidence = "isinstance(.., str)"
                elif isinstance(c, ast.Call) and isinstance(c.func, ast.Name) and c.func.id == "hasattr" and len(c.args) == 2 and read_key(c.args[0]) == key \
                        and isinstance(c.args[1], ast.Constant) and c.args[1].value in ("__len__", "__getitem__") and what in ("len(...)", "indexing"):
                    evidence = "hasattr(.., %r)" % c.args[1].value
                elif isinstance(c, ast.Call) and c.args and read_key(c.args[0]) == key and isinstance(c.func, (ast.Name, ast.Attribute)) \
                        and any(isinstance(tt, FunctionInfo) and tt.qualname in str_preds for tt in prog.resolve_expr_fn(c.func, c)):
                    evidence = "%s(..) tests isinstance(.., str)" % src(c.func, 30)
                elif isinstance(c, ast.Compare) and len(c.ops) == 1 and isinstance(c.ops[0], ast.Eq) and \
                        ((read_key(c.left) == key and isinstance(c.comparators[0], ast.Constant) and isinstance(c.comparators[0].value, str))
                         or (read_key(c.comparators[0]) == key and isinstance(c.left, ast.Constant) and isinstance(c.left.value, str))):
                    evidence = "compared equal to a str constant"
            if evidence is None:
                # a compound guard: in every alternative under which the operation is reached the default is a str, or is none of
                # the kinds a default can be (`not (d is None or isinstance(d, (float, int, str)))`: nothing of the domain is left)
                alts = [[]]
                for t, pol in expr_guards(node, stop=fi.node):
                    alts = [a + b for a in alts for b in _dnf(t, pol)][:128]

                def settled(alt):
                    excluded, not_none = set(), False
                    for c, pol in alt:
                        if isinstance(c, ast.Call) and isinstance(c.func, ast.Name) and c.func.id == "isinstance" and len(c.args) == 2 and read_key(c.args[0]) == key:
                            names = {x.id for x in ast.walk(c.args[1]) if isinstance(x, ast.Name)}
                            if pol and names and names <= {"str"}:
                                return True
                            if not pol:
                                excluded |= names
                        elif isinstance(c, ast.Call) and c.args and read_key(c.args[0]) == key and pol and isinstance(c.func, (ast.Name, ast.Attribute)) \
                                and any(isinstance(tt, FunctionInfo) and tt.qualname in str_preds for tt in prog.resolve_expr_fn(c.func, c)):
                            return True
                        elif isinstance(c, ast.Compare) and len(c.ops) == 1 and isinstance(c.ops[0], ast.Is) and read_key(c.left) == key \
                                and isinstance(c.comparators[0], ast.Constant) and c.comparators[0].value is None and not pol:
                            not_none = True
                    # None, int (bool is an int) and float excluded: of the kinds a default can be only a str is left
                    return not_none and {"int", "float"} <= excluded
                if alts != [[]] and all(settled(a) for a in alts):
                    evidence = "in every alternative of the guard the default is a str (None, int and float are excluded, or it is tested to be a str)"
            where = fi
            while where.parent_fn is not None:
                where = where.parent_fn
            inst = "%s: %s%s" % (prog.owner_name(where), src(target, 50), what)
            if evidence:
                rep.holds("DEFAULT-KIND", inst, loc(prog, node), evidence)
            else:
                rep.violation(Finding(
                    "DEFAULT-KIND", prog.owner_name(where), "str-operation-on-default:%s" % what.strip(".(…)").replace("(...)", ""),
                    "%s is applied to the IR default %s with no test that it is a str: an int, float or bool default (5, True - both truthy) raises here, "
                    "e.g. for a function that returns a literal" % (what, src(target, 50)), loc(prog, node)))
    rep.ob("DEFAULT-KIND", "%d str-only operations on reads of 'default' in %d functions" % (n, len(fns)), "holds", "", "listed above")


# ---------------------------------------------------------------------------- AST-LEAK
AST_KIND_NAMES = {"AST", "expr", "UnaryOp", "BinOp", "Call", "Name", "Attribute", "Tuple", "List", "Dict", "Set", "Subscript", "Lambda", "Str", "Num", "Constant", "NameConstant",
                  "Bytes", "JoinedStr"}
CONVERTERS = {"get_value", "literal_eval", "to_code", "parse_to_scalar", "format", "str", "repr", "unparse"}


def rule_ast_leak(prog, rep, tier, anchors=("docstring_parsers._infer_default",)):
    """AST-LEAK (C03, C07): the reader's default post-processing receives defaults taken from a signature as syntax nodes
    (`-1` is a UnaryOp, `len(xs)` a Call) and must hand back values or code-quoted text.  On every path through the function on
    which the default can still be a syntax node - no branch condition has said it is a str / a constant node / None-like, no
    statement has converted it (get_value, literal_eval, to_code, formatting) - the function may not return: a path that
    assigns something that lets nodes through (`unquote`) or skips the node branch leaves a raw `ast` object in the IR."""
    from sa.rules import nodeflow
    for q in anchors:
        fi = prog.fn(q)
        try:
            it, ends = nodeflow.analyse(prog, fi)
        except nodeflow.TooComplex as x:
            raise AnalysisError("AST-LEAK: %s could not be followed: %s" % (q, x))
        if not ends:
            raise AnalysisError("AST-LEAK: no returning path in %s" % q)
        leaks = [s for s in ends if s.may(nodeflow.KEY)]
        how = "; ".join(sorted({"%s %s" % (k, v) for k, v in it.notes})) or "no helper inlined"
        if leaks:
            s = leaks[0]
            rep.violation(Finding(
                "AST-LEAK", prog.owner_name(fi), "node-default-unconverted",
                "%d of %d abstract end states of %s return while the default can still be a syntax node (a signature default such as -1 or len(xs)): e.g. when %s%s. "
                "The IR then holds a raw ast object where a value or code-quoted text belongs" % (
                    len(leaks), len(ends), q, "; ".join(s.trail) or "no branch is taken",
                    " - `%s` lets a node through unchanged" % src(s.left_at, 50) if s.left_at is not None else ""), loc(prog, s.left_at or fi.node)))
        else:
            rep.holds("AST-LEAK", "%s: %d abstract end states" % (q, len(ends)), loc(prog, fi.node),
                      "in each the default was converted, or a condition has excluded a syntax node (%s)" % how)


# ---------------------------------------------------------------------------- PROSE-GATE
def _key_test(atom, key):
    """('missing'|'present', record expr) when the atom, taken as TRUE, says the record lacks / has (a truthy) `key`; else None.
    Forms: `"k" in X`, `"k" not in X`, `X.get("k")`, `X["k"]`, `X.get("k") is None`, `X.get("k") is not None`"""
    def read(e):
        if isinstance(e, ast.Subscript) and isinstance(e.slice, ast.Constant) and e.slice.value == key:
            return e.value
        if isinstance(e, ast.Call) and isinstance(e.func, ast.Attribute) and e.func.attr == "get" and e.args and isinstance(e.args[0], ast.Constant) and e.args[0].value == key:
            return e.func.value
        return None
    if isinstance(atom, ast.Compare) and len(atom.ops) == 1:
        op, l, r = atom.ops[0], atom.left, atom.comparators[0]
        if isinstance(l, ast.Constant) and l.value == key and isinstance(op, (ast.In, ast.NotIn)):
            return ("present" if isinstance(op, ast.In) else "missing", r)
        if read(l) is not None and isinstance(r, ast.Constant) and r.value is None and isinstance(op, (ast.Is, ast.IsNot, ast.Eq, ast.NotEq)):
            return ("missing" if isinstance(op, (ast.Is, ast.Eq)) else "present", read(l))
        return None
    rec = read(atom)
    if rec is not None:
        return ("present", rec)
    return None


def _key_test_in(test, key):
    """True when the condition tests the record's `key` somewhere, else False"""
    for x in ast.walk(test):
        if isinstance(x, (ast.Compare, ast.Subscript, ast.Call)) and _key_test(x, key) is not None:
            return True
    return False


def _dnf(test, polarity):
    """alternatives (lists of (atom, polarity)) under which `test` has truth value `polarity`"""
    if isinstance(test, ast.UnaryOp) and isinstance(test.op, ast.Not):
        return _dnf(test.operand, not polarity)
    if isinstance(test, ast.BoolOp):
        conj = isinstance(test.op, ast.And) == bool(polarity)
        parts = [_dnf(v, polarity) for v in test.values]
        if conj:
            out = [[]]
            for p in parts:
                out = [a + b for a in out for b in p][:64]
            return out
        return [alt for p in parts for alt in p][:64]
    return [[(test, polarity)]]


def rule_prose_gate(prog, rep, tier, writer="defaults_utils.set_default_doc", entry="emit.docstring"):
    """PROSE-GATE (C01): in a stand-alone docstring the prose line is the only carrier of a default.  Whether the default
    sentence is written may therefore not hang on the parameter *having prose*: (writer clause) the function that writes the
    announcement does not leave in front of it because the record lacks the key 'doc' (or holds an empty one) while a default
    may be there; (call-site clause) on the docstring writer's path no call of that function, and no use of what it returned,
    stands under a test of the IR's own prose - the test belongs on the text that would be written."""
    from sa.cfg import CFG, facts, expr_guards
    from sa.rules.table import _announce_reader
    folder = Folder(prog)
    R, casefold, _ = _announce_reader(prog, folder)
    norm = (lambda s: s.casefold()) if casefold else (lambda s: s)
    W = prog.fn(writer)
    # the statements of W that write the sentence: the template itself, or a call of a helper (of W's region) that holds it
    writers = {id(f.node): f for f in prog.region(W) if _announcement_holes(f, R, norm)}
    if not writers:
        raise AnalysisError("PROSE-GATE: %s no longer writes the default announcement" % writer)
    announcing = set()
    for x in ast.walk(W.node):
        hit = False
        if id(W.node) in writers and any(x is h[0] for h in _announcement_holes(W, R, norm)):
            hit = True
        elif isinstance(x, ast.Call) and isinstance(x.func, (ast.Name, ast.Attribute)):
            hit = any(isinstance(t, FunctionInfo) and t is not W and any(id(r.node) in writers for r in prog.reachable([t])) for t in prog.resolve_expr_fn(x.func, x))
        if hit:
            st_of = x
            while not isinstance(st_of, ast.stmt):
                st_of = st_of._parent
            announcing.add(id(st_of))
    if not announcing:
        raise AnalysisError("PROSE-GATE: no statement of %s writes the default announcement" % writer)
    # ---- writer clause
    # the conditions the announcing statements stand under: a path that came as far as one of them and turned away did so for that
    # condition's reason (flag off, already announced, no default, **kwargs), not because prose is missing
    deciding = set()
    for x in ast.walk(W.node):
        if id(x) in announcing:
            p_ = getattr(x, "_parent", None)
            while p_ is not None and p_ is not W.node:
                if isinstance(p_, (ast.If, ast.While)):
                    deciding.add(id(p_.test))
                p_ = getattr(p_, "_parent", None)
    cfg = CFG(W.node)
    n_paths = n_bad = 0
    example = None
    for path in cfg.paths():
        if path[-1][0].kind != "RETURN":
            continue
        if any(id(node.stmt) in announcing for node, _ in path):
            continue
        if any(label is not None and label[0] not in ("iter", "except") and id(label[0]) in deciding and _key_test_in(label[0], "doc") is False for _, label in path):
            continue
        n_paths += 1
        alts = [[]]
        for node, label in path:
            if label is None or label[0] in ("iter", "except"):
                continue
            alts = [a + b for a in alts for b in _dnf(label[0], label[1])][:256]
        for alt in alts:
            doc_missing = default_missing = no_record = False
            for atom, pol in alt:
                for key in ("doc", "default"):
                    kt = _key_test(atom, key)
                    if kt is None:
                        continue
                    state = kt[0] if pol else {"missing": "present", "present": "missing"}[kt[0]]
                    if key == "doc" and state == "missing":
                        doc_missing = (atom, pol)
                    if key == "default" and state == "missing":
                        default_missing = True
                if isinstance(atom, ast.Compare) and len(atom.ops) == 1 and isinstance(atom.ops[0], ast.Is) and isinstance(atom.comparators[0], ast.Constant) \
                        and atom.comparators[0].value is None and isinstance(atom.left, ast.Name) and pol:
                    no_record = True
            if doc_missing and not default_missing and not no_record:
                n_bad += 1
                example = example or doc_missing
    if example is not None:
        rep.violation(Finding(
            "PROSE-GATE", prog.owner_name(W), "writer-leaves-without-prose",
            "%s returns without writing the default sentence when `%s` is %s, whether or not the record has a default: a parameter that has a default and no prose "
            "(prose is optional) is emitted without its default, and a stand-alone docstring has no other place for it" % (
                writer, src(example[0], 50), "true" if example[1] else "false"), loc(prog, example[0])))
    else:
        rep.holds("PROSE-GATE", "%s: %d returning paths that do not write the sentence" % (writer, n_paths), loc(prog, W.node),
                  "none of them is taken because prose is missing while a default may be present")
    # ---- call-site clause
    ent = prog.fn(entry)
    n_sites = 0
    for fi in prog.reachable([ent]):
        if fi is W:
            continue
        calls = [c for c in ast.walk(fi.node) if isinstance(c, ast.Call) and isinstance(c.func, (ast.Name, ast.Attribute)) and enclosing_fn_of(c) is fi.node
                 and any(t is W for t in prog.resolve_expr_fn(c.func, c))]
        if not calls:
            continue
        derived = set()
        for st in ast.walk(fi.node):
            if isinstance(st, ast.Assign) and any(x in calls for x in ast.walk(st.value)):
                derived |= {t.id for t in st.targets if isinstance(t, ast.Name)}

        def raw_doc_test(atom):
            kt = _key_test(atom, "doc")
            if kt is None:
                return False
            rec = kt[1]
            return not any(x in calls for x in ast.walk(rec)) and not (isinstance(rec, ast.Name) and rec.id in derived)
        uses = list(calls) + [n for n in ast.walk(fi.node) if isinstance(n, ast.Name) and n.id in derived and isinstance(n.ctx, ast.Load)]
        bad = []
        for u in uses:
            n_sites += 1
            for t, pol in expr_guards(u, stop=fi.node):
                for alt in _dnf(t, pol):
                    for atom, p_ in alt:
                        if raw_doc_test(atom):
                            bad.append((u, atom))
        if bad:
            u, atom = bad[0]
            rep.violation(Finding(
                "PROSE-GATE", prog.owner_name(fi), "written-only-with-prose",
                "%d place(s) where the text with the default sentence (%s) is used only under a test of the parameter's own prose (`%s`): a parameter with a default and "
                "no prose gets no line at all, and its default is lost when the docstring is read back" % (len({id(b[0]) for b in bad}), src(u, 40), src(atom, 40)), loc(prog, atom)))
        else:
            rep.holds("PROSE-GATE", "%s: %d use(s) of the written text" % (prog.owner_name(fi), len(uses)), loc(prog, fi.node), "none under a test of the IR's own prose")
    if n_sites == 0:
        raise AnalysisError("PROSE-GATE: no call of %s on the path of %s" % (writer, entry))


def enclosing_fn_of(node):
    p = getattr(node, "_parent", None)
    while p is not None and not isinstance(p, (ast.FunctionDef, ast.AsyncFunctionDef)):
        p = getattr(p, "_parent", None)
    return p


# ---------------------------------------------------------------------------- JOIN-KIND
def rule_join_kind(prog, rep, tier, scope=None, extractor="ast_utils.get_value"):
    """JOIN-KIND (C04, C06): `sep.join(..)` takes strings only.  An element that is what the literal extractor (`get_value`)
    took out of a constant node - a str, but just as well an int, a float, a bool (`choices=(1, 2, 3)`, `Literal[1, 2, 3]`) -
    reaches a join only through something that formats it (`str`, `format`, an f-string, `repr`); a function that can hand its
    argument back unchanged (`identity`, chosen for the types that need no quotes) does not count."""
    from sa.rules import nodeflow
    fns = list(scope) if scope is not None else list(prog.all_functions())
    ext = prog.fn(extractor)
    n = 0

    def alternatives(fi, name):
        """what a local function-valued name may denote: the values assigned to it and the nested functions of that name"""
        out = []
        top = fi
        while top is not None:
            for st in ast.walk(top.node):
                if isinstance(st, ast.Assign) and any(isinstance(t, ast.Name) and t.id == name for t in st.targets):
                    out.append(("expr", st.value))
                if isinstance(st, (ast.FunctionDef, ast.AsyncFunctionDef)) and st.name == name and st is not top.node:
                    out.append(("def", st))
            top = top.parent_fn
        return out

    def may_be_non_str(fi, e, depth=0):
        """a witness (the extractor call) when the value of e can be a non-str literal value"""
        if depth > 5 or e is None:
            return None
        if isinstance(e, (ast.Constant, ast.JoinedStr)):
            return None
        if isinstance(e, ast.IfExp):
            return may_be_non_str(fi, e.body, depth + 1) or may_be_non_str(fi, e.orelse, depth + 1)
        if isinstance(e, ast.Call):
            f = e.func
            if isinstance(f, ast.Attribute):
                return None  # a method result (`"{}".format(x)`, `x.strip()`): a str or not our business
            if isinstance(f, ast.Name) and f.id in ("str", "repr", "format", "ascii"):
                return None
            tg = [t for t in prog.resolve_expr_fn(f, e) if isinstance(t, FunctionInfo)]
            if any(t is ext for t in tg):
                return e
            if not e.args:
                return None
            inner = may_be_non_str(fi, e.args[0], depth + 1)
            if inner is None:
                return None
            # does the callee hand its first argument back?  (a local name may denote several functions: `f = identity` and a
            # nested `def f` chosen under a condition - every one of them counts)
            if tg and any(nodeflow.may_return_param(prog, t, 0) for t in tg if isinstance(t.node, ast.FunctionDef)):
                return inner
            if isinstance(f, ast.Name):
                for kind, alt in alternatives(fi, f.id):
                    if kind == "expr" and isinstance(alt, (ast.Name, ast.Attribute)):
                        for t in prog.resolve_expr_fn(alt, alt):
                            if isinstance(t, FunctionInfo) and isinstance(t.node, ast.FunctionDef) and nodeflow.may_return_param(prog, t, 0):
                                return inner
                    elif kind == "def":
                        p0 = alt.args.args[0].arg if alt.args.args else None
                        if p0 and any(isinstance(r, ast.Return) and isinstance(r.value, ast.Name) and r.value.id == p0 for r in ast.walk(alt)):
                            return inner
            return None
        return None

    for fi in fns:
        for c in ast.walk(fi.node):
            if not (isinstance(c, ast.Call) and isinstance(c.func, ast.Attribute) and c.func.attr == "join" and len(c.args) == 1):
                continue
            if isinstance(c.func.value, ast.Attribute) and c.func.value.attr == "path":
                continue
            arg = c.args[0]
            elts = [arg.elt] if isinstance(arg, (ast.GeneratorExp, ast.ListComp)) else list(arg.elts) if isinstance(arg, (ast.Tuple, ast.List)) else []
            if isinstance(arg, ast.Call) and isinstance(arg.func, ast.Name) and arg.func.id == "map" and len(arg.args) == 2:
                # map(f, xs): the element is f(x)
                fake = ast.copy_location(ast.Call(func=arg.args[0], args=[ast.copy_location(ast.Name(id="_", ctx=ast.Load()), arg)], keywords=[]), arg)
                fake._parent = arg
                elts = [fake] if isinstance(arg.args[0], (ast.Name, ast.Attribute)) else []
            for el in elts:
                n += 1
                w = may_be_non_str(fi, el)
                inst = "%s: %s" % (prog.owner_name(fi), src(c, 60))
                if w is not None:
                    rep.violation(Finding(
                        "JOIN-KIND", prog.owner_name(fi), "join-of-literal-value:%s" % src(c.func.value, 12),
                        "the elements joined by %s are what %s took out of constant nodes, handed on unformatted (%s): a str for 'a', but an int for 1 - "
                        "`choices=(1, 2, 3)` / `Literal[1, 2, 3]` makes the join raise TypeError and the whole function fails to parse" % (
                            src(c, 50), ext.qualname, src(el, 50)), loc(prog, w)))
                else:
                    rep.holds("JOIN-KIND", inst, loc(prog, c), "no element is an unformatted literal value")
    rep.ob("JOIN-KIND", "%d join elements examined in %d functions" % (n, len(fns)), "holds", "", "listed above")


# ---------------------------------------------------------------------------- GETVALUE-PART
def rule_getvalue_part(prog, rep, tier, anchor="ast_utils.get_value"):
    """GETVALUE-PART (C02, C04, C06, C07): the literal extractor answers `node.value` for the nodes that *hold* a value (a
    Constant, an Expr / Return / Assign / AnnAssign statement, a keyword).  Several expression classes of the grammar also have a
    field called `value` that is only a part of them - `np.float32` (Attribute: value = `np`), `table["k"]` (Subscript), a
    named expression, a dict comprehension, a formatted value.  Every branch of the extractor that answers `<node>.value` is
    taken only under a class test that admits none of those (taken from the running interpreter's grammar); `hasattr(node,
    "value")` admits them all, and a default written `np.float32` is read as `np`."""
    import re as _re
    from sa.cfg import CFG, facts
    fi = prog.fn(anchor)
    if not fi.params():
        raise AnalysisError("GETVALUE-PART: %s takes no parameter" % anchor)
    p0 = fi.params()[0]
    # the classes of this interpreter whose `value` field is an expression and that have another content field
    parts = set()
    for name in dir(ast):
        cls = getattr(ast, name)
        if not (isinstance(cls, type) and issubclass(cls, ast.expr)) or "value" not in getattr(cls, "_fields", ()):
            continue
        m = _re.match(r"\w+\((.*)\)", (cls.__doc__ or "").replace("\n", " "))
        if not m:
            continue
        sig = {part.strip().rpartition(" ")[2]: part.strip().rpartition(" ")[0] for part in m.group(1).split(",") if part.strip()}
        if sig.get("value", "").rstrip("?") == "expr" and any(f != "value" and t != "expr_context" for f, t in sig.items()):
            parts.add(name)
    if not {"Attribute", "Subscript"} <= parts:
        raise AnalysisError("GETVALUE-PART: the grammar of this interpreter was not read (%r)" % sorted(parts))
    cfg = CFG(fi.node)
    n = 0
    bad = None
    for path in cfg.paths():
        last = path[-1][0]
        if last.kind != "RETURN":
            continue
        # does this path answer <p0>.value (directly or through a local assigned from it)?
        val_names = set()
        answers = False
        for node, label in path:
            st = node.stmt
            if isinstance(st, ast.Assign) and isinstance(st.value, ast.Attribute) and st.value.attr == "value" and isinstance(st.value.value, ast.Name) and st.value.value.id == p0:
                val_names |= {t.id for t in st.targets if isinstance(t, ast.Name)}
            if isinstance(st, ast.Return) and st.value is not None:
                for x in ast.walk(st.value):
                    if isinstance(x, ast.Attribute) and x.attr == "value" and isinstance(x.value, ast.Name) and x.value.id == p0:
                        answers = True
                    if isinstance(x, ast.Name) and x.id in val_names:
                        answers = True
        if not answers:
            continue
        n += 1
        admitted = set(parts)   # the part-classes this path can still be taken for
        for node, label in path:
            if label is None or label[0] in ("iter", "except"):
                continue
            union = set()
            # the condition with single-return predicate helpers written out (`_is_holder(node)` -> `isinstance(node, _HOLDER_TYPES)`)
            try:
                test_ = prog.see_through(label[0])
            except Exception:
                test_ = label[0]
            for alt in _dnf(test_, label[1]):
                adm = set(admitted)
                for atom, pol in alt:
                    if isinstance(atom, ast.Call) and isinstance(atom.func, ast.Name) and atom.func.id == "isinstance" and len(atom.args) == 2 \
                            and isinstance(atom.args[0], ast.Name) and atom.args[0].id == p0:
                        classes = atom.args[1]
                        if isinstance(classes, ast.Name):
                            # a tuple of classes hoisted into a module constant
                            b = prog.lookup(classes.id, label[0])
                            if b[0] == "value":
                                classes = b[2]
                        names = {x.id for x in ast.walk(classes) if isinstance(x, ast.Name)} | {x.attr for x in ast.walk(classes) if isinstance(x, ast.Attribute)}
                        if pol:
                            adm &= names
                        else:
                            adm -= names
                union |= adm   # the condition holds when one of its alternatives does
            admitted = union
        if admitted and bad is None:
            bad = (path, sorted(admitted))
    if n == 0:
        raise AnalysisError("GETVALUE-PART: no path of %s answers <node>.value" % anchor)
    if bad:
        taken = [src(l[0], 40) + (" is true" if l[1] else " is false") for n_, l in bad[0] if l is not None and l[0] not in ("iter", "except")][-3:]
        rep.violation(Finding(
            "GETVALUE-PART", anchor, "value-of-a-part:%s" % "+".join(bad[1][:3]),
            "%s answers `%s.value` on a path (%s) that %s nodes take too: their `value` is only a part of the expression - a default or an attribute value written "
            "`np.float32` / `table[\"k\"]` is read as `np` / `table`" % (anchor, p0, "; ".join(taken), ", ".join(bad[1])), loc(prog, fi.node)))
    else:
        rep.holds("GETVALUE-PART", "%s: %d path(s) that answer <node>.value" % (anchor, n), loc(prog, fi.node),
                  "each under a class test that admits none of %s" % ", ".join(sorted(parts)))


# ---------------------------------------------------------------------------- LIVE-TYPE
def rule_live_type(prog, rep, tier):
    """LIVE-TYPE (C19, C07): `gen` and the in-memory readers read live objects; the annotation of a signature parameter is an *object*
    (`int`, `typing.Optional[int]`).  The IR's `typ` is source text that is parsed again later.  `str(int)` is `<class 'int'>`: where a
    value derived from an `.annotation` / `.return_annotation` attribute is formatted into `typ`, a class is written by its name
    (`__name__` / `__qualname__`, under an `isinstance(.., type)` / `isclass` test, or through `inspect.formatannotation`); and only a
    class is written by its name.  The annotation is followed through single-assignment locals and into a package helper that
    receives it as an argument (its `return` expressions are judged, under the helper's own conditions)."""
    from sa.cfg import facts
    LIVE_ATTRS = ("annotation", "return_annotation")
    n = 0

    def live_names(fn_node):
        out = set()
        for st in ast.walk(fn_node):
            if isinstance(st, ast.Assign) and len(st.targets) == 1 and isinstance(st.targets[0], ast.Name) and isinstance(st.value, ast.Attribute) \
                    and st.value.attr in LIVE_ATTRS:
                out.add(st.targets[0].id)
        return out

    def judge(fi, roots, names, inst, at):
        """roots: the expressions whose value becomes `typ`; names: local names that hold the live annotation"""
        def is_live(y):
            return (isinstance(y, ast.Attribute) and y.attr in LIVE_ATTRS) or (isinstance(y, ast.Name) and y.id in names)

        def mentions_live(e):
            return any(is_live(y) for y in ast.walk(e))

        def _name_read(e):
            """`<live>.__name__` / `getattr(<live>, "__name__"[, d])` (also `__qualname__`)"""
            if isinstance(e, ast.Attribute) and e.attr in ("__name__", "__qualname__") and mentions_live(e.value):
                return True
            return isinstance(e, ast.Call) and isinstance(e.func, ast.Name) and e.func.id == "getattr" and len(e.args) >= 2 \
                and isinstance(e.args[1], ast.Constant) and e.args[1].value in ("__name__", "__qualname__") and mentions_live(e.args[0])

        def class_test(atom):
            return isinstance(atom, ast.Call) and getattr(atom.func, "id", getattr(atom.func, "attr", "")) in ("isinstance", "isclass") and atom.args \
                and mentions_live(atom.args[0])

        def excluded_for_classes(c):
            """the formatting call stands where the annotation is known not to be a class (`... if isinstance(a, type) else str(a)`)"""
            for t, pol in expr_guards(c, stop=fi.node):
                for atom, p_ in facts(t, pol):
                    if not p_ and (class_test(atom) or _name_read(atom)):
                        # (`getattr(a, "__name__", None) or str(a)`: a class always has a non-empty name, so the right operand is no class)
                        return True
            return False

        def known_class(e):
            return any(p_ and class_test(atom) for t, pol in expr_guards(e, stop=fi.node) for atom, p_ in facts(t, pol))
        formatted, named, by_name = [], [], False
        # what a returned / assigned local holds is judged where it was computed (`name = getattr(a, "__name__", None) ... return name`)
        roots, seen_roots = list(roots), set()
        for root in roots:
            for nm in [x for x in ast.walk(root) if isinstance(x, ast.Name) and isinstance(x.ctx, ast.Load) and x.id not in names]:
                defs = [st_ for st_ in ast.walk(fi.node) if isinstance(st_, ast.Assign) and len(st_.targets) == 1 and isinstance(st_.targets[0], ast.Name)
                        and st_.targets[0].id == nm.id]
                for d_ in defs:
                    if id(d_) not in seen_roots and len(roots) < 24 and mentions_live(d_.value):
                        seen_roots.add(id(d_))
                        roots.append(d_.value)
        for root in roots:
            formatted += [c for c in ast.walk(root) if isinstance(c, ast.Call) and (
                (isinstance(c.func, ast.Attribute) and c.func.attr == "format") or (isinstance(c.func, ast.Name) and c.func.id in ("str", "repr")))
                and any(mentions_live(a_) for a_ in list(c.args) + [k.value for k in c.keywords]) and not excluded_for_classes(c)]
            formatted += [j for j in ast.walk(root) if isinstance(j, ast.JoinedStr) and mentions_live(j) and not excluded_for_classes(j)]
            # (name clause) what is not a class may still answer `__name__`: a subscripted typing alias forwards it to its origin
            # (`typing.List[int].__name__ == 'List'`, `Optional[int].__name__ == 'Optional'` on 3.10+), so the name is the type only of a class
            named += [e for e in ast.walk(root) if _name_read(e) and not known_class(e)]
            by_name = by_name or any(isinstance(c, ast.Call) and getattr(c.func, "id", getattr(c.func, "attr", "")) == "formatannotation" for c in ast.walk(root))
        if formatted and not by_name:
            rep.violation(Finding(
                "LIVE-TYPE", prog.owner_name(fi), "annotation-object-formatted",
                "%s formats the live annotation object into the IR's type: for a class this is \"<class 'int'>\", which no emitter can parse as a type - "
                "gen fails for every annotated function or method" % src(formatted[0], 50), loc(prog, formatted[0])))
        elif named and not by_name:
            rep.violation(Finding(
                "LIVE-TYPE", prog.owner_name(fi), "name-of-a-non-class",
                "%s is written into the IR's type without a test that the annotation is a class: a subscripted typing alias answers the name of its origin "
                "(`typing.List[int].__name__` is 'List', `Optional[int]` gives 'Optional'), so the generated definition loses the element types" % src(named[0], 50),
                loc(prog, named[0])))
        else:
            rep.holds("LIVE-TYPE", inst, loc(prog, at), "a class is written by its name, anything else as `str` writes it")
    for fi in prog.all_functions():   # wherever the package reads a live signature (a private reader may be renamed or split)
        names = live_names(fi.node)
        for st in ast.walk(fi.node):
            if not (isinstance(st, ast.Assign) and any(isinstance(t, ast.Subscript) and isinstance(t.slice, ast.Constant) and t.slice.value == "typ" for t in st.targets)):
                continue
            if not any((isinstance(x, ast.Attribute) and x.attr in LIVE_ATTRS) or (isinstance(x, ast.Name) and x.id in names) for x in ast.walk(st.value)):
                continue
            n += 1
            inst = "%s: %s" % (prog.owner_name(fi), src(st, 60))
            judge(fi, [st.value], names, inst, st)
            # the annotation handed to a package helper: what the helper returns is judged with its parameter as the annotation
            for c in ast.walk(st.value):
                if not (isinstance(c, ast.Call) and isinstance(c.func, (ast.Name, ast.Attribute))):
                    continue
                for t in prog.resolve_expr_fn(c.func, c):
                    if not (isinstance(t, FunctionInfo) and isinstance(t.node, ast.FunctionDef)):
                        continue
                    ps = t.params()
                    recv = {ps[i] for i, a_ in enumerate(c.args) if i < len(ps) and ((isinstance(a_, ast.Attribute) and a_.attr in LIVE_ATTRS) or (isinstance(a_, ast.Name) and a_.id in names))}
                    recv |= {k.arg for k in c.keywords if k.arg and ((isinstance(k.value, ast.Attribute) and k.value.attr in LIVE_ATTRS) or (isinstance(k.value, ast.Name) and k.value.id in names))}
                    if not recv:
                        continue
                    rets = [r.value for r in ast.walk(t.node) if isinstance(r, ast.Return) and r.value is not None and enclosing_fn(r) is t]
                    if rets:
                        n += 1
                        judge(t, rets, recv | live_names(t.node), "%s: what %s returns for the annotation" % (prog.owner_name(fi), t.qualname), t.node)
    if n == 0:
        raise AnalysisError("LIVE-TYPE: no assignment of a live annotation to 'typ' found in the package")


# ---------------------------------------------------------------------------- LIVE-SIG
def rule_live_sig(prog, rep, tier):
    """LIVE-SIG (C19): the reader of live objects meets callables without a docstring and callables without arguments (both are
    in the domain: "functions, annotated or not").  Where it reads a live signature (`inspect.signature`): (first-parameter
    clause) the first parameter is taken with a default - `next(iter(sig.parameters.values()))` raises StopIteration for `def f():`;
    (fallback clause) a description that falls back to a dict display when there is no docstring (`ir = parse(doc) if doc else {}`)
    is not subscripted with a key the display lacks before that key is written."""
    from sa.cfg import facts
    n = 0
    for fi in prog.all_functions():
        sig_names = {t.id for st in ast.walk(fi.node) if isinstance(st, ast.Assign) and isinstance(st.value, ast.Call) and isinstance(st.value.func, (ast.Name, ast.Attribute))
                     and prog.ext_name(st.value.func, st.value) == "inspect.signature" for t in st.targets if isinstance(t, ast.Name)}
        if not sig_names:
            continue
        # first-parameter clause
        for c in ast.walk(fi.node):
            if isinstance(c, ast.Call) and isinstance(c.func, ast.Name) and c.func.id == "next" and len(c.args) == 1 and not c.keywords \
                    and any(isinstance(x, ast.Attribute) and x.attr == "parameters" and isinstance(x.value, ast.Name) and x.value.id in sig_names for x in ast.walk(c.args[0])):
                n += 1
                guarded = any(any(isinstance(x, ast.Attribute) and x.attr == "parameters" for x in ast.walk(a)) and p_ for t, pol in expr_guards(c, stop=fi.node) for a, p_ in facts(t, pol))
                if guarded:
                    rep.holds("LIVE-SIG", "%s: %s" % (prog.owner_name(fi), src(c, 50)), loc(prog, c), "under a test that there are parameters")
                else:
                    rep.violation(Finding(
                        "LIVE-SIG", prog.owner_name(fi), "first-parameter-without-default",
                        "%s takes the first parameter of a live signature with no default: a callable without arguments (`def f():`) makes it raise StopIteration "
                        "(a RuntimeError inside gen's generator)" % src(c, 60), loc(prog, c)))
        # fallback clause
        for st in ast.walk(fi.node):
            if not (isinstance(st, ast.Assign) and len(st.targets) == 1 and isinstance(st.targets[0], ast.Name)):
                continue
            arms = [st.value.body, st.value.orelse] if isinstance(st.value, ast.IfExp) else [st.value]
            displays = [a for a in arms if isinstance(a, ast.Dict)]
            if not displays or len(arms) < 2:
                continue
            name = st.targets[0].id
            written = {k.value for d in displays for k in d.keys if isinstance(k, ast.Constant)}
            pos = lambda x: (x.lineno, x.col_offset)
            end = lambda x: (getattr(x, "end_lineno", x.lineno), getattr(x, "end_col_offset", x.col_offset))
            later = sorted((x for x in ast.walk(fi.node) if hasattr(x, "lineno") and pos(x) > end(st)), key=pos)
            pending = []   # (position after which the keys count as written, keys): `N.update({..})` writes after its argument was evaluated
            for x in later:
                for after, keys in [p_ for p_ in pending if pos(x) >= p_[0]]:
                    written |= keys
                pending = [p_ for p_ in pending if pos(x) < p_[0]]
                if isinstance(x, ast.Subscript) and isinstance(x.value, ast.Name) and x.value.id == name and isinstance(x.slice, ast.Constant):
                    if isinstance(x.ctx, ast.Store):
                        written.add(x.slice.value)
                    elif isinstance(x.ctx, ast.Load) and x.slice.value not in written:
                        n += 1
                        gs = [(a, p_) for t, pol in expr_guards(x, stop=fi.node) for a, p_ in facts(t, pol)]
                        ok = any(isinstance(a, ast.Name) and a.id == name and p_ for a, p_ in gs) or any(
                            isinstance(a, ast.Compare) and isinstance(a.left, ast.Constant) and a.left.value == x.slice.value and isinstance(a.ops[0], ast.In) and p_ for a, p_ in gs)
                        if ok:
                            rep.holds("LIVE-SIG", "%s: %s" % (prog.owner_name(fi), src(x, 40)), loc(prog, x), "guarded")
                        else:
                            rep.violation(Finding(
                                "LIVE-SIG", prog.owner_name(fi), "fallback-display-lacks-key:%s" % x.slice.value,
                                "`%s` falls back to the display %s and is then read with %s, a key the display lacks: a callable without a docstring raises KeyError"
                                % (name, src(displays[0], 20), src(x, 30)), loc(prog, x)))
                        written.add(x.slice.value)
                elif isinstance(x, ast.Call) and isinstance(x.func, ast.Attribute) and x.func.attr == "update" and isinstance(x.func.value, ast.Name) and x.func.value.id == name:
                    keys = {k.arg for k in x.keywords if k.arg} | {k.value for a in x.args if isinstance(a, ast.Dict) for k in a.keys if isinstance(k, ast.Constant)}
                    pending.append((end(x), keys))
                elif isinstance(x, ast.Assign) and any(isinstance(t, ast.Name) and t.id == name for t in x.targets):
                    break   # rebound: what follows is about another value
    if n == 0:
        rep.ob("LIVE-SIG", "no first-parameter read without a default and no fallback display read with a missing key", "holds", "", "in the readers of live signatures")
