"""
ORDER: one named output element per parameter, in mapping order (C02, C03, C04, C06).
SIGCOVER: every signature component reaches the parsed result independent of docstring content (C07).
ALL-PAIR: gen's __all__ pairs 1-1, in order, with the emitted names (C19).
"""
import ast

from sa.cfg import CFG, expr_guards
from sa.model import AnalysisError, Finding, FunctionInfo, dump, enclosing_fn, loc, names_in, src

ORDER_KEEPING = {"map", "list", "tuple", "iter", "chain", "from_iterable"}
ORDER_BREAKING = {"sorted", "reversed", "set", "frozenset", "shuffle", "sample"}


def _is_params_sub(e, irp):
    return (isinstance(e, ast.Subscript) and isinstance(e.slice, ast.Constant) and e.slice.value == "params"
            and isinstance(e.value, ast.Name) and e.value.id == irp)


def _is_params_items(e, irp):
    """e is <ir>["params"].items() (-> "items"), <ir>["params"].keys() or <ir>["params"] iterated directly (-> "keys")"""
    if isinstance(e, ast.Call) and isinstance(e.func, ast.Attribute) and e.func.attr in ("items", "keys") and not e.args and _is_params_sub(e.func.value, irp):
        return e.func.attr
    if _is_params_sub(e, irp) and isinstance(getattr(e, "_parent", None), (ast.comprehension, ast.For)) and e._parent.iter is e:
        return "keys"
    return None


def _name_only_pred(lam):
    """lambda p: <expr over p[0] only>"""
    if not isinstance(lam, ast.Lambda) or len(lam.args.args) != 1:
        return False
    p = lam.args.args[0].arg
    for n in ast.walk(lam.body):
        if isinstance(n, ast.Name) and n.id == p:
            par = n._parent
            if not (isinstance(par, ast.Subscript) and isinstance(par.slice, ast.Constant) and par.slice.value == 0):
                return False
    return True


def _norm_name_expr(b, pname=None, namevar=None):
    """dump of b with `p[0]` / the unpacked name variable replaced by a placeholder; None if b uses anything else of the item"""
    class R(ast.NodeTransformer):
        ok = True

        def visit_Subscript(self, n):
            if pname and isinstance(n.value, ast.Name) and n.value.id == pname and isinstance(n.slice, ast.Constant) and n.slice.value == 0:
                return ast.Name(id="__NAME__", ctx=ast.Load())
            return self.generic_visit(n)

        def visit_Name(self, n):
            if namevar and n.id == namevar:
                return ast.Name(id="__NAME__", ctx=ast.Load())
            if pname and n.id == pname:
                R.ok = False
            return n
    import copy
    R.ok = True
    t = R().visit(copy.deepcopy(b))
    return dump(t) if R.ok else None


def _pred_core(lam):
    b = lam.body
    neg = False
    while isinstance(b, ast.UnaryOp) and isinstance(b.op, ast.Not):
        b, neg = b.operand, not neg
    return _norm_name_expr(b, pname=lam.args.args[0].arg), neg


def _as_lambda(prog, fe, at):
    """The predicate `fe` as a lambda whose body has the single-return helpers it calls written out: a lambda stays one, a
    name bound to a one-parameter single-return function of the package becomes `lambda <param>: <its expression>`."""
    if isinstance(fe, ast.Lambda):
        lam = ast.Lambda(args=fe.args, body=prog.see_through(fe.body))
    else:
        tg = [t for t in prog.resolve_expr_fn(fe, at) if isinstance(t, FunctionInfo)] if isinstance(fe, (ast.Name, ast.Attribute)) else []
        if len(tg) != 1 or not isinstance(tg[0].node, ast.FunctionDef):
            return fe
        fd = tg[0].node
        body = [st for st in fd.body if not (isinstance(st, ast.Expr) and isinstance(st.value, ast.Constant))]
        if len(fd.args.args) != 1 or fd.args.vararg or fd.args.kwarg or fd.args.kwonlyargs or len(body) != 1 or not isinstance(body[0], ast.Return) or body[0].value is None:
            return fe
        lam = ast.Lambda(args=fd.args, body=prog.see_through(body[0].value))
    ast.copy_location(lam, fe)

    def link(n, parent):
        n._parent = parent
        for ch in ast.iter_child_nodes(n):
            if ch is not lam.args:
                link(ch, n)
    lam._parent = getattr(fe, "_parent", None)
    link(lam.body, lam)
    return lam


def _comp_pred_core(target, cond, keys=False, prog=None):
    """(core, negated) of a comprehension condition that depends on the item's name only, else None"""
    if prog is not None:
        cond = prog.see_through(cond)
    b, neg = cond, False
    while isinstance(b, ast.UnaryOp) and isinstance(b.op, ast.Not):
        b, neg = b.operand, not neg
    if keys and isinstance(target, ast.Name):
        core = _norm_name_expr(b, namevar=target.id)
        return (core, neg) if core is not None else None
    if isinstance(target, ast.Tuple) and len(target.elts) == 2 and isinstance(target.elts[0], ast.Name):
        other = {n.id for n in ast.walk(target.elts[1]) if isinstance(n, ast.Name)}
        if {n.id for n in ast.walk(b) if isinstance(n, ast.Name)} & other:
            return None
        core = _norm_name_expr(b, namevar=target.elts[0].id)
    elif isinstance(target, ast.Name):
        core = _norm_name_expr(b, pname=target.id)
    else:
        return None
    return (core, neg) if core is not None else None


def _never_none(prog, fe, at, depth=0):
    """Does the function-valued expression return a non-None value on every path?  (ok, reason)"""
    if isinstance(fe, ast.Lambda):
        b = fe.body
        if isinstance(b, ast.Constant) and b.value is None:
            return False, "lambda returns None"
        if isinstance(b, ast.IfExp) and any(isinstance(x, ast.Constant) and x.value is None for x in (b.body, b.orelse)):
            return False, "lambda may return None: %s" % src(b, 60)
        return True, ""
    if isinstance(fe, ast.Call) and prog.ext_name(fe.func, fe) == "functools.partial" and fe.args:
        return _never_none(prog, fe.args[0], at, depth)
    tg = [t for t in prog.resolve_expr_fn(fe, at) if isinstance(t, FunctionInfo)]
    if len(tg) != 1:
        return None, "callee not resolved"
    fi = tg[0]
    cfg = CFG(fi.node)
    for path in cfg.paths():
        if path[-1][0].kind != "RETURN":
            continue
        rets = [n.stmt for n, _ in path if n.kind == "return"]
        if not rets:
            return False, "%s can fall off its end (returns None)" % fi.qualname
        v = rets[-1].value
        if v is None or (isinstance(v, ast.Constant) and v.value is None):
            return False, "%s has a `return None` path (line %d)" % (fi.qualname, rets[-1].lineno)
        if isinstance(v, ast.IfExp) and any(isinstance(x, ast.Constant) and x.value is None for x in (v.body, v.orelse)):
            return False, "%s may return None: %s" % (fi.qualname, src(v, 50))
        if isinstance(v, ast.Call) and depth < 2 and isinstance(v.func, ast.Name):
            inner = [t for t in prog.resolve_expr_fn(v.func, v) if isinstance(t, FunctionInfo)]
            if len(inner) == 1 and inner[0] is not fi:
                ok, why = _never_none(prog, v.func, v, depth + 1)
                if ok is False:
                    return False, why
    return True, ""


def _key_names(fi, p=None):
    """names of fi bound to element 0 of the parameter p (default: the first), the (name, dict) pair"""
    if not fi.params():
        return set()
    p = p or fi.params()[0]
    out = set()
    for st in ast.walk(fi.node):
        if isinstance(st, ast.Assign) and isinstance(st.targets[0], ast.Tuple) and st.targets[0].elts and isinstance(st.targets[0].elts[0], ast.Name):
            v = st.value
            if isinstance(v, ast.Name) and v.id == p:
                out.add(st.targets[0].elts[0].id)
            elif isinstance(v, ast.Tuple) and v.elts and isinstance(v.elts[0], ast.Subscript) and isinstance(v.elts[0].value, ast.Name) and v.elts[0].value.id == p \
                    and isinstance(v.elts[0].slice, ast.Constant) and v.elts[0].slice.value == 0:
                out.add(st.targets[0].elts[0].id)
    return out


def _walk_through_locals(fi, expr, depth=0):
    """the nodes of expr and, for a local name bound exactly once in fi by a plain assignment (`flag = set_value("--" + name)`), the
    nodes of what it was assigned: a slot prepared in a local is the same slot"""
    for x in ast.walk(expr):
        yield x
        if isinstance(x, ast.Name) and isinstance(x.ctx, ast.Load) and depth < 4 and x.id not in fi.params():
            stores = [t for t in ast.walk(fi.node) if isinstance(t, ast.Name) and t.id == x.id and isinstance(t.ctx, (ast.Store, ast.Del))]
            plain = [st for st in ast.walk(fi.node) if isinstance(st, ast.Assign) and len(st.targets) == 1 and isinstance(st.targets[0], ast.Name) and st.targets[0].id == x.id]
            if len(stores) == 1 and len(plain) == 1:
                yield from _walk_through_locals(fi, plain[0].value, depth + 1)


def _slot_ok_fn(prog, fi, ctor, slot_of, depth=0, keys=None, item="__first__"):
    """every `ctor(...)` built in fi (and in functions it returns the result of) names its slot by the key.
    `item` is the parameter of fi holding the (name, dict) pair, `keys` the names of fi known to hold the parameter's key;
    by default the first parameter is the pair and the keys are what is unpacked from its element 0."""
    if item == "__first__":
        item = fi.params()[0] if fi.params() else None
    p0 = item
    keys = set(keys or ()) | (_key_names(fi, p0) if p0 else set())
    probs, n = [], 0

    def is_key_expr(x):
        return (isinstance(x, ast.Name) and x.id in keys) or \
            (isinstance(x, ast.Subscript) and isinstance(x.value, ast.Name) and x.value.id == p0 and isinstance(x.slice, ast.Constant) and x.slice.value == 0)

    for c in ast.walk(fi.node):
        if isinstance(c, ast.Call) and (c.func.id if isinstance(c.func, ast.Name) else getattr(c.func, "attr", "")) == ctor:
            slot = slot_of(c)
            if slot is None:
                continue
            n += 1
            if not any(is_key_expr(x) for x in _walk_through_locals(fi, slot)):
                probs.append("%s names its element by %s, not by the parameter's key" % (ctor, src(slot, 40)))
    for r in ast.walk(fi.node):
        if isinstance(r, ast.Return) and isinstance(r.value, ast.Call) and depth < 3:
            for t in prog.resolve_expr_fn(r.value.func, r):
                if isinstance(t, FunctionInfo) and t is not fi:
                    # bind the callee's parameters: which of them receive the pair, which the key
                    tp = t.params()
                    bound = list(zip(tp, r.value.args)) + [(k.arg, k.value) for k in r.value.keywords if k.arg in tp]
                    item2, keys2 = None, set()
                    for pn, a in bound:
                        if isinstance(a, ast.Name) and a.id == p0:
                            item2 = pn
                        elif isinstance(a, ast.Tuple) and a.elts and is_key_expr(a.elts[0]):
                            item2 = pn
                        elif is_key_expr(a):
                            keys2.add(pn)
                    if item2 is None and not keys2:
                        n2, p2 = _slot_ok_fn(prog, t, ctor, slot_of, depth + 1)
                    else:
                        n2, p2 = _slot_ok_fn(prog, t, ctor, slot_of, depth + 1, keys=keys2, item=item2)
                    n += n2
                    probs += p2
    return n, probs


def rule_order(prog, rep, tier, only=None):
    """ORDER: in each AST emitter the per-parameter node sequence is an order- and count-preserving image of
    ir["params"].items(): no filter/sort/dedupe in between (except a name-only partition whose complement is consumed),
    the element function never returns None, and the element is named by the parameter's key."""
    specs = [
        ("emit.class_", "AnnAssign", lambda c: next((k.value.args[0] for k in c.keywords if k.arg == "target" and isinstance(k.value, ast.Call) and k.value.args), None)),
        ("emit.argparse_function", "Call", lambda c: (c.keywords and next((k.value.elts[0] for k in c.keywords if k.arg == "args" and isinstance(k.value, ast.List) and k.value.elts), None))),
        ("emit.function", "set_arg", lambda c: next((k.value for k in c.keywords if k.arg == "arg"), c.args[0] if c.args else None)),
    ]
    for q, ctor, slot_of in specs:
        if only is not None and q not in only:
            continue
        fi = prog.fn(q)
        irp = fi.params()[0]
        sources = [n for n in ast.walk(fi.node) if _is_params_items(n, irp)]
        if not sources:
            raise AnalysisError("ORDER: %s no longer iterates %s['params'].items()" % (q, irp))
        filters = []  # (lambda, node) name-only partitions seen
        comp_filters = []  # ((core, negated), node)
        n_seq = 0
        for s in sources:
            # climb the wrappers
            child, p = s, s._parent
            chain = []
            fe = None
            verdict = None
            while p is not None and not isinstance(p, ast.stmt):
                if isinstance(p, ast.Call):
                    nm = p.func.id if isinstance(p.func, ast.Name) else getattr(p.func, "attr", None)
                    if child is p.func:
                        break
                    if nm == "map" and len(p.args) == 2 and p.args[1] is child:
                        fe = p.args[0]
                        chain.append("map")
                        break
                    if nm == "filter" and len(p.args) == 2 and p.args[1] is child:
                        if p.args[0] is None or (isinstance(p.args[0], ast.Constant) and p.args[0].value is None):
                            verdict = "filter(None, ...) over the parameter items"
                            break
                        pred = _as_lambda(prog, p.args[0], p)
                        if _name_only_pred(pred):
                            filters.append((pred, p))
                            chain.append("filter[name]")
                        else:
                            verdict = "filtered by a predicate that looks beyond the parameter name: %s" % src(p.args[0], 60)
                            break
                    elif nm in ("set", "frozenset") and _is_params_items(s, irp) == "keys":
                        break  # a membership set of the parameter names, not an emitted sequence
                    elif nm in ORDER_BREAKING:
                        verdict = "%s(...) between the parameter mapping and the emitted sequence" % nm
                        break
                    elif nm in ORDER_KEEPING or nm in ("next",):
                        chain.append(nm)
                    elif nm in ("OrderedDict", "dict", "frozenset", "len", "bool", "any", "all"):
                        break
                    else:
                        break
                elif isinstance(p, ast.comprehension):
                    comp = p._parent
                    for cond in p.ifs:
                        core = _comp_pred_core(p.target, cond, keys=_is_params_items(s, irp) == "keys", prog=prog)
                        if core is None:
                            verdict = "comprehension condition that looks beyond the parameter name: %s" % src(cond, 60)
                        else:
                            comp_filters.append((core, comp))
                    fe = comp
                    chain.append("comprehension")
                    break
                elif isinstance(p, (ast.Starred, ast.Tuple, ast.List, ast.keyword)):
                    pass
                else:
                    break
                child, p = p, p._parent
            # statement form: `for item in items: [if <name-only test>:] X.append(item | element)`
            if fe is None and verdict is None and isinstance(s._parent, ast.For) and s._parent.iter is s:
                done = _loop_form(prog, rep, fi, q, s, s._parent, ctor, slot_of, comp_filters, irp)
                if done:
                    n_seq += done
                    continue
            # a filtered tuple bound to a name and mapped later: follow one local
            if fe is None and verdict is None:
                st = s
                while not isinstance(st, ast.stmt):
                    st = st._parent
                if isinstance(st, ast.Assign) and isinstance(st.targets[0], ast.Name):
                    var = st.targets[0].id
                    k = _follow_var(prog, rep, fi, q, var, ctor, slot_of)
                    if k:
                        n_seq += k
                        continue
            if verdict:
                n_seq += 1
                rep.violation(Finding("ORDER", q, "sequence:%s" % src(s._parent._parent if s._parent is not None else s, 60),
                                      "the per-parameter sequence of %s is not an order- and count-preserving image of the parameter mapping: %s; parameters can be "
                                      "dropped or reordered without any golden test noticing" % (q, verdict), loc(prog, s)))
            elif fe is not None:
                n_seq += 1
                self_check(prog, rep, fi, q, fe, s, ctor, slot_of, "+".join(chain))
        # partitions must come in complementary pairs
        cores = {}
        first_node = filters[0][1] if filters else (comp_filters[0][1] if comp_filters else None)
        for lam, node in filters:
            core, neg = _pred_core(lam)
            cores.setdefault(core, set()).add(neg)
        for (core, neg), node in comp_filters:
            cores.setdefault(core, set()).add(neg)
        for core, negs in cores.items():
            if negs != {True, False}:
                rep.violation(Finding("ORDER", q, "partition-without-complement",
                                      "%s filters the parameters by name without consuming the complement: the filtered-out parameters are dropped" % q, loc(prog, first_node)))
            else:
                rep.holds("ORDER", "%s: name-only partition with its complement consumed" % q, loc(prog, first_node), "")
        if n_seq == 0:
            raise AnalysisError("ORDER: no per-parameter sequence recognised in %s" % q)


def _follow_var(prog, rep, fi, q, var, ctor, slot_of):
    """uses of a local holding a per-parameter sequence of items: map(f, var) and comprehensions over var"""
    n_seq = 0
    uses = [m for m in ast.walk(fi.node) if isinstance(m, ast.Call) and (m.func.id if isinstance(m.func, ast.Name) else "") == "map" and len(m.args) == 2
            and isinstance(m.args[1], ast.Name) and m.args[1].id == var]
    for m in uses:
        n_seq += 1
        self_check(prog, rep, fi, q, m.args[0], m, ctor, slot_of, "map over %s" % var)
    cuses = [m for m in ast.walk(fi.node) if isinstance(m, (ast.ListComp, ast.GeneratorExp)) and len(m.generators) == 1
             and isinstance(m.generators[0].iter, ast.Name) and m.generators[0].iter.id == var]
    for m in cuses:
        n_seq += 1
        if m.generators[0].ifs:
            rep.violation(Finding("ORDER", q, "sequence:%s" % src(m, 60), "condition in a comprehension over the per-parameter sequence %s: %s" % (var, src(m.generators[0].ifs[0], 50)), loc(prog, m)))
        else:
            self_check(prog, rep, fi, q, m, m, ctor, slot_of, "comprehension over %s" % var)
    return n_seq


def _loop_form(prog, rep, fi, q, s, loop, ctor, slot_of, comp_filters, irp):
    """`for item in <params>.items(): ...` with the per-parameter sequences accumulated by X.append(...).  Every append is
    judged with the conditions that guard it inside the loop: none -> the full image; name-only tests -> a partition
    (recorded, the complement must be consumed too); anything else -> a filter that can drop parameters."""
    keys = _is_params_items(s, irp) == "keys"
    tgt = loop.target
    appends = []
    for c in ast.walk(loop):
        if isinstance(c, ast.Call) and isinstance(c.func, ast.Attribute) and c.func.attr == "append" and isinstance(c.func.value, ast.Name) and len(c.args) == 1 \
                and isinstance(getattr(c, "_parent", None), ast.Expr):
            appends.append((c.func.value.id, c.args[0], c))
    if not appends:
        # a loop that only *picks* by name (`for item in items: if <name test>: x = f(item); break`): it consumes that side
        # of a name-only partition (e.g. the **kwargs entry whose complement a comprehension keeps)
        picked = 0
        for st in ast.walk(loop):
            if isinstance(st, ast.If) and any(isinstance(x, ast.Name) and x.id in names_in(tgt) for b_ in st.body for x in ast.walk(b_)):
                core = _comp_pred_core(tgt, st.test, keys=keys, prog=prog)
                if core is not None:
                    comp_filters.append((core, st))
                    picked += 1
        return picked
    if any(isinstance(x, ast.Break) for x in ast.walk(loop)):
        rep.violation(Finding("ORDER", q, "sequence:break-in-loop", "the loop over the parameter mapping can stop early (break): later parameters are dropped", loc(prog, loop)))
        return 1
    n = 0
    item_vars = set()
    for var, elt, call in appends:
        bad = None
        for t, pol in expr_guards(call, stop=loop):
            core = _comp_pred_core(tgt, t, keys=keys, prog=prog)
            if core is None:
                bad = "an append guarded by a condition that looks beyond the parameter name: %s" % src(t, 60)
                break
            c0, neg = core
            comp_filters.append(((c0, neg != (not pol)), call))
        if bad:
            n += 1
            rep.violation(Finding("ORDER", q, "sequence:%s" % src(call, 60),
                                  "the per-parameter sequence of %s is not an order- and count-preserving image of the parameter mapping: %s" % (q, bad), loc(prog, call)))
            continue
        is_item = dump(elt) == dump(tgt) or (isinstance(elt, ast.Name) and isinstance(tgt, ast.Name) and elt.id == tgt.id)
        if is_item:
            item_vars.add(var)
            continue
        # an element built in place: judge it as the element of a comprehension over the same iteration
        n += 1
        fake = ast.ListComp(elt=elt, generators=[ast.comprehension(target=tgt, iter=s, ifs=[], is_async=0)])
        self_check(prog, rep, fi, q, fake, call, ctor, slot_of, "loop append to %s" % var)
    for var in sorted(item_vars):
        k = _follow_var(prog, rep, fi, q, var, ctor, slot_of)
        n += k
    return n


def self_check(prog, rep, fi, q, fe, at, ctor, slot_of, how):
    ok, why = (True, "") if isinstance(fe, (ast.ListComp, ast.GeneratorExp)) else _never_none(prog, fe, at)
    inst = "%s: %s(%s)" % (q, how, src(fe, 40))
    if ok is False:
        rep.violation(Finding("ORDER", q, "element-may-be-None:%s" % src(fe, 40),
                              "the per-parameter element function can return None (%s): the parameter is dropped by the enclosing filter(None, ...) or breaks the emitted list" % why, loc(prog, at)))
        return
    # name slot
    if isinstance(fe, (ast.ListComp, ast.GeneratorExp)):
        tgt = fe.generators[0].target
        keyvars = {tgt.elts[0].id} if isinstance(tgt, ast.Tuple) and tgt.elts and isinstance(tgt.elts[0], ast.Name) else set()
        pvar = tgt.id if isinstance(tgt, ast.Name) else None
        it_ = fe.generators[0].iter
        if pvar and (_is_params_sub(it_, fi.params()[0]) or (isinstance(it_, ast.Call) and isinstance(it_.func, ast.Attribute) and it_.func.attr == "keys")):
            keyvars, pvar = {pvar}, None  # iteration over the keys: the loop variable is the parameter name
        elt = fe.elt
        if isinstance(elt, ast.Call) and not any(isinstance(c, ast.Call) and (c.func.id if isinstance(c.func, ast.Name) else getattr(c.func, "attr", "")) == ctor for c in ast.walk(elt)):
            # [f(param) for param in items]: judge f
            inner = [t for t in prog.resolve_expr_fn(elt.func, at) if isinstance(t, FunctionInfo)]
            if len(inner) == 1 and len(elt.args) >= 1:
                ok2, why2 = _never_none(prog, elt.func, at)
                if ok2 is False:
                    rep.violation(Finding("ORDER", q, "element-may-be-None:%s" % src(elt.func, 40), "the per-parameter element function can return None (%s)" % why2, loc(prog, at)))
                    return
                n, probs = _slot_ok_fn(prog, inner[0], ctor, slot_of)
                if probs:
                    rep.violation(Finding("ORDER", q, "name-slot:%s" % src(elt.func, 40), "; ".join(sorted(set(probs))), loc(prog, at)))
                elif n:
                    rep.holds("ORDER", inst, loc(prog, at), "one element per parameter, never None, %d construction(s) named by the key" % n)
                else:
                    rep.ob("ORDER", inst, "unresolved", loc(prog, at), "no %s(...) construction found" % ctor)
                return
        cs = [c for c in ast.walk(elt) if isinstance(c, ast.Call) and (c.func.id if isinstance(c.func, ast.Name) else getattr(c.func, "attr", "")) == ctor]
        probs = []
        for c in cs:
            slot = slot_of(c)
            okslot = slot is not None and ((names_in(slot) & keyvars) or (pvar and any(isinstance(x, ast.Subscript) and isinstance(x.value, ast.Name) and x.value.id == pvar
                                                                                       and isinstance(x.slice, ast.Constant) and x.slice.value == 0 for x in ast.walk(slot))))
            if not okslot:
                probs.append("%s(...) is named by %s" % (ctor, src(slot, 40) if slot is not None else "?"))
        n = len(cs)
        if isinstance(elt, ast.Constant) and elt.value is None:
            probs.append("the element is None")
        if probs:
            rep.violation(Finding("ORDER", q, "name-slot:%s" % src(fe, 40), "; ".join(sorted(set(probs))), loc(prog, at)))
        elif n == 0:
            rep.holds("ORDER", inst, loc(prog, at), "one unnamed value per parameter (positional alignment with the named sequence is ALIGN-emit's obligation)")
        else:
            rep.holds("ORDER", inst, loc(prog, at), "one element per parameter, %d construction(s) named by the key" % n)
        return
    if isinstance(fe, ast.Lambda):
        p = fe.args.args[0].arg
        cs = [c for c in ast.walk(fe.body) if isinstance(c, ast.Call) and (c.func.id if isinstance(c.func, ast.Name) else getattr(c.func, "attr", "")) == ctor]
        probs = []
        for c in cs:
            slot = slot_of(c)
            if slot is None or not any(isinstance(x, ast.Subscript) and isinstance(x.value, ast.Name) and x.value.id == p and isinstance(x.slice, ast.Constant) and x.slice.value == 0 for x in ast.walk(slot)):
                probs.append("%s(...) is named by %s" % (ctor, src(slot, 40) if slot is not None else "?"))
        n = len(cs)
    else:
        tgt = fe.args[0] if isinstance(fe, ast.Call) and fe.args else fe
        tg = [t for t in prog.resolve_expr_fn(tgt, at) if isinstance(t, FunctionInfo)]
        if len(tg) != 1:
            rep.ob("ORDER", inst, "unresolved", loc(prog, at), "element function not resolved")
            return
        n, probs = _slot_ok_fn(prog, tg[0], ctor, slot_of)
    if probs:
        rep.violation(Finding("ORDER", q, "name-slot:%s" % src(fe, 40), "; ".join(sorted(set(probs))), loc(prog, at)))
    elif n == 0 and isinstance(fe, ast.Lambda):
        rep.holds("ORDER", inst, loc(prog, at), "one unnamed value per parameter (positional alignment with the named sequence is ALIGN-emit's obligation)")
    elif n == 0:
        rep.ob("ORDER", inst, "unresolved", loc(prog, at), "no %s(...) construction found in the element function" % ctor)
    else:
        rep.holds("ORDER", inst, loc(prog, at), "one element per parameter, never None, %d construction(s) named by the key" % n)


# ---------------------------------------------------------------------------- SIGCOVER
def _pos_domain(target, it, var, folder=None):
    """constants the loop variable `var` takes when `target` iterates over the constant tuple(-of-tuples) `it` (a display
    or a name that folds to one)"""
    val = None
    if folder is not None:
        v = folder.fold(it, {}, it)
        if isinstance(v, (tuple, list)):
            val = v
    if val is None:
        if not isinstance(it, ast.Tuple):
            return set()
        val = []
        for e in it.elts:
            if isinstance(e, ast.Constant):
                val.append(e.value)
            elif isinstance(e, ast.Tuple) and all(isinstance(x, ast.Constant) for x in e.elts):
                val.append(tuple(x.value for x in e.elts))
    if isinstance(target, ast.Name):
        return {e for e in val if isinstance(e, str)}
    if isinstance(target, ast.Tuple):
        idx = next((i for i, t in enumerate(target.elts) if isinstance(t, ast.Name) and t.id == var), None)
        if idx is None:
            return set()
        return {e[idx] for e in val if isinstance(e, (tuple, list)) and len(e) > idx and isinstance(e[idx], str)}
    return set()


def rule_sigcover(prog, rep, tier, anchor="parse.function", components=("args", "kwonlyargs", "kwarg")):
    from sa.consteval import Folder
    folder = Folder(prog)
    fi = prog.inl(prog.fn(anchor))  # aliases of the signature object / accessor partials written out
    fd = fi.params()[0]
    doc_names = {"doc_str", "intermediate_repr"}
    # names that hold the signature object: <fd>.args itself or a local bound once to it
    sig_names = set()
    for st in ast.walk(fi.node):
        if isinstance(st, ast.Assign) and len(st.targets) == 1 and isinstance(st.targets[0], ast.Name) and isinstance(st.value, ast.Attribute) and st.value.attr == "args" \
                and isinstance(st.value.value, ast.Name) and st.value.value.id == fd:
            sig_names.add(st.targets[0].id)

    def is_sig(e):
        return (isinstance(e, ast.Attribute) and e.attr == "args" and isinstance(e.value, ast.Name) and e.value.id == fd) or (isinstance(e, ast.Name) and e.id in sig_names)
    for comp in components:
        sites = []
        hits = []
        for n in ast.walk(fi.node):
            hit = False
            extra_guard = []
            if isinstance(n, ast.Attribute) and n.attr == comp and is_sig(n.value):
                hit = isinstance(n.ctx, ast.Load)
            elif isinstance(n, ast.Call) and isinstance(n.func, ast.Name) and n.func.id == "getattr" and len(n.args) >= 2 and isinstance(n.args[1], ast.Constant) \
                    and n.args[1].value == comp and is_sig(n.args[0]):
                hit = True
            elif isinstance(n, ast.Call) and isinstance(n.func, ast.Name) and n.func.id == "getattr" and len(n.args) == 2 and isinstance(n.args[1], ast.Name) \
                    and is_sig(n.args[0]):
                var = n.args[1].id
                dom = set()
                p = n
                while p is not None and p is not fi.node:
                    gens = getattr(p, "generators", [])
                    for g in gens:
                        if var in names_in(g.target) and not isinstance(g.iter, ast.IfExp):
                            dom |= _pos_domain(g.target, g.iter, var, folder)
                        elif var in names_in(g.target) and isinstance(g.iter, ast.IfExp):
                            a = _pos_domain(g.target, g.iter.body, var, folder)
                            b = _pos_domain(g.target, g.iter.orelse, var, folder)
                            dom |= a & b
                            if comp in (a ^ b):
                                extra_guard.append(g.iter.test)
                                dom.add(comp)
                    if isinstance(p, ast.For) and var in names_in(p.target):
                        dom |= _pos_domain(p.target, p.iter, var, folder)
                    p = getattr(p, "_parent", None)
                hit = comp in dom
            if not hit:
                continue
            hits.append((n, extra_guard))
        # a read bound to a local (`kwarg = getattr(arguments, "kwarg", None)`) feeds the result where the local is used
        expanded, seen_locals = [], set()
        while hits:
            n, extra_guard = hits.pop()
            par = getattr(n, "_parent", None)
            if isinstance(par, ast.Assign) and par.value is n and len(par.targets) == 1 and isinstance(par.targets[0], ast.Name) and par.targets[0].id not in seen_locals:
                lv = par.targets[0].id
                seen_locals.add(lv)
                uses = [u for u in ast.walk(fi.node) if isinstance(u, ast.Name) and u.id == lv and isinstance(u.ctx, ast.Load)]
                hits.extend((u, extra_guard) for u in uses)
                continue
            expanded.append((n, extra_guard))
        for n, extra_guard in expanded:
            # skip reads that are only part of a test / len() / the self-stripping assignment
            par, child, in_test = n._parent, n, False
            while par is not None and not isinstance(par, ast.stmt):
                if isinstance(par, ast.IfExp) and par.test is child:
                    in_test = True
                if isinstance(par, ast.Call) and isinstance(par.func, ast.Name) and par.func.id in ("len", "range", "hasattr") and child in par.args:
                    in_test = True
                if isinstance(par, ast.comprehension) and child in par.ifs:
                    in_test = True
                child, par = par, par._parent
            if isinstance(par, (ast.If, ast.While, ast.Assert)) and child is par.test:
                in_test = True
            if isinstance(par, ast.Assign) and any(isinstance(t, ast.Attribute) and t.attr == comp for t in par.targets):
                in_test = True  # normalisation of the same field (dropping self/cls), not a flow into the result
            if in_test:
                continue
            guards = expr_guards(n, stop=fi.node) + [(t, True) for t in extra_guard]
            docdep = [t for t, pol in guards if names_in(t) & doc_names]
            sites.append((n, docdep))
        if not sites:
            rep.violation(Finding("SIGCOVER", anchor, "component:%s" % comp, "the signature component `%s` is never read into the result" % comp, loc(prog, fi.node)))
        elif all(d for _, d in sites):
            rep.violation(Finding(
                "SIGCOVER", anchor, "component:%s" % comp,
                "every read of the signature component `%s` that feeds the result is guarded by a condition on docstring-derived data (%s): "
                "when the docstring does not mention it, the component is silently dropped from the parsed interface"
                % (comp, src(sites[0][1][0], 80)), loc(prog, sites[0][0])))
        else:
            rep.holds("SIGCOVER", "component `%s` reaches the result unconditionally (%d feeding read(s))" % (comp, len(sites)), loc(prog, sites[0][0]), "")


# ---------------------------------------------------------------------------- ALL-PAIR
def _has_all_ctor(nodes):
    """Call nodes building an Assign(...) node that mentions the constant "__all__" """
    return [c for nd in nodes for c in ast.walk(nd) if isinstance(c, ast.Call) and (c.func.id if isinstance(c.func, ast.Name) else getattr(c.func, "attr", "")) == "Assign"
            and any(isinstance(x, ast.Constant) and x.value == "__all__" for x in ast.walk(c))]


def _resolve_single_def(e, scope_nodes, depth=0):
    """a Name bound exactly once in the scopes -> its value; a lambda parameter -> the argument the lambda is applied to"""
    while isinstance(e, ast.Name) and depth < 4:
        depth += 1
        lam = getattr(e, "_parent", None)
        while lam is not None and not (isinstance(lam, ast.Lambda) and e.id in {a.arg for a in lam.args.args}):
            lam = getattr(lam, "_parent", None)
        if lam is not None and isinstance(lam._parent, ast.Call) and lam._parent.func is lam and lam._parent.args:
            e = lam._parent.args[[a.arg for a in lam.args.args].index(e.id)]
            continue
        defs = [st.value for nd in scope_nodes for st in ast.walk(nd) if isinstance(st, ast.Assign) and any(isinstance(t, ast.Name) and t.id == e.id for t in st.targets)]
        if len(defs) == 1:
            e = defs[0]
            continue
        break
    return e


def rule_allpair(prog, rep, tier, anchor="gen.gen"):
    from sa.cfg import expr_guards as _eg
    fi = prog.fn(anchor)
    region = prog.region(fi)
    nodes = [f.node for f in region]
    helpers = [f for f in region if f is not fi]  # module-level helpers and closures of gen alike
    appends = [c for c in ast.walk(fi.node) if isinstance(c, ast.Call) and isinstance(c.func, ast.Attribute) and c.func.attr == "append" and isinstance(c.func.value, ast.Name)]
    ctors = _has_all_ctor(nodes)
    if not ctors:
        raise AnalysisError("ALL-PAIR: neither gen nor a helper of it builds an `__all__` assignment node")
    # which per-entry list reaches the __all__ node?
    lists = {c.func.value.id for c in appends}
    src_lists = set()
    for L in lists:
        for u in ast.walk(fi.node):
            if isinstance(u, ast.Name) and u.id == L and isinstance(u.ctx, ast.Load) and not (isinstance(u._parent, ast.Attribute) and u._parent.attr == "append"):
                # inside an __all__ constructor expression, or an argument of a helper that builds it
                p = u._parent
                while p is not None and p is not fi.node:
                    if p in ctors:
                        src_lists.add(L)
                    if isinstance(p, ast.Call):
                        for t in prog.resolve_expr_fn(p.func, p):
                            if isinstance(t, FunctionInfo) and _has_all_ctor([f.node for f in prog.region(t)]):
                                src_lists.add(L)
                    p = p._parent
    if not src_lists:
        rep.violation(Finding("ALL-PAIR", anchor, "__all__-source",
                              "the value of __all__ is not built from the list that is filled once per mapping entry (%s): it can list names that were not generated, "
                              "or miss generated ones" % (sorted(lists) or "no per-entry list"), loc(prog, ctors[0])))
        return
    lst = sorted(src_lists)[0]
    apps = [c for c in appends if c.func.value.id == lst]
    if len(apps) != 1:
        rep.violation(Finding("ALL-PAIR", anchor, "append-count", "%d appends to %s (expected exactly one, executed once per mapping entry)" % (len(apps), lst), loc(prog, apps[0] if apps else ctors[0])))
        return
    app = apps[0]
    # the per-entry element: generator / loop containing the append, directly or through one nested function called once
    holder_fn = enclosing_fn(app)
    site = app
    elt_roots = []
    if holder_fn is not fi and holder_fn is not None:
        if _eg(app, stop=holder_fn.node):
            rep.violation(Finding("ALL-PAIR", anchor, "entry-filter", "the per-entry append is conditional inside %s: entries can be missing from __all__" % holder_fn.qualname, loc(prog, app)))
        calls = [c for c in ast.walk(fi.node) if isinstance(c, ast.Call) and isinstance(c.func, ast.Name) and c.func.id == holder_fn.name and enclosing_fn(c) is fi]
        if len(calls) != 1:
            rep.violation(Finding("ALL-PAIR", anchor, "append-count", "the function holding the per-entry append (%s) is called %d times" % (holder_fn.name, len(calls)), loc(prog, app)))
            return
        site = calls[0]
        elt_roots.append(holder_fn.node)
    g = None
    p = site._parent
    while p is not None and p is not fi.node:
        if isinstance(p, (ast.GeneratorExp, ast.ListComp, ast.For)):
            g = p
            break
        p = p._parent
    if g is None:
        rep.violation(Finding("ALL-PAIR", anchor, "append-count", "the append to %s is not inside a per-entry generator or loop" % lst, loc(prog, app)))
        return
    if isinstance(g, ast.For):
        if _eg(site, stop=g):
            rep.violation(Finding("ALL-PAIR", anchor, "entry-filter", "the per-entry append is conditional: entries can be skipped in __all__", loc(prog, site)))
        elt_roots.append(g)
    else:
        if any(gg.ifs for gg in g.generators):
            rep.violation(Finding("ALL-PAIR", anchor, "entry-filter", "the per-entry generator has a condition: entries can be skipped", loc(prog, g)))
        elt_roots.append(g.elt)
    scopes = [fi.node]
    naming = []
    for root in elt_roots:
        for d in ast.walk(root):
            if isinstance(d, ast.Dict):
                for k, v in zip(d.keys, d.values):
                    if isinstance(k, ast.Constant) and isinstance(k.value, str) and k.value.endswith("_name"):
                        naming.append(v)
            elif isinstance(d, ast.keyword) and d.arg and d.arg.endswith("_name"):
                naming.append(d.value)
    if not naming:
        # the `*_name` arguments are assembled by a helper of the region: map its parameter back to the call-site argument
        for root in elt_roots:
            for call in ast.walk(root):
                if not isinstance(call, ast.Call):
                    continue
                for t in prog.resolve_expr_fn(call.func, call):
                    if not (isinstance(t, FunctionInfo) and t in helpers):
                        continue
                    pn = t.params()
                    inner = []
                    for d in ast.walk(t.node):
                        if isinstance(d, ast.Dict):
                            inner += [v for k, v in zip(d.keys, d.values) if isinstance(k, ast.Constant) and isinstance(k.value, str) and k.value.endswith("_name")]
                        elif isinstance(d, ast.keyword) and d.arg and d.arg.endswith("_name"):
                            inner.append(d.value)
                    for v in inner:
                        if isinstance(v, ast.Name) and v.id in pn:
                            i = pn.index(v.id)
                            a = call.args[i] if i < len(call.args) else next((k.value for k in call.keywords if k.arg == v.id), None)
                            if a is not None:
                                naming.append(a)
                        else:
                            naming.append(v)
    if not naming:
        raise AnalysisError("ALL-PAIR: cannot find the expression that names the emitted definition (a `*_name` argument of the emitter)")
    want = dump(_resolve_single_def(app.args[0], scopes))
    got = [dump(_resolve_single_def(x, scopes)) for x in naming]
    if all(x == want for x in got):
        rep.holds("ALL-PAIR", "__all__ entry and emitted name are the same expression %s" % src(_resolve_single_def(app.args[0], scopes), 50), loc(prog, app), "one append per mapping entry")
    else:
        rep.violation(Finding("ALL-PAIR", anchor, "name-mismatch", "the name appended to %s (%s) is not the expression the emitted definition is named by (%s)"
                              % (lst, src(app.args[0], 50), src(naming[got.index(next(x for x in got if x != want))], 50)), loc(prog, app)))
    # evaluation order: the list is read (the __all__ node rendered) after the generator/loop has filled it
    reads = [u for u in ast.walk(fi.node) if isinstance(u, ast.Name) and u.id == lst and isinstance(u.ctx, ast.Load) and not (isinstance(u._parent, ast.Attribute) and u._parent.attr == "append")]
    fmt = None
    p = g
    while p is not None and p is not fi.node:
        if isinstance(p, ast.Call) and isinstance(p.func, ast.Attribute) and p.func.attr == "format" and any(r in list(ast.walk(p)) for r in reads):
            fmt = p
            break
        p = p._parent
    if fmt is not None and not isinstance(g, ast.For):
        order = []
        for kv in list(fmt.args) + [k.value for k in fmt.keywords]:   # the evaluation order of a call's arguments
            sub = list(ast.walk(kv))
            if g in sub:
                order.append("fill")
            if any(r in sub for r in reads):
                order.append("read")
        if order == ["fill", "read"]:
            rep.holds("ALL-PAIR", "the list is filled (definitions joined) before __all__ is rendered", loc(prog, fmt), "keyword evaluation order of str.format")
        else:
            rep.violation(Finding("ALL-PAIR", anchor, "eval-order", "__all__ is rendered before the per-entry generator has filled the list (argument order %r)" % order, loc(prog, fmt)))
    else:
        first_read = min((r.lineno for r in reads), default=10 ** 9)
        g_end = getattr(g, "end_lineno", g.lineno)
        lazy = isinstance(g, ast.GeneratorExp)
        if first_read > g_end and not lazy or (lazy and fmt is None and first_read > g_end and _generator_consumed_before(fi, g, first_read)):
            rep.holds("ALL-PAIR", "__all__ built after the definitions", loc(prog, reads[0] if reads else g), "statement order")
        elif lazy:
            rep.ob("ALL-PAIR", "evaluation order of a lazy generator", "unresolved", loc(prog, g), "cannot order the consumption of the generator and the read of %s" % lst)
        else:
            rep.violation(Finding("ALL-PAIR", anchor, "eval-order", "__all__ is built before the definitions are generated", loc(prog, reads[0] if reads else g)))


def _generator_consumed_before(fi, g, line):
    """the generator expression is consumed (joined / listed) in a statement that ends before `line`"""
    st = g
    while not isinstance(st, ast.stmt):
        st = st._parent
    par = g._parent
    consumed = isinstance(par, ast.Call) and (getattr(par.func, "attr", "") in ("join",) or getattr(par.func, "id", "") in ("list", "tuple"))
    return consumed and getattr(st, "end_lineno", st.lineno) < line


def rule_gen_layout(prog, rep, tier, anchor="gen.gen"):
    """GEN-LAYOUT (C19): the module text is assembled from one template whose placeholders come in the order
    prepend < imports < definitions < __all__, each exactly once."""
    fi = prog.fn(anchor)
    found = False
    for c in ast.walk(fi.node):
        if isinstance(c, ast.Call) and isinstance(c.func, ast.Attribute) and c.func.attr == "format" and isinstance(c.func.value, ast.Constant) and isinstance(c.func.value.value, str):
            kws = {k.arg for k in c.keywords if k.arg}
            import string
            raw_fields = [f for _, f, _, _ in string.Formatter().parse(c.func.value.value) if f is not None]
            positional = bool(raw_fields) and all(f == "" or f.isdigit() for f in raw_fields) and len(c.args) >= 4
            if not ({"prepend", "imports"} <= kws) and not positional:
                continue
            found = True
            fields = [f for f in raw_fields if f] if not positional else [str(i) if f == "" else f for i, f in enumerate(raw_fields)]
            roles = []
            for f in fields:
                kv = next((k.value for k in c.keywords if k.arg == f), None)
                if positional:
                    kv = c.args[int(f)] if int(f) < len(c.args) else None
                    names_ = {x.id for x in ast.walk(kv) if isinstance(x, ast.Name)} if kv is not None else set()
                    if "prepend" in names_ and "imports" not in names_:
                        roles.append("prepend")
                        continue
                    if "imports" in names_ and "prepend" not in names_:
                        roles.append("imports")
                        continue
                if f == "prepend":
                    roles.append("prepend")
                elif f == "imports":
                    roles.append("imports")
                elif kv is not None and (any(isinstance(x, ast.Constant) and x.value == "__all__" for x in ast.walk(kv))
                                         or any(isinstance(x, ast.Call) and any(isinstance(t, FunctionInfo) and _has_all_ctor([f_.node for f_ in prog.region(t)])
                                                                                for t in prog.resolve_expr_fn(x.func, x)) for x in ast.walk(kv))):
                    roles.append("__all__")
                else:
                    roles.append("definitions")
            want = ["prepend", "imports", "definitions", "__all__"]
            if roles == want:
                rep.holds("GEN-LAYOUT", "template %r: %s" % (c.func.value.value, " < ".join(roles)), loc(prog, c), "each part once, in order")
            else:
                rep.violation(Finding("GEN-LAYOUT", anchor, "template-order:%s" % ",".join(roles),
                                      "the generated module is assembled as %s (template %r); expected %s, each exactly once: prepended text and imports "
                                      "must come once, before the definitions, and __all__ after them" % (roles, c.func.value.value, want), loc(prog, c)))
    if not found:
        # f-string / concatenation form: accept if a string shape shows the four holes in order
        rep.ob("GEN-LAYOUT", "module template", "unresolved", loc(prog, fi.node), "no `'...'.format(prepend=..., imports=..., ...)` template found")


def rule_join_source(prog, rep, tier, anchor="gen.gen"):
    """JOIN-SOURCE (C19): pieces of source rendered from statement nodes (`to_code(node)`: `ast.unparse` ends nothing with a
    newline) are put together with a separator that contains a line break, or each piece is terminated by one.  Joined with the
    empty string, two import lines become `import osfrom typing import List` and the generated module does not parse."""
    fi = prog.fn(anchor)
    n = 0

    def renders(e, depth=0):
        """e (an element expression, or a function applied element-wise) renders a node to source"""
        if e is None or depth > 4:
            return False
        for x in ast.walk(e):
            if isinstance(x, (ast.Name, ast.Attribute)) and isinstance(getattr(x, "ctx", None), ast.Load):
                if (x.id if isinstance(x, ast.Name) else x.attr) in ("to_code", "unparse", "to_source", "_to_code"):
                    return True
        return False

    def terminated(e):
        """the element text certainly ends in a line break: `.. + "\n"`, `"{}\n".format(..)`, an f-string ending in one"""
        if isinstance(e, ast.Lambda):
            return terminated(e.body)
        if isinstance(e, ast.BinOp) and isinstance(e.op, ast.Add):
            return isinstance(e.right, ast.Constant) and isinstance(e.right.value, str) and e.right.value.endswith("\n")
        if isinstance(e, ast.Call) and isinstance(e.func, ast.Attribute) and e.func.attr == "format" and isinstance(e.func.value, ast.Constant) \
                and isinstance(e.func.value.value, str):
            return e.func.value.value.endswith("\n")
        if isinstance(e, ast.JoinedStr) and e.values:
            last = e.values[-1]
            return isinstance(last, ast.Constant) and isinstance(last.value, str) and last.value.endswith("\n")
        return False
    for f in prog.region(fi):
        for c in ast.walk(f.node):
            if not (isinstance(c, ast.Call) and isinstance(c.func, ast.Attribute) and c.func.attr == "join" and len(c.args) == 1
                    and isinstance(c.func.value, ast.Constant) and isinstance(c.func.value.value, str)):
                continue
            sep, arg = c.func.value.value, c.args[0]
            el = None
            if isinstance(arg, (ast.GeneratorExp, ast.ListComp)):
                el = arg.elt
            elif isinstance(arg, ast.Call) and isinstance(arg.func, ast.Name) and arg.func.id == "map" and arg.args:
                el = arg.args[0]
            if el is None or not renders(el):
                continue
            n += 1
            inst = "%s: %s" % (prog.owner_name(f), src(c, 60))
            if "\n" in sep or terminated(el):
                rep.holds("JOIN-SOURCE", inst, loc(prog, c), "a line break separates (or ends) the rendered statements")
            else:
                rep.violation(Finding(
                    "JOIN-SOURCE", prog.owner_name(f), "statements-joined-without-line-break",
                    "%s puts rendered statements together with the separator %r and nothing ends a piece: with two or more of them (several import lines) "
                    "the text is `import osfrom typing import List` and the generated module does not parse" % (src(c, 60), sep), loc(prog, c)))
    if n == 0:
        raise AnalysisError("JOIN-SOURCE: no join of rendered statements found in %s" % anchor)


def rule_pairs_all(prog, rep, tier, anchor="sync_properties.sync_properties", per_pair="sync_properties.sync_property"):
    """PAIRS (C14): every (input, output) pair is applied: the pair loop iterates zip(<both parameter lists>) in full,
    its body calls the per-pair worker unconditionally, and the tree it returns is the tree handed to the next pair."""
    fi = prog.fn(anchor)
    params = set(fi.params())
    calls = [c for c in ast.walk(fi.node) if isinstance(c, ast.Call) and prog.is_fn(c.func, per_pair, c)]
    if not calls:
        raise AnalysisError("PAIRS: %s no longer calls %s" % (anchor, per_pair))
    for c in calls:
        loop = None
        p = c._parent
        while p is not None and p is not fi.node:
            if isinstance(p, (ast.For, ast.comprehension)):
                loop = p
                break
            p = p._parent
        if loop is None:
            rep.violation(Finding("PAIRS", anchor, "no-pair-loop", "%s is called outside a loop over the pairs: only one pair is applied" % per_pair, loc(prog, c)))
            continue
        it = loop.iter
        problems = []
        if not (isinstance(it, ast.Call) and isinstance(it.func, ast.Name) and it.func.id == "zip" and len(it.args) == 2
                and all(isinstance(a, ast.Name) and a.id in params for a in it.args)):
            problems.append("the loop iterates %s, not zip(<input list>, <output list>) of the worker's parameters in full" % src(it, 60))
        from sa.cfg import expr_guards as _eg
        gs = _eg(c, stop=loop) if isinstance(loop, ast.For) else [(x, True) for x in loop.ifs]
        if gs:
            problems.append("the per-pair call is conditional (%s)" % src(gs[0][0], 50))
        if isinstance(loop, ast.For) and any(isinstance(x, ast.Break) for x in ast.walk(loop)):
            problems.append("the loop can break early")
        # threading of the output tree
        st = c
        while not isinstance(st, ast.stmt):
            st = st._parent
        if isinstance(st, ast.Assign) and isinstance(st.targets[0], ast.Name):
            tname = st.targets[0].id
            if tname not in names_in(c):
                problems.append("the tree returned for one pair (%s) is not the tree passed for the next" % tname)
        if problems:
            rep.violation(Finding("PAIRS", anchor, "pair-loop", "; ".join(problems), loc(prog, loop if isinstance(loop, ast.For) else c)))
        else:
            rep.holds("PAIRS", "%s: every pair of zip(%s) is applied, result threaded" % (anchor, ", ".join(a.id for a in it.args)), loc(prog, c), "")


# ---------------------------------------------------------------------------- FIRST-MATCH
def rule_first_match(prog, rep, tier, anchor="parse._merge_inner_function", owner="parse.class_"):
    """FIRST-MATCH (C07, C19): the method merged into a class is the *first* definition of that name in ast.walk order
    (breadth-first: the class's own method comes before any method of a nested class).  The selection over
    `ast.walk(<class>)` is classified by its shape: next(...) / [0] / loop with break or return at the first hit select the
    first; deque(maxlen=1) / [-1] / reversed / a dict built from the matches / a loop that keeps assigning select the last."""
    # the selection may live in a private helper of the merge function (`_find_function_def(node, name)`)
    cands = [f for f in prog.region(prog.fn(anchor))] if prog.has_fn(anchor) else [f for f in prog.region(prog.fn(owner)) if f.parent_fn is None]
    n = 0
    for fi in cands:
        for w in ast.walk(fi.node):
            if not (isinstance(w, ast.Call) and isinstance(w.func, (ast.Name, ast.Attribute)) and prog.ext_name(w.func, w) == "ast.walk"):
                continue
            if not any(isinstance(x, ast.Attribute) and x.attr == "name" for x in ast.walk(fi.node)):
                continue  # not a lookup by name
            verdict, why, at = None, "", w
            child, p = w, w._parent
            while p is not None and verdict is None:
                if isinstance(p, ast.Call) and child is not p.func:
                    nm = p.func.id if isinstance(p.func, ast.Name) else getattr(p.func, "attr", None)
                    if nm in ("filter", "iter", "list", "tuple", "map", "chain", "from_iterable"):
                        pass
                    elif nm == "next":
                        verdict, why = "first", "next(...) of the matches"
                    elif nm == "deque" and any(k.arg == "maxlen" for k in p.keywords):
                        verdict, why = "last", "deque(..., maxlen=...) keeps the last match(es)"
                    elif nm == "reversed":
                        verdict, why = "last", "the matches are reversed before one is taken"
                    elif nm in ("dict", "OrderedDict"):
                        verdict, why = "last", "a mapping built from the matches keeps the last one per name"
                    elif nm in ("min", "max", "sorted") and prog.lookup(nm, p)[0] == "builtin":
                        # chosen by a key (a line number, a name), not by the breadth-first order that puts the class's own methods first
                        verdict, why = "reordered", "%s(...) chooses among the matches by %s" % (nm, next((src(k.value, 40) for k in p.keywords if k.arg == "key"), "their natural order"))
                    else:
                        break
                elif isinstance(p, ast.comprehension) and p.iter is child:
                    comp = p._parent
                    if isinstance(comp, ast.DictComp):
                        verdict, why = "last", "a dict comprehension over the matches keeps the last one per name"
                    child, p = comp, comp._parent
                    continue
                elif isinstance(p, ast.Subscript) and p.value is child:
                    s_ = p.slice
                    if isinstance(s_, ast.Constant) and s_.value == 0:
                        verdict, why = "first", "[0] of the matches"
                    elif isinstance(s_, ast.UnaryOp) and isinstance(s_.op, ast.USub):
                        verdict, why = "last", "[-1] of the matches"
                    elif isinstance(s_, ast.Slice) and isinstance(s_.step, ast.UnaryOp):
                        verdict, why = "last", "the matches are reversed ([::-1])"
                    else:
                        break
                elif isinstance(p, ast.For) and p.iter is child:
                    hits = [s for s in ast.walk(p) if isinstance(s, ast.If) and any(isinstance(x, ast.Attribute) and x.attr == "name" for x in ast.walk(s.test))]
                    exits = [x for h in hits for x in ast.walk(h) if isinstance(x, (ast.Break, ast.Return))]
                    if hits and exits:
                        verdict, why = "first", "the loop leaves at the first match"
                    elif hits:
                        verdict, why = "last", "the loop keeps going after a match: the last one wins"
                    else:
                        break
                elif isinstance(p, ast.stmt):
                    # bound to a local and selected later: follow one local
                    if isinstance(p, ast.Assign) and len(p.targets) == 1 and isinstance(p.targets[0], ast.Name):
                        uses = [u for u in ast.walk(fi.node) if isinstance(u, ast.Name) and u.id == p.targets[0].id and isinstance(u.ctx, ast.Load)]
                        if len(uses) == 1:
                            child, p = uses[0], uses[0]._parent
                            continue
                    break
                child, p = p, getattr(p, "_parent", None)
            n += 1
            inst = "%s: selection over %s" % (fi.qualname, src(w, 40))
            if verdict == "first":
                rep.holds("FIRST-MATCH", inst, loc(prog, w), why)
            elif verdict == "reordered":
                rep.violation(Finding("FIRST-MATCH", fi.qualname, "not-walk-order",
                                      "the definition merged into the class is not the first of that name in ast.walk order (%s): breadth-first order is what puts the class's own "
                                      "method before the same-named method of a nested class - a nested class written above it wins by position in the file" % why, loc(prog, w)))
            elif verdict == "last":
                rep.violation(Finding("FIRST-MATCH", fi.qualname, "last-match",
                                      "the definition merged into the class is the LAST one of that name in ast.walk order (%s): with a nested class that defines the same "
                                      "method, the nested class's method is taken instead of the class's own" % why, loc(prog, w)))
            else:
                rep.ob("FIRST-MATCH", inst, "unresolved", loc(prog, w), "selection shape not recognised")
    if n == 0:
        raise AnalysisError("FIRST-MATCH: no lookup by name over ast.walk(...) found in %s" % anchor)


# ---------------------------------------------------------------------------- RET-TOP
def rule_ret_top(prog, rep, tier, anchor="parser_utils._interpolate_return", emitter="emit.function"):
    """RET-TOP (C16): the `return` whose value becomes the return entry's default is looked for among the *top-level*
    statements of the function body only.  The function emitter appends `return <default>` after the carried body and
    drops the body's last statement only when that statement itself is a `return`: a default taken from a nested block
    (an early return in a loop, the return of a trailing if/with/try, a nested function's return) makes the re-emitted body
    one statement longer than the original."""
    fi = prog.fn(anchor)
    ef = prog.fn(emitter)
    # the emit side really has that shape (otherwise the agreement is a different one and this rule does not apply)
    drops_last_return = any(isinstance(c, ast.Call) and isinstance(c.func, ast.Name) and c.func.id == "isinstance" and len(c.args) == 2
                            and isinstance(c.args[0], ast.Subscript) and isinstance(c.args[0].slice, ast.UnaryOp)
                            and any(isinstance(x, ast.Name) and x.id == "Return" for x in ast.walk(c.args[1])) for f_ in prog.region(ef) for c in ast.walk(f_.node))
    if not drops_last_return:
        raise AnalysisError("RET-TOP: %s no longer tests `isinstance(<body>[-1], Return)`" % emitter)
    n = 0
    for f_ in prog.region(fi):
        recursive = any(isinstance(c, ast.Call) and isinstance(c.func, (ast.Name, ast.Attribute)) and any(t is f_ for t in prog.resolve_expr_fn(c.func, c)) for c in ast.walk(f_.node))
        for c in ast.walk(f_.node):
            is_test = isinstance(c, ast.Call) and isinstance(c.func, ast.Name) and c.func.id in ("isinstance", "rpartial", "partial") \
                and any(isinstance(x, ast.Name) and x.id == "Return" for a_ in c.args for x in ast.walk(a_))
            if not is_test:
                continue
            # the iterable the tested node comes from
            it = None
            p = c._parent
            child = c
            while p is not None and it is None:
                if isinstance(p, ast.Call) and isinstance(p.func, ast.Name) and p.func.id == "filter" and len(p.args) == 2 and p.args[0] is child:
                    it = p.args[1]
                elif isinstance(p, ast.comprehension) and child in p.ifs:
                    it = p.iter
                elif isinstance(p, (ast.For,)) and any(child is x or any(child is y for y in ast.walk(x)) for x in p.body):
                    it = p.iter
                child, p = p, getattr(p, "_parent", None)
            if it is None:
                continue
            n += 1
            deep = None
            if any(isinstance(x, ast.Call) and isinstance(x.func, (ast.Name, ast.Attribute)) and prog.ext_name(x.func, x) == "ast.walk" for x in ast.walk(it)):
                deep = "it searches ast.walk(...) (every nested statement and nested function)"
            elif recursive and any(isinstance(x, ast.Attribute) and x.attr in ("orelse", "handlers", "finalbody") or
                                   (isinstance(x, ast.Constant) and x.value in ("orelse", "handlers", "finalbody")) for x in ast.walk(f_.node)):
                deep = "%s descends into nested blocks (orelse / handlers / finalbody) recursively" % f_.qualname
            inst = "%s: Return looked for in %s" % (f_.qualname, src(it, 50))
            if deep:
                rep.violation(Finding("RET-TOP", prog.owner_name(f_), "nested-return-as-default",
                                      "the return default is taken from a `return` that need not be a top-level statement of the body (%s), while %s only replaces a "
                                      "trailing top-level `return`: the re-emitted body gains an extra `return`" % (deep, emitter), loc(prog, c)))
            else:
                rep.holds("RET-TOP", inst, loc(prog, c), "top-level statements only")
    if n == 0:
        raise AnalysisError("RET-TOP: no search for a Return node found in %s" % anchor)


# ---------------------------------------------------------------------------- KWARG-LAST
def rule_kwarg_last(prog, rep, tier, anchor="parse.function", merge="parser_utils.ir_merge"):
    """KWARG-LAST (C07, C03): a documented `**kwargs` ends up as the LAST parameter, as in the signature.  The signature
    merge appends the parameters the docstring did not mention, so the documented kwargs entry has to be out of the
    mapping while the merge runs (popped / deleted before) and inserted again afterwards, or moved to the end after the
    merge.  A typestate over the events on the params mapping that involve the kwarg's name, in execution order."""
    fi = prog.inl(prog.fn(anchor))
    fd = fi.params()[0]

    def is_kwarg_name(e, names):
        if isinstance(e, ast.Attribute) and e.attr == "arg" and (isinstance(e.value, ast.Attribute) and e.value.attr == "kwarg" or isinstance(e.value, ast.Name) and e.value.id in names["obj"]):
            return True
        return isinstance(e, ast.Name) and e.id in names["name"]

    names = {"obj": set(), "name": set(), "holder": set()}
    for _ in range(3):
        for st in ast.walk(fi.node):
            if isinstance(st, ast.Assign):
                tg, val = st.targets[0], st.value
                pairs = list(zip(tg.elts, val.elts)) if isinstance(tg, ast.Tuple) and isinstance(val, ast.Tuple) and len(tg.elts) == len(val.elts) else [(tg, val)]
                for t, v in pairs:
                    if not isinstance(t, ast.Name):
                        # holder[K] = ...
                        if isinstance(t, ast.Subscript) and isinstance(t.value, ast.Name) and is_kwarg_name(t.slice, names):
                            names["holder"].add(t.value.id)
                        continue
                    if isinstance(v, ast.Attribute) and v.attr == "kwarg" or (isinstance(v, ast.Call) and isinstance(v.func, ast.Name) and v.func.id == "getattr"
                                                                              and len(v.args) >= 2 and isinstance(v.args[1], ast.Constant) and v.args[1].value == "kwarg"):
                        names["obj"].add(t.id)
                    elif is_kwarg_name(v, names):
                        names["name"].add(t.id)
    for st in ast.walk(fi.node):
        # `for k in holder:` - the keys of the dict that carries the kwargs entry are kwarg names
        if isinstance(st, (ast.For, ast.comprehension)) and isinstance(st.target, ast.Name) and isinstance(st.iter, ast.Name) and st.iter.id in names["holder"]:
            names["name"].add(st.target.id)
    aliases = {t.id for st in ast.walk(fi.node) if isinstance(st, ast.Assign) and _is_params_map(st.value) for t in st.targets if isinstance(t, ast.Name)}
    events = []
    for n in ast.walk(fi.node):
        k = order_key_(n)
        if isinstance(n, ast.Call) and isinstance(n.func, (ast.Name, ast.Attribute)):
            if any(isinstance(t, FunctionInfo) and t.qualname == merge for t in prog.resolve_expr_fn(n.func, n)):
                events.append((k, "MERGE", n))
            elif isinstance(n.func, ast.Attribute) and n.func.attr == "pop" and n.args and is_kwarg_name(n.args[0], names) and _is_params_map(n.func.value, aliases):
                events.append((k, "REMOVE", n))
            elif isinstance(n.func, ast.Attribute) and n.func.attr == "move_to_end" and n.args and is_kwarg_name(n.args[0], names) and _is_params_map(n.func.value, aliases):
                events.append((k, "MOVE_END", n))
            elif isinstance(n.func, ast.Attribute) and n.func.attr == "update" and _is_params_map(n.func.value, aliases) and n.args:
                a = n.args[0]
                if isinstance(a, ast.Name) and a.id in names["holder"] or (isinstance(a, ast.Dict) and any(k_ is not None and is_kwarg_name(k_, names) for k_ in a.keys)):
                    events.append((k, "INSERT", n))
        elif isinstance(n, ast.Assign):
            for t in n.targets:
                if isinstance(t, ast.Subscript) and is_kwarg_name(t.slice, names) and _is_params_map(t.value, aliases):
                    events.append((k, "INSERT", n))
        elif isinstance(n, ast.Delete):
            for t in n.targets:
                if isinstance(t, ast.Subscript) and is_kwarg_name(t.slice, names) and _is_params_map(t.value, aliases):
                    events.append((k, "REMOVE", n))
    events.sort(key=lambda e: e[0])
    kinds = [e[1] for e in events]
    if "MERGE" not in kinds:
        raise AnalysisError("KWARG-LAST: %s no longer merges the signature with %s" % (anchor, merge))
    i = kinds.index("MERGE")
    before, after = kinds[:i], kinds[i + 1:]
    ok = ("MOVE_END" in after) or ("REMOVE" in before and "INSERT" in after and "INSERT" not in before[before.index("REMOVE"):])
    desc = " -> ".join(kinds)
    if ok:
        rep.holds("KWARG-LAST", "%s: %s" % (anchor, desc), loc(prog, events[i][2]), "the documented **kwargs is out of the mapping during the merge and last afterwards")
    else:
        rep.violation(Finding("KWARG-LAST", anchor, "kwarg-not-last",
                              "events on the parameter mapping for the documented **kwargs: %s.  The signature merge appends the parameters the docstring does not mention; unless "
                              "the kwargs entry is taken out before and put back (or moved to the end) after it, undocumented parameters end up behind **kwargs" % (desc or "none"),
                              loc(prog, events[i][2])))


def order_key_(n):
    from sa.model import order_key
    return order_key(n) if hasattr(n, "lineno") else 0


def _is_params_map(e, aliases=()):
    """<ir>["params"] or a local bound to it"""
    return (isinstance(e, ast.Subscript) and isinstance(e.slice, ast.Constant) and e.slice.value == "params") or (isinstance(e, ast.Name) and e.id in aliases)


# ---------------------------------------------------------------------------- PARAM-KEPT
def _const_key_removals(own):
    """(node, key) for every `E.pop("k")` / `del E["k"]` among the nodes `own` where E is a parameter mapping: `X["params"]`,
    `X.get("params")`, a name assigned from one, or a name that says so (`params`, `target_params`)"""
    def is_params(e, depth=0):
        if isinstance(e, ast.Subscript) and isinstance(e.slice, ast.Constant) and e.slice.value == "params":
            return True
        if isinstance(e, ast.Call) and isinstance(e.func, ast.Attribute) and e.func.attr in ("get", "setdefault") and e.args \
                and isinstance(e.args[0], ast.Constant) and e.args[0].value == "params":
            return True
        if isinstance(e, ast.BoolOp):
            return any(is_params(v, depth) for v in e.values)
        if isinstance(e, ast.Name) and depth < 3:
            if e.id == "params" or e.id.endswith("_params"):
                return True
            return any(isinstance(st, ast.Assign) and any(isinstance(t, ast.Name) and t.id == e.id for t in st.targets) and is_params(st.value, depth + 1)
                       for st in own)
        return False
    out = []
    for x in own:
        key, holder = None, None
        if isinstance(x, ast.Call) and isinstance(x.func, ast.Attribute) and x.func.attr == "pop" and x.args and isinstance(x.args[0], ast.Constant) \
                and isinstance(x.args[0].value, str):
            key, holder = x.args[0].value, x.func.value
        elif isinstance(x, ast.Delete):
            for t in x.targets:
                if isinstance(t, ast.Subscript) and isinstance(t.slice, ast.Constant) and isinstance(t.slice.value, str):
                    key, holder = t.slice.value, t.value
        if key is not None and is_params(holder):
            out.append((x, key))
    return out


_PARAM_KEPT_EXAMPLE = """
def reader(ir, other):
    mapping = ir["params"]
    mapping.pop("a")
    del other.get("params")["b"]
    ir["params"].pop(name)
    ir["returns"].pop("c")
"""


def rule_param_kept(prog, rep, tier, roots=("parse.function", "parse.class_"), convention=("parse.class_",)):
    """PARAM-KEPT (C07, C03): no reader removes a parameter from the interface because of its *name*.  A parameter may be called
    anything; an entry taken out of a `params` mapping under a constant key (`params.pop("return_type")`, `del params["x"]`)
    drops that parameter for every function that has one.  Accepted: the class reader (and what only it uses), where
    `return_type` is the documented spelling of what a config class returns (C02).  The matcher is run over a built-in example
    on every run (two removals to find, two look-alikes to leave), since the expected count on the function path is zero."""
    ex = [k for _x, k in _const_key_removals(list(ast.walk(ast.parse(_PARAM_KEPT_EXAMPLE))))]
    if sorted(ex) != ["a", "b"]:
        raise AnalysisError("PARAM-KEPT: the matcher finds %r in its built-in example instead of ['a', 'b']" % (ex,))
    scope = prog.reachable([prog.fn(r) for r in roots])
    # what serves the function reader without passing through the class reader: a helper the class reader alone uses shares its convention
    conv = [prog.fn(c) for c in convention]
    seen_, todo = set(), [prog.fn(r) for r in roots if r not in convention]
    while todo:
        f = todo.pop()
        if id(f) in seen_ or any(f is c for c in conv):
            continue
        seen_.add(id(f))
        todo.extend(prog.references(f))
    n = 0
    for fi in scope:
        node = getattr(fi, "node", None)
        if node is None:
            continue
        own = [x for x in ast.walk(node) if enclosing_fn(x) is fi or x is node]
        for x, key in _const_key_removals(own):
            n += 1
            inst = "%s: %s" % (prog.owner_name(fi), src(x, 60))
            if id(fi) not in seen_:
                rep.holds("PARAM-KEPT", inst, loc(prog, x), "the class reader's own convention (%r is how a config class spells what it returns)" % key)
            else:
                rep.violation(Finding(
                    "PARAM-KEPT", prog.owner_name(fi), "parameter-removed-by-name:%s" % key,
                    "%s takes the entry %r out of a parameter mapping wherever it occurs: a function or method whose signature has a parameter of that name "
                    "loses it from the parsed interface (Python itself lists it)" % (src(x, 60), key), loc(prog, x)))
    rep.holds("PARAM-KEPT", "function reader path: %d function(s) scanned" % len(seen_), loc(prog, prog.fn(roots[0]).node),
              "no entry is taken out of a parameter mapping under a constant key (%d removal(s) seen, all in the class reader)" % n)


# ---------------------------------------------------------------------------- ORDER-merge
def rule_order_merge(prog, rep, tier, anchor="parser_utils.ir_merge"):
    """ORDER-merge (C07, C03, C08): the signature-only parameters are appended to the parameter mapping in the order the
    signature gives them.  In the merge region no order-reversing step feeds an insertion into a mapping: `popitem()`
    without `last=False` (LIFO), `reversed(..)`, `[::-1]`, `sorted(.., reverse=True)` over the parameters that are then
    inserted one by one reverse the appended block on every parse."""
    fi = prog.fn(anchor)
    n = 0
    for f_ in prog.region(fi):
        for lp in ast.walk(f_.node):
            if not isinstance(lp, (ast.For, ast.While)):
                continue
            inserts = [s_ for s_ in ast.walk(lp) if isinstance(s_, ast.Assign) and any(isinstance(t, ast.Subscript) for t in s_.targets)]
            inserts += [c for c in ast.walk(lp) if isinstance(c, ast.Call) and isinstance(c.func, ast.Attribute) and c.func.attr in ("update", "setdefault", "append", "insert")]
            if not inserts:
                continue
            n += 1
            header = [lp.iter] if isinstance(lp, ast.For) else [lp.test]
            rev = None
            for e in header + [x for s_ in lp.body for x in [s_]]:
                for c in ast.walk(e):
                    if isinstance(c, ast.Call) and isinstance(c.func, ast.Attribute) and c.func.attr == "popitem" \
                            and not any(k.arg == "last" and isinstance(k.value, ast.Constant) and k.value.value is False for k in c.keywords) \
                            and not (c.args and isinstance(c.args[0], ast.Constant) and c.args[0].value is False):
                        rev = "%s pops the LAST item first" % src(c, 40)
                    elif isinstance(c, ast.Call) and isinstance(c.func, ast.Name) and c.func.id == "reversed" and e in header:
                        rev = "the loop runs over %s" % src(c, 40)
                    elif isinstance(c, ast.Subscript) and isinstance(c.slice, ast.Slice) and isinstance(c.slice.step, ast.UnaryOp) and e in header:
                        rev = "the loop runs over the reversed %s" % src(c, 40)
                    elif isinstance(c, ast.Call) and isinstance(c.func, ast.Name) and c.func.id == "sorted" and e in header:
                        rev = "the loop runs over %s (sorted, not the given order)" % src(c, 40)
            inst = "%s: insertion loop at line %d" % (f_.qualname, lp.lineno)
            if rev:
                rep.violation(Finding("ORDER-merge", prog.owner_name(f_), "reversed-insertion",
                                      "entries are inserted one by one while %s: the parameters the docstring does not mention come out in a different order than the "
                                      "signature has them (and flip again on the next pass)" % rev, loc(prog, lp)))
            else:
                rep.holds("ORDER-merge", inst, loc(prog, lp), "insertion follows the iteration order of the source mapping")
    if n == 0:
        rep.ob("ORDER-merge", "%s: no insertion loop (the merge is expressed without one)" % anchor, "holds", loc(prog, fi.node), "")
