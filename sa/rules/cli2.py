"""
CLI-2: no accepted `sync` invocation dereferences an option that was not given.

A finite abstract interpretation: for every truth kind and every assignment {given, not given} of the nullable
list-valued `sync` options (2^6 x 3 = 192 states) the `sync` branch of `main` is interpreted over the abstract value of
each option (NONE / GIVEN); states that reach `ArgumentParser.error` are rejected invocations; for every other state
the worker (`ground_truth`) and the repository functions it passes the namespace to are interpreted and every
subscript / iteration / len / failing isinstance-assert on a NONE value is a violation.  Attribute-name expressions
(`pluralise(kind)`, `"_".join((kind, "names"))`, `"{}_names".format(kind)`) are constant-folded, loops over constant
tables are unrolled.  Conditions that do not depend on option presence are explored both ways.
"""
import ast
import itertools

from sa.consteval import NT, UNKNOWN, Folder
from sa.model import AnalysisError, Finding, FunctionInfo, enclosing_fn, loc, src
from sa.rules.cli import cli_model

NONE, GIVEN, OTHER = "NONE", "GIVEN", "OTHER"
NEXT, CONT, BRK, RET, REJECT = "next", "continue", "break", "return", "reject"


class NS(object):
    """the argparse namespace"""


class Items(object):
    def __init__(self, what):
        self.what = what  # 'keys' | 'items' | 'values'


class Deref(Exception):
    pass


class Interp(object):
    def __init__(self, prog, sigma, consts, dests, max_depth=3):
        self.prog = prog
        self.folder = Folder(prog)
        self.sigma = sigma  # dest -> NONE / GIVEN / ('const', v)
        self.consts = consts  # e.g. {'truth': 'class'}
        self.dests = dests
        self.events = []  # (node, description, fn)
        self.rejected = False
        self.max_depth = max_depth
        self.worker_calls = []
        self.ns_reordered = None  # why the option lists of a rebuilt namespace may no longer be in the order given
        self.order_events = []

    # ------------------------------------------------------------------ expressions
    def fold(self, e, env):
        cenv = {k: v[1] for k, v in env.items() if isinstance(v, tuple) and v[0] == "const"}
        consts = [(d, v[1]) for d, v in self.sigma.items() if isinstance(v, tuple) and v[0] == "const"]
        for k, v in env.items():
            if isinstance(v, NS) and consts:
                cenv[k] = NT([d for d, _ in consts], [x for _, x in consts])
        return self.folder.fold(e, cenv, e)

    def attr_of_ns(self, name):
        if name in self.sigma:
            return self.sigma[name]
        return OTHER

    def ev(self, e, env, fn, depth):
        """abstract value of e: NONE / GIVEN / OTHER / ('const', v) / NS instance / Items"""
        if isinstance(e, ast.Constant):
            return ("const", e.value)
        if isinstance(e, ast.Name):
            if e.id in env:
                return env[e.id]
            v = self.fold(e, env)
            if v is not UNKNOWN and isinstance(v, (str, int, tuple, list, dict, bool)):
                return ("const", tuple(v) if isinstance(v, list) else v)
            return OTHER
        if isinstance(e, ast.Attribute):
            b = self.ev(e.value, env, fn, depth)
            if isinstance(b, NS):
                return self.attr_of_ns(e.attr)
            if b == NONE:
                self.hit(e, "attribute .%s of an option that was not given" % e.attr, fn)
            return OTHER
        if isinstance(e, ast.Subscript):
            b = self.ev(e.value, env, fn, depth)
            self.ev(e.slice, env, fn, depth) if not isinstance(e.slice, ast.Slice) else None
            if b == NONE:
                self.hit(e, "subscript of an option that was not given: %s" % src(e, 60), fn)
            if b == GIVEN and self.ns_reordered and isinstance(e.slice, ast.Constant) and isinstance(e.slice.value, int):
                self.order_events.append((e, self.ns_reordered, fn))
            v = self.fold(e, env)
            if v is not UNKNOWN and isinstance(v, (str, int, tuple)):
                return ("const", v)
            return OTHER
        if isinstance(e, ast.IfExp):
            t = self.cond(e.test, env, fn, depth)
            if t is True:
                return self.ev(e.body, env, fn, depth)
            if t is False:
                return self.ev(e.orelse, env, fn, depth)
            a, b = self.ev(e.body, env, fn, depth), self.ev(e.orelse, env, fn, depth)
            return a if a == b else OTHER
        if isinstance(e, ast.BoolOp):
            vals = [self.ev(v, env, fn, depth) for v in e.values]
            return OTHER
        if isinstance(e, (ast.Tuple, ast.List)):
            for x in e.elts:
                self.ev(x.value if isinstance(x, ast.Starred) else x, env, fn, depth)
            v = self.fold(e, env)
            return ("const", v) if v is not UNKNOWN else OTHER
        if isinstance(e, ast.Dict):
            for x in list(e.keys) + list(e.values):
                if x is not None:
                    self.ev(x, env, fn, depth)
            v = self.fold(e, env)
            return ("const", v) if v is not UNKNOWN else OTHER
        if isinstance(e, (ast.GeneratorExp, ast.ListComp, ast.SetComp, ast.DictComp)):
            self.comp(e, env, fn, depth)
            return OTHER
        if isinstance(e, ast.Lambda):
            return ("lambda", e, dict(env))
        if isinstance(e, ast.Call):
            return self.call(e, env, fn, depth)
        if isinstance(e, ast.Compare):
            self.ev(e.left, env, fn, depth)
            for c in e.comparators:
                self.ev(c, env, fn, depth)
            return OTHER
        if isinstance(e, ast.UnaryOp):
            self.ev(e.operand, env, fn, depth)
            return OTHER
        if isinstance(e, ast.BinOp):
            self.ev(e.left, env, fn, depth)
            self.ev(e.right, env, fn, depth)
            v = self.fold(e, env)
            return ("const", v) if v is not UNKNOWN else OTHER
        if isinstance(e, ast.Starred):
            return self.ev(e.value, env, fn, depth)
        if isinstance(e, ast.JoinedStr):
            return OTHER
        return OTHER

    def hit(self, node, what, fn):
        self.events.append((node, what, fn))

    def iterate(self, it_val, node, fn):
        if it_val == NONE:
            self.hit(node, "iteration over an option that was not given: %s" % src(node, 60), fn)

    def comp(self, e, env, fn, depth):
        """evaluate a comprehension: unroll generators over namespace views / constant tuples, else once with OTHER"""
        def rec(gens, env2):
            if not gens:
                if isinstance(e, ast.DictComp):
                    self.ev(e.key, env2, fn, depth)
                    self.ev(e.value, env2, fn, depth)
                else:
                    self.ev(e.elt, env2, fn, depth)
                return
            g = gens[0]
            itv = self.ev(g.iter, env2, fn, depth)
            self.iterate(itv, g.iter, fn)
            bindings = self.bind_iter(g.target, itv, env2)
            for b in bindings:
                ok = True
                for c in g.ifs:
                    if self.cond(c, b, fn, depth) is False:
                        ok = False
                        break
                if ok:
                    rec(gens[1:], b)
        rec(e.generators, dict(env))

    def bind_iter(self, target, itv, env):
        """list of environments, one per abstract element"""
        out = []
        if isinstance(itv, Items):
            for d in self.dests:
                e2 = dict(env)
                if itv.what == "keys":
                    self.assign(target, ("const", d), e2)
                elif itv.what == "values":
                    self.assign(target, self.attr_of_ns(d), e2)
                else:
                    if isinstance(target, ast.Tuple) and len(target.elts) == 2:
                        self.assign(target.elts[0], ("const", d), e2)
                        self.assign(target.elts[1], self.attr_of_ns(d), e2)
                out.append(e2)
            return out
        if isinstance(itv, tuple) and itv[0] == "const" and isinstance(itv[1], (tuple, list, dict)):
            seq = list(itv[1].items()) if isinstance(itv[1], dict) and False else list(itv[1])
            for v in seq:
                e2 = dict(env)
                self.assign_const(target, v, e2)
                out.append(e2)
            return out
        if isinstance(itv, tuple) and itv[0] == "constitems":
            for k, v in itv[1]:
                e2 = dict(env)
                if isinstance(target, ast.Tuple) and len(target.elts) == 2:
                    self.assign(target.elts[0], ("const", k), e2)
                    for nm in [n.id for n in ast.walk(target.elts[1]) if isinstance(n, ast.Name)]:
                        e2[nm] = OTHER
                out.append(e2)
            return out
        e2 = dict(env)
        for nm in [n.id for n in ast.walk(target) if isinstance(n, ast.Name)]:
            e2[nm] = OTHER
        return [e2]

    def assign_const(self, target, v, env):
        if isinstance(target, ast.Name):
            env[target.id] = ("const", v)
        elif isinstance(target, (ast.Tuple, ast.List)) and isinstance(v, (tuple, list)) and len(v) == len(target.elts):
            for t, x in zip(target.elts, v):
                self.assign_const(t, x, env)
        else:
            for nm in [n.id for n in ast.walk(target) if isinstance(n, ast.Name)]:
                env[nm] = OTHER

    def assign(self, target, val, env):
        if isinstance(target, ast.Name):
            env[target.id] = val
        elif isinstance(target, (ast.Tuple, ast.List)):
            if isinstance(val, tuple) and val[0] == "const" and isinstance(val[1], (tuple, list)) and len(val[1]) == len(target.elts):
                for t, x in zip(target.elts, val[1]):
                    self.assign(t, ("const", x), env)
            else:
                for nm in [n.id for n in ast.walk(target) if isinstance(n, ast.Name)]:
                    env[nm] = OTHER

    def call(self, e, env, fn, depth):
        f = e.func
        nm = f.id if isinstance(f, ast.Name) else (f.attr if isinstance(f, ast.Attribute) else None)
        # namespace access
        if nm == "getattr" and isinstance(f, ast.Name) and len(e.args) >= 2:
            b = self.ev(e.args[0], env, fn, depth)
            a = self.fold(e.args[1], env)
            if isinstance(b, NS):
                if isinstance(a, str):
                    return self.attr_of_ns(a)
                # unknown attribute name: any dest -> NONE if any nullable dest is NONE (join)
                return NONE if any(v == NONE for v in self.sigma.values()) else OTHER
            return OTHER
        if nm == "setattr" and isinstance(f, ast.Name):
            for a in e.args:
                self.ev(a, env, fn, depth)
            return OTHER
        if nm == "vars" and e.args and isinstance(self.ev(e.args[0], env, fn, depth), NS):
            return ("varsns",)
        if isinstance(f, ast.Attribute) and nm in ("items", "keys", "values"):
            b = self.ev(f.value, env, fn, depth)
            if b == ("varsns",):
                return Items(nm)
            if isinstance(b, tuple) and b[0] == "const" and isinstance(b[1], dict):
                if nm == "items":
                    return ("constitems", list(b[1].items()))
                return ("const", tuple(b[1].keys()) if nm == "keys" else tuple(b[1].values()))
            return OTHER
        if nm == "Namespace":
            # rebuilt namespace: None-ness preserved unless the value expression excludes None
            for k in e.keywords:
                if k.arg is None and isinstance(k.value, ast.DictComp):
                    ve = k.value.value
                    why = _may_reorder(self.prog, ve)
                    if why:
                        self.ns_reordered = why
                    preserves = isinstance(ve, ast.IfExp) and any(isinstance(c, ast.Compare) and isinstance(c.ops[0], ast.Is) and isinstance(c.comparators[0], ast.Constant) and c.comparators[0].value is None
                                                                  for c in ast.walk(ve.test)) and isinstance(ve.body, ast.Name)
                    self.comp(k.value, env, fn, depth)
                    if not preserves:
                        excl = (isinstance(ve, ast.BoolOp) and isinstance(ve.op, ast.Or)) or (isinstance(ve, ast.IfExp) and isinstance(ve.body, (ast.List, ast.Tuple)))
                        if excl:
                            for d in self.sigma:
                                if self.sigma[d] == NONE:
                                    self.sigma[d] = GIVEN
            return NS()
        if nm == "next" and e.args and isinstance(e.args[0], ast.Call) and isinstance(e.args[0].func, ast.Name) and e.args[0].func.id == "filter" \
                and len(e.args[0].args) == 2 and isinstance(e.args[0].args[0], ast.Lambda) and len(e.args[0].args[0].args.args) == 1:
            # next(filter(lambda x: x == K, it)): the only element that can come out is K
            lam, it = e.args[0].args
            self.ev(it, env, fn, depth)
            body, pn = lam.body, lam.args.args[0].arg
            if isinstance(body, ast.Compare) and len(body.ops) == 1 and isinstance(body.ops[0], ast.Eq):
                other = [x for x in (body.left, body.comparators[0]) if not (isinstance(x, ast.Name) and x.id == pn)]
                if len(other) == 1 and not any(isinstance(x, ast.Name) and x.id == pn for x in ast.walk(other[0])):
                    v = self.fold(other[0], env)
                    if v is not UNKNOWN and isinstance(v, (str, int)):
                        return ("const", v)
        if nm in ("len", "list", "tuple", "sorted", "iter", "next", "sum", "min", "max", "enumerate", "zip", "map", "filter", "any", "all", "deque", "OrderedDict", "dict", "set", "frozenset", "reversed"):
            vals = [self.ev(a, env, fn, depth) for a in e.args]
            for a, v in zip(e.args, vals):
                if v == NONE and nm not in ("next",):
                    if nm in ("map", "filter") and a is e.args[0]:
                        continue
                    self.hit(e, "%s(...) of an option that was not given: %s" % (nm, src(e, 60)), fn)
            if nm in ("map", "filter") and len(e.args) >= 2:
                fv = vals[0]
                if isinstance(fv, tuple) and fv[0] == "lambda":
                    lam, lenv = fv[1], dict(fv[2])
                    itv = vals[1]
                    for b in self.bind_iter(lam.args.args[0] if False else ast.Name(id=lam.args.args[0].arg, ctx=ast.Store()), itv if itv != GIVEN else OTHER, lenv):
                        self.ev(lam.body, b, fn, depth)
            return OTHER
        if nm == "isinstance" and len(e.args) == 2:
            self.ev(e.args[0], env, fn, depth)
            return OTHER
        if isinstance(f, ast.Attribute) and nm in ("error", "exit") and isinstance(f.value, ast.Name) and "parser" in f.value.id:
            for a in e.args:
                self.ev(a, env, fn, depth)
            raise Rejected()
        # repository function receiving the namespace or namespace-derived values
        args_v = [self.ev(a, env, fn, depth) for a in e.args if not isinstance(a, ast.Starred)]
        kw_v = {k.arg: self.ev(k.value, env, fn, depth) for k in e.keywords if k.arg}
        for k in e.keywords:
            if k.arg is None:
                self.ev(k.value, env, fn, depth)
        if isinstance(f, ast.Attribute):
            b = self.ev(f.value, env, fn, depth)
            if b == NONE:
                self.hit(e, "method call on an option that was not given: %s" % src(e, 60), fn)
        tg = [t for t in self.prog.resolve_expr_fn(f, e) if isinstance(t, FunctionInfo)]
        if len(tg) == 1 and depth < self.max_depth and tg[0].module.name in ("conformance", "__main__"):
            callee = tg[0]
            interesting = any(isinstance(v, NS) or v == NONE for v in list(args_v) + list(kw_v.values()))
            if interesting:
                names = callee.params()
                cenv = {}
                for n_, v in zip(names, args_v):
                    cenv[n_] = v
                cenv.update(kw_v)
                self.worker_calls.append(callee.qualname)
                res = self.block(callee.node.body, cenv, callee, depth + 1)
                if res and all(fl == REJECT for _, fl in res):
                    raise Rejected()  # the callee never returns in this state (usage error / raise on every path)
        v = self.fold(e, env)
        if v is not UNKNOWN and isinstance(v, (str, int, tuple, bool)):
            return ("const", v)
        return OTHER

    # ------------------------------------------------------------------ conditions
    def cond(self, t, env, fn, depth):
        """True / False / None(unknown)"""
        if isinstance(t, ast.UnaryOp) and isinstance(t.op, ast.Not):
            v = self.cond(t.operand, env, fn, depth)
            return None if v is None else (not v)
        if isinstance(t, ast.BoolOp):
            res = []
            for x in t.values:
                v = self.cond(x, env, fn, depth)
                res.append(v)
                if isinstance(t.op, ast.And) and v is False:
                    return False
                if isinstance(t.op, ast.Or) and v is True:
                    return True
            if all(v is not None for v in res):
                return all(res) if isinstance(t.op, ast.And) else any(res)
            return None
        if isinstance(t, ast.Compare) and len(t.ops) == 1:
            l = self.ev(t.left, env, fn, depth)
            r = self.ev(t.comparators[0], env, fn, depth)
            op = t.ops[0]
            if isinstance(op, (ast.Is, ast.IsNot)) and r == ("const", None):
                if l == NONE:
                    return isinstance(op, ast.Is)
                if l == GIVEN or (isinstance(l, tuple) and l[0] == "const" and l[1] is not None) or isinstance(l, NS):
                    return isinstance(op, ast.IsNot)
                return None
            if isinstance(l, tuple) and l[0] == "const" and isinstance(r, tuple) and r[0] == "const":
                try:
                    if isinstance(op, ast.Eq):
                        return l[1] == r[1]
                    if isinstance(op, ast.NotEq):
                        return l[1] != r[1]
                    if isinstance(op, ast.In):
                        return l[1] in r[1]
                    if isinstance(op, ast.NotIn):
                        return l[1] not in r[1]
                except Exception:
                    return None
            return None
        if isinstance(t, ast.Call) and isinstance(t.func, ast.Name) and t.func.id == "isinstance" and len(t.args) == 2:
            v = self.ev(t.args[0], env, fn, depth)
            tn = {n.id for n in ast.walk(t.args[1]) if isinstance(n, ast.Name)}
            if v == NONE:
                return False if "NoneType" not in tn else None
            if v == GIVEN and tn & {"list", "tuple"}:
                return True
            return None
        v = self.ev(t, env, fn, depth)
        if v == NONE:
            return False
        if v == GIVEN:
            return True
        if isinstance(v, tuple) and v[0] == "const":
            try:
                return bool(v[1])
            except Exception:
                return None
        return None

    # ------------------------------------------------------------------ statements
    def block(self, stmts, env, fn, depth):
        """returns list of (env, flow)"""
        states = [(env, NEXT)]
        for s in stmts:
            nxt = []
            for e, flow in states:
                if flow != NEXT:
                    nxt.append((e, flow))
                    continue
                nxt.extend(self.stmt(s, e, fn, depth))
            states = nxt
            if len(states) > 64:
                # join to keep the exploration finite
                states = states[:64]
        return states

    def stmt(self, s, env, fn, depth):
        env = dict(env)
        if isinstance(s, ast.Assign):
            try:
                v = self.ev(s.value, env, fn, depth)
            except Rejected:
                return [(env, REJECT)]
            for t in s.targets:
                if isinstance(t, (ast.Name, ast.Tuple, ast.List)):
                    self.assign(t, v, env)
                else:
                    self.ev(t.value, env, fn, depth) if hasattr(t, "value") else None
            return [(env, NEXT)]
        if isinstance(s, ast.Expr):
            try:
                self.ev(s.value, env, fn, depth)
            except Rejected:
                return [(env, REJECT)]
            return [(env, NEXT)]
        if isinstance(s, ast.If):
            try:
                c = self.cond(s.test, env, fn, depth)
            except Rejected:
                return [(env, REJECT)]
            out = []
            if c is not False:
                out += self.block(s.body, env, fn, depth)
            if c is not True:
                out += self.block(s.orelse, env, fn, depth)
            return out
        if isinstance(s, ast.For):
            itv = self.ev(s.iter, env, fn, depth)
            self.iterate(itv, s.iter, fn)
            states = [(env, NEXT)]
            unroll = isinstance(itv, Items) or (isinstance(itv, tuple) and itv[0] in ("const", "constitems"))
            if not unroll:
                b = self.bind_iter(s.target, OTHER, env)[0]
                res = self.block(s.body, b, fn, depth)
                return [(e, NEXT if f in (CONT, BRK, NEXT) else f) for e, f in res] + [(env, NEXT)]
            n_iter = len(self.bind_iter(s.target, itv, env))
            for i in range(n_iter):
                nxt = []
                for e, flow in states:
                    if flow != NEXT:
                        nxt.append((e, flow))
                        continue
                    b = self.bind_iter(s.target, itv, e)[i]
                    for e2, f2 in self.block(s.body, b, fn, depth):
                        nxt.append((e2, NEXT if f2 == CONT else f2))
                states = nxt
            return [(e, NEXT if f == BRK else f) for e, f in states]
        if isinstance(s, ast.While):
            res = self.block(s.body, env, fn, depth)
            return [(e, NEXT if f in (CONT, BRK) else f) for e, f in res] + [(env, NEXT)]
        if isinstance(s, ast.With):
            for it in s.items:
                self.ev(it.context_expr, env, fn, depth)
                if it.optional_vars is not None:
                    self.assign(it.optional_vars, OTHER, env)
            return self.block(s.body, env, fn, depth)
        if isinstance(s, ast.Return):
            if s.value is not None:
                try:
                    self.ev(s.value, env, fn, depth)
                except Rejected:
                    return [(env, REJECT)]
            return [(env, RET)]
        if isinstance(s, ast.Raise):
            return [(env, REJECT)]
        if isinstance(s, ast.Continue):
            return [(env, CONT)]
        if isinstance(s, ast.Break):
            return [(env, BRK)]
        if isinstance(s, ast.Assert):
            c = self.cond(s.test, env, fn, depth)
            if c is False:
                self.hit(s, "assertion fails for an option that was not given: %s" % src(s.test, 60), fn)
                return [(env, REJECT)]
            return [(env, NEXT)]
        if isinstance(s, ast.Try):
            out = self.block(s.body, env, fn, depth)
            return out
        return [(env, NEXT)]


class Rejected(Exception):
    pass


ORDER_CHANGING = {"builtins.sorted", "builtins.set", "builtins.frozenset", "builtins.reversed", "random.shuffle", "random.sample"}


def _may_reorder(prog, e, depth=0):
    """does evaluating `e` pass a list through sorted / set / reversed (directly or in a package function it calls)?"""
    if depth > 3:
        return None
    for c in ast.walk(e):
        if not isinstance(c, ast.Call):
            continue
        funcs = [c.func.body, c.func.orelse] if isinstance(c.func, ast.IfExp) else [c.func]
        for f in funcs:
            if not isinstance(f, (ast.Name, ast.Attribute)):
                continue
            en = prog.ext_name(f, c)
            if en in ORDER_CHANGING:
                return "%s(...)" % en.split(".")[-1]
            for t in prog.resolve_expr_fn(f, c):
                if isinstance(t, FunctionInfo) and isinstance(t.node, ast.FunctionDef):
                    for r in ast.walk(t.node):
                        if isinstance(r, ast.Return) and r.value is not None:
                            w = _may_reorder(prog, r.value, depth + 1)
                            if w:
                                return "%s in %s" % (w, t.qualname)
    return None


def rule_cli2(prog, rep, tier, anchor="__main__.main", sub="sync"):
    model = cli_model(prog)
    opts = model[sub]
    dests = [o.dest for o in opts]
    nullable = [o.dest for o in opts if o.nullable]
    truth_opt = next((o for o in opts if o.choices), None)
    if truth_opt is None or len(nullable) < 4:
        raise AnalysisError("CLI-2: sync CLI model incomplete (nullable %r, choice option %r)" % (nullable, truth_opt))
    fi = prog.inl(prog.fn(anchor))
    # the branch `if command == "sync":`
    branch = None
    for n in ast.walk(fi.node):
        if isinstance(n, ast.If) and isinstance(n.test, ast.Compare) and isinstance(n.test.comparators[0], ast.Constant) and n.test.comparators[0].value == sub:
            branch = n
    if branch is None:
        raise AnalysisError("CLI-2: no `command == %r` branch in main" % sub)
    seen = {}
    order_seen = {}
    n_states = n_accepted = 0
    worker_reached = False
    for truth in sorted(truth_opt.choices):
        for combo in itertools.product((NONE, GIVEN), repeat=len(nullable)):
            sigma = {d: GIVEN for d in dests}
            sigma.update(dict(zip(nullable, combo)))
            sigma[truth_opt.dest] = ("const", truth)
            it = Interp(prog, sigma, {}, dests)
            env = {"args": NS(), "_parser": OTHER, "command": ("const", sub), "return_args": ("const", False)}
            n_states += 1
            try:
                res = it.block(branch.body, env, fi, 0)
            except Rejected:
                res = [(env, REJECT)]
            accepted = any(f != REJECT for _, f in res)
            # events raised on a path that later rejects still count: the deref happens before the usage error
            if accepted or it.events:
                n_accepted += 1 if accepted else 0
            if it.worker_calls:
                worker_reached = True
            for node, what, fn in it.events:
                key = (fn.qualname, node.lineno, node.col_offset, what)
                seen.setdefault(key, (node, what, fn, []))[3].append((truth, dict(zip(nullable, combo))))
            for node, why, fn in it.order_events:
                order_seen.setdefault((fn.qualname, src(node, 60)), (node, why, fn))
    if not worker_reached:
        raise AnalysisError("CLI-2: the interpreter never reached the worker from main's %s branch" % sub)
    by_construct = {}
    for (q, ln, col, what), (node, what, fn, states) in sorted(seen.items()):
        ordn = by_construct.setdefault(q, [])
        ordn.append((node, what, states))
    for q, items in by_construct.items():
        for i, (node, what, states) in enumerate(items, 1):
            files = [d for d in nullable if not d.endswith("_names")]
            states = sorted(states, key=lambda tc: (-(sum(1 for d in files if tc[1][d] == GIVEN) >= 2), sum(1 for v in tc[1].values() if v == GIVEN)))
            truth, combo = states[0]
            given = sorted(d for d, v in combo.items() if v == GIVEN)
            rep.violation(Finding(
                "CLI-2", q, "none-deref:%s" % src(node, 60),
                "%s; reachable for %d accepted/unrejected option combination(s), e.g. --truth %s with only %s given"
                % (what, len(states), truth, ", ".join("--" + g.replace("_", "-") for g in given) or "nothing"), loc(prog, node)))
    if order_seen:
        items = sorted(order_seen.items())
        (q0, text0), (node0, why0, fn0) = items[0]
        rep.violation(Finding(
            "CLI-2", anchor, "reordered-option-lists:%s" % why0.split(" in ")[0],
            "the namespace handed to the sync worker is rebuilt with option lists passed through %s, and elements are then taken from such lists by position (%s): "
            "which file is `the first` (the truth) no longer depends on the order given on the command line"
            % (why0, "; ".join("%s in %s" % (t_, q_) for (q_, t_), _ in items[:3])), loc(prog, node0)))
    rep.ob("CLI-2", "%d option-presence states x truth kinds interpreted through main and the sync worker; %d not rejected" % (n_states, n_accepted),
           "holds" if not seen else "violation", loc(prog, branch), "%d None-dereference site(s)" % len(seen))
