"""
COORD: positions measured on a transformed copy of a string are not used to cut the original.

`text.strip()`, `.lstrip()`, `.casefold()`, `.lower()`, `.replace(..)`, `.expandtabs()` ... give a string whose length and
character positions differ from the original's.  A number obtained from such a copy - `len(copy)`, `copy.find(..)`,
the index of `enumerate(copy)`, the positions returned by a search helper that normalised its input - is a position
*in the copy*.  Using it as a subscript or slice bound of the original string cuts at the wrong place whenever the
transformation changed the length before that point (leading blanks skipped, "ß" -> "ss").

Forward dataflow over the statement CFG of each function, tags per variable:
  ("o", S)  the string S itself or a slice of it (offset-preserving: positions map back by adding the slice start)
  ("x", S)  a string derived from S through a length-changing transformation
  ("ix", S) a number measured on an ("x", S) string
  ("p", S)  a number measured on S itself (harmless; it becomes "ix" when S turns out to be a transformed argument of a callee)
A violation is `V[...bound...]` where V carries ("o", S) and the bound carries ("ix", S).  Calls of package functions
use return summaries computed by the same analysis (which parameter the result is a view / a transformation / a
position-in-a-transformation of, also when the transformation is a callable passed as an argument, e.g.
`key=str.casefold`).  Everything unknown carries no tag: the rule only speaks where it can name both ends.
"""
import ast

from sa.cfg import CFG
from sa.model import AnalysisError, Finding, FunctionInfo, enclosing_fn, loc, src

PREFIX_KEEPING = {"rstrip", "removesuffix"}  # what is left is a prefix of the original: positions in it are positions in the original
XF_METHODS = {"strip", "lstrip", "casefold", "lower", "upper", "title", "capitalize", "swapcase", "replace", "expandtabs", "translate",
              "format", "center", "ljust", "rjust", "zfill", "removeprefix", "encode", "decode"}
INDEX_METHODS = {"find", "rfind", "index", "rindex"}
XF_FUNCS = {"builtins.str." + m for m in XF_METHODS} | {"textwrap.dedent", "textwrap.fill", "textwrap.indent", "unicodedata.normalize"}
KEEP_FUNCS = {"builtins.str", "builtins.iter", "builtins.list", "builtins.tuple", "builtins.reversed"}


def _u(*sets):
    out = set()
    for s in sets:
        out |= set(s)
    return frozenset(out)


class Coord(object):
    def __init__(self, prog):
        self.prog = prog
        self.summaries = {}
        self.in_progress = set()
        self.violations = []  # (fi, node, S, bound_src)
        self.n_subscripts = 0

    # ------------------------------------------------------------------ expressions
    def tags(self, e, env, fi):
        if e is None:
            return frozenset()
        if isinstance(e, ast.Name):
            return env.get(e.id, frozenset())
        if isinstance(e, ast.Subscript):
            base = self.tags(e.value, env, fi)
            bounds = []
            if isinstance(e.slice, ast.Slice):
                bounds = [b for b in (e.slice.lower, e.slice.upper, e.slice.step) if b is not None]
            else:
                bounds = [e.slice]
            btags = _u(*[self.tags(b, env, fi) for b in bounds])
            if base:
                self.n_subscripts += 1
            for t in base:
                if t[0] == "o" and ("ix", t[1]) in btags:
                    self.violations.append((fi, e, t[1], ", ".join(src(b, 30) for b in bounds)))
            return frozenset(t for t in base if t[0] in ("o", "x", "xk"))
        if isinstance(e, ast.IfExp):
            return _u(self.tags(e.body, env, fi), self.tags(e.orelse, env, fi))
        if isinstance(e, ast.BinOp):
            left, right = self._single_def(e.left, fi), e.right
            if isinstance(e.op, ast.Sub) and self._is_len(left) and self._is_len(right):
                # len(s) - len(s.lstrip(..)): the number of characters stripped from the front, a position in s itself
                # (either length, and the stripped copy, may be held in a local bound once)
                a, b = left.args[0], self._single_def(right.args[0], fi)
                if isinstance(b, ast.Call) and isinstance(b.func, ast.Attribute) and b.func.attr in ("lstrip", "removeprefix") and ast.dump(b.func.value) == ast.dump(a):
                    self.tags(a, env, fi)
                    return frozenset(("p", t[1]) for t in self.tags(a, env, fi) if t[0] == "o")
            return _u(self.tags(e.left, env, fi), self.tags(e.right, env, fi))
        if isinstance(e, ast.BoolOp):
            return _u(*[self.tags(v, env, fi) for v in e.values])
        if isinstance(e, (ast.Tuple, ast.List)):
            return _u(*[self.tags(x, env, fi) for x in e.elts])
        if isinstance(e, ast.Starred):
            return self.tags(e.value, env, fi)
        if isinstance(e, ast.JoinedStr):
            return frozenset()
        if isinstance(e, ast.Call):
            return self.call(e, env, fi)
        return frozenset()

    @staticmethod
    def _single_def(e, fi):
        """the value of a local that is bound exactly once in the function (else the expression itself)"""
        if isinstance(e, ast.Name) and fi is not None:
            defs = [st for st in ast.walk(fi.node) if isinstance(st, ast.Assign) and any(isinstance(t, ast.Name) and t.id == e.id for t in st.targets)]
            stores = [n for n in ast.walk(fi.node) if isinstance(n, ast.Name) and n.id == e.id and isinstance(n.ctx, ast.Store)]
            if len(defs) == 1 and len(stores) == 1 and len(defs[0].targets) == 1:
                return defs[0].value
        return e

    @staticmethod
    def _is_len(e):
        return isinstance(e, ast.Call) and isinstance(e.func, ast.Name) and e.func.id == "len" and len(e.args) == 1

    def _xf(self, ts):
        return frozenset(("x", t[1]) if t[0] in ("o", "x") else t for t in ts if t[0] in ("o", "x", "xk"))

    def _ix(self, ts):
        out = set()
        for t in ts:
            if t[0] == "o":
                out.add(("p", t[1]))
            elif t[0] == "x":
                out.add(("ix", t[1]))
            elif t[0] == "xk":
                out.add(("ixk", t[1], t[2]))
            elif t[0] in ("ix", "ixk", "p"):
                out.add(t)
        return frozenset(out)

    def call(self, e, env, fi):
        prog = self.prog
        f = e.func
        argt = [self.tags(a, env, fi) for a in e.args]
        kwt = {k.arg: self.tags(k.value, env, fi) for k in e.keywords if k.arg}
        if isinstance(f, ast.Attribute):
            recv = self.tags(f.value, env, fi)
            en = prog.ext_name(f, e)
            if en in XF_FUNCS and argt:
                return self._xf(argt[0])
            if en is None or not en.startswith(("os.", "ast.", "itertools.", "functools.")):
                if f.attr in PREFIX_KEEPING and recv:
                    return frozenset(t for t in recv if t[0] in ("o", "x", "xk"))
                if f.attr in XF_METHODS and recv:
                    return self._xf(recv)
                if f.attr in INDEX_METHODS and recv:
                    return self._ix(recv)
                if f.attr in ("partition", "rpartition", "split", "rsplit", "splitlines") and recv:
                    return frozenset()  # pieces: positions inside a piece are not positions of the whole
        if isinstance(f, ast.Name):
            en = prog.ext_name(f, e)
            if f.id in env and any(t[0] == "callable" for t in env[f.id]):
                # a callable parameter applied to a string: a transformation chosen by the caller
                return frozenset(("xk", t[1], f.id) for a in argt[:1] for t in a if t[0] in ("o", "x")) | frozenset(t for a in argt[:1] for t in a if t[0] == "xk")
            if en == "builtins.len" and argt:
                return self._ix(argt[0])
            if en in ("builtins.range",) and argt:
                return _u(*[frozenset(t for t in a if t[0] in ("ix", "ixk", "p")) for a in argt])
            if en in ("builtins.min", "builtins.max", "builtins.abs", "builtins.int", "builtins.sum") and argt:
                return _u(*[frozenset(t for t in a if t[0] in ("ix", "ixk", "p")) for a in argt])
            if en in KEEP_FUNCS and argt:
                return argt[0]
            if en in XF_FUNCS and argt:
                return self._xf(argt[0])
        # a function of the package: its return summary with parameters replaced by the argument tags
        tg = [t for t in prog.resolve_expr_fn(f, e) if isinstance(t, FunctionInfo)] if isinstance(f, (ast.Name, ast.Attribute)) else []
        if len(tg) == 1 and isinstance(tg[0].node, ast.FunctionDef):
            callee = tg[0]
            summ = self.summary(callee)
            pn = callee.params()
            bind = dict(zip(pn, argt))
            bind.update({k: v for k, v in kwt.items() if k in pn})
            kwexpr = {k.arg: k.value for k in e.keywords if k.arg}
            posexpr = dict(zip(pn, e.args))
            out = set()
            for t in summ:
                at = bind.get(t[1], frozenset())
                if t[0] == "o":
                    out |= set(x for x in at if x[0] in ("o", "x", "xk"))
                elif t[0] == "x":
                    out |= set(self._xf(at))
                elif t[0] == "ix":
                    out |= set(("ix", x[1]) for x in at if x[0] in ("o", "x"))
                elif t[0] == "p":
                    # measured on the parameter as given: a position in the transformed copy when the argument is one
                    out |= set(("ix", x[1]) if x[0] == "x" else ("p", x[1]) for x in at if x[0] in ("o", "x"))
                elif t[0] in ("xk", "ixk"):
                    kexpr = kwexpr.get(t[2], posexpr.get(t[2]))
                    ken = prog.ext_name(kexpr, kexpr) if isinstance(kexpr, (ast.Name, ast.Attribute)) else None
                    is_xf = ken in XF_FUNCS or (isinstance(kexpr, ast.Attribute) and isinstance(kexpr.value, ast.Name) and kexpr.value.id == "str" and kexpr.attr in XF_METHODS)
                    if is_xf:
                        if t[0] == "xk":
                            out |= set(self._xf(at))
                        else:
                            out |= set(("ix", x[1]) for x in at if x[0] in ("o", "x"))
            return frozenset(out)
        return frozenset()

    # ------------------------------------------------------------------ statements
    def assign(self, target, value_tags, value_expr, env, fi):
        if isinstance(target, ast.Name):
            env[target.id] = value_tags
        elif isinstance(target, (ast.Tuple, ast.List)):
            if isinstance(value_expr, (ast.Tuple, ast.List)) and len(value_expr.elts) == len(target.elts):
                for t, v in zip(target.elts, value_expr.elts):
                    self.assign(t, self.tags(v, env, fi), v, env, fi)
            else:
                for t in target.elts:
                    self.assign(t, value_tags, None, env, fi)
        elif isinstance(target, ast.Starred):
            self.assign(target.value, value_tags, None, env, fi)

    def transfer(self, node, env, fi):
        s = node.stmt
        env = dict(env)
        if s is None:
            return env
        if node.kind == "for":
            it = s.iter
            if isinstance(it, ast.Call) and isinstance(it.func, ast.Name) and it.func.id == "enumerate" and it.args and isinstance(s.target, ast.Tuple) and len(s.target.elts) == 2:
                xt = self.tags(it.args[0], env, fi)
                self.assign(s.target.elts[0], self._ix(xt), None, env, fi)
                self.assign(s.target.elts[1], frozenset(t for t in xt if t[0] in ("o", "x", "xk")), None, env, fi)
            else:
                self.assign(s.target, self.tags(it, env, fi), None, env, fi)
            return env
        if node.kind in ("if", "while", "assert"):
            self.tags(s.test, env, fi)
            return env
        if node.kind == "with":
            for it in s.items:
                self.tags(it.context_expr, env, fi)
                if it.optional_vars is not None:
                    self.assign(it.optional_vars, frozenset(), None, env, fi)
            return env
        if isinstance(s, ast.Assign):
            vt = self.tags(s.value, env, fi)
            for t in s.targets:
                self.assign(t, vt, s.value, env, fi)
        elif isinstance(s, ast.AnnAssign) and s.value is not None:
            self.assign(s.target, self.tags(s.value, env, fi), s.value, env, fi)
        elif isinstance(s, ast.AugAssign) and isinstance(s.target, ast.Name):
            env[s.target.id] = _u(env.get(s.target.id, frozenset()), self.tags(s.value, env, fi))
        elif isinstance(s, ast.Return):
            if s.value is not None:
                self._returns.append(self.tags(s.value, env, fi))
        elif isinstance(s, ast.Expr):
            self.tags(s.value, env, fi)
        elif isinstance(s, (ast.Raise,)) and s.exc is not None:
            self.tags(s.exc, env, fi)
        return env

    def analyse(self, fi, record=True):
        a = fi.node.args
        env0 = {}
        defaults = dict(zip([x.arg for x in a.args][len(a.args) - len(a.defaults):], a.defaults))
        for x in a.posonlyargs + a.args + a.kwonlyargs:
            tags = {("o", x.arg)}
            d = defaults.get(x.arg)
            # a parameter that is *called* in the body is a callable parameter
            if any(isinstance(c, ast.Call) and isinstance(c.func, ast.Name) and c.func.id == x.arg for c in ast.walk(fi.node)):
                tags = {("callable", x.arg)}
            env0[x.arg] = frozenset(tags)
        cfg = CFG(fi.node)
        state = {cfg.entry: env0}
        work = [cfg.entry]
        self._returns = []
        viol_mark = len(self.violations)
        iters = 0
        while work and iters < 5000:
            iters += 1
            n = work.pop()
            out = self.transfer(n, state.get(n, {}), fi)
            for m, _ in cfg.succ[n]:
                old = state.get(m)
                if old is None:
                    state[m] = dict(out)
                    work.append(m)
                else:
                    changed = False
                    for k, v in out.items():
                        nv = _u(old.get(k, frozenset()), v)
                        if nv != old.get(k, frozenset()):
                            old[k] = nv
                            changed = True
                    if changed:
                        work.append(m)
        rets = _u(*self._returns) if self._returns else frozenset()
        if not record:
            del self.violations[viol_mark:]
        else:
            # dedupe the violations of this function (the fixpoint visits nodes repeatedly)
            seen, keep = set(), []
            for v in self.violations[viol_mark:]:
                k = (id(v[1]), v[2])
                if k not in seen:
                    seen.add(k)
                    keep.append(v)
            self.violations[viol_mark:] = keep
        return rets

    def summary(self, fi):
        if id(fi) in self.summaries:
            return self.summaries[id(fi)]
        if id(fi) in self.in_progress:
            return frozenset()
        self.in_progress.add(id(fi))
        saved = self._returns if hasattr(self, "_returns") else []
        try:
            rets = self.analyse(fi, record=False)
        finally:
            self.in_progress.discard(id(fi))
            self._returns = saved
        pn = set(fi.params())
        summ = frozenset(t for t in rets if t[0] in ("o", "x", "ix", "p", "xk", "ixk") and t[1] in pn)
        self.summaries[id(fi)] = summ
        return summ


def rule_coord(prog, rep, tier, anchors=("defaults_utils.extract_default", "defaults_utils.set_default_doc"), scope=None):
    """COORD over the regions of `anchors` (or the functions of `scope`)."""
    fns = list(scope) if scope is not None else []
    if scope is None:
        seen = set()
        for q in anchors:
            for f in prog.reachable([prog.fn(q)]):
                if id(f) not in seen and isinstance(f.node, ast.FunctionDef):
                    seen.add(id(f))
                    fns.append(f)
    co = Coord(prog)
    for f in fns:
        before = len(co.violations)
        co.analyse(f, record=True)
        if len(co.violations) == before:
            rep.ob("COORD", "%s: no position measured on a transformed copy cuts the original" % f.qualname, "holds", loc(prog, f.node), "")
    reported = set()
    for fi, node, S, bound in co.violations:
        key = (fi.qualname, S)
        if key in reported:
            continue
        reported.add(key)
        rep.violation(Finding(
            "COORD", prog.owner_name(fi), "transformed-position:%s" % S,
            "%s is cut at a position (%s) that was measured on a transformed copy of it (strip / casefold / replace ... change lengths): the cut is "
            "off by the number of characters the transformation removed or added before that point" % (src(node.value, 30), bound), loc(prog, node)))
    if co.n_subscripts < 3:
        raise AnalysisError("COORD: only %d subscripts of tracked strings seen in %d functions" % (co.n_subscripts, len(fns)))
