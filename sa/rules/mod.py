"""
MOD family: mutation, ownership, frame (DESIGN.md section 3 "MOD").

Abstract values ("kinds") for expressions that may alias a piece of the caller's IR:
  IR0   the IR dict               L1   ir["params"] / ir["returns"]         L2   one parameter dict
  PAIR  (name, L2) tuple          ITEMS iterable of PAIR                      VALUES iterable of L2
  INTERNAL ir["_internal"]        BODY  ir["_internal"]["body"] (list of nodes)  NODE  one node of BODY
Each kind carries owned=False/True (an owned container still aliases the level below it: shallow copies).
The interpreter walks a function body in source order (flow-sensitive, branch-joining), follows calls to repository
functions with the kinds of the arguments (memoised summaries) and records writes.
"""
import ast

from sa.cfg import CFG
from sa.model import AnalysisError, ClassInfo, Finding, FunctionInfo, dump, enclosing_fn, loc, names_in, src

DICT_MUTATORS = {"update", "pop", "popitem", "clear", "setdefault", "move_to_end", "__setitem__", "__delitem__"}
LIST_MUTATORS = {"append", "extend", "insert", "pop", "remove", "clear", "sort", "reverse"}
AST_FIELDS = set()
for _n in dir(ast):
    _c = getattr(ast, _n)
    if isinstance(_c, type) and issubclass(_c, ast.AST):
        AST_FIELDS.update(getattr(_c, "_fields", ()))
AST_FIELDS -= {"ctx"}


class K(object):
    __slots__ = ("lvl", "owned", "okeys")

    def __init__(self, lvl, owned=False, okeys=frozenset()):
        self.lvl, self.owned, self.okeys = lvl, owned, frozenset(okeys)

    def __eq__(self, o):
        return isinstance(o, K) and (self.lvl, self.owned, self.okeys) == (o.lvl, o.owned, o.okeys)

    def __hash__(self):
        return hash((self.lvl, self.owned, self.okeys))

    def __repr__(self):
        return "%s%s%s" % (self.lvl, "*" if self.owned else "", sorted(self.okeys) if self.okeys else "")


def join(a, b):
    if a is None:
        return b
    if b is None:
        return a
    if a.lvl != b.lvl:
        return a if not a.owned else b
    return K(a.lvl, a.owned and b.owned, a.okeys & b.okeys)


class Write(object):
    def __init__(self, fn, node, level, what, owned, key=None):
        self.fn, self.node, self.level, self.what, self.owned, self.key = fn, node, level, what, owned, key


class Interp(object):
    def __init__(self, prog):
        self.prog = prog
        self.writes = []
        self.reads = []  # (fn, level, how, node)
        self.seen = set()
        self.transformers = {c.qualname for m in prog.modules.values() for c in m.classes.values() if "NodeTransformer" in c.base_names()}
        self.returns_alias = {}

    # -- expression kinds -------------------------------------------------------------------------------------
    def kind(self, e, env):
        if e is None:
            return None
        if isinstance(e, ast.Name):
            return env.get(e.id)
        if isinstance(e, ast.Subscript):
            b = self.kind(e.value, env)
            if b is None:
                return None
            key = e.slice.value if isinstance(e.slice, ast.Constant) else None
            return self._step(b, key, isinstance(e.slice, ast.Slice))
        if isinstance(e, ast.BoolOp):
            out = None
            for v in e.values:
                out = join(out, self.kind(v, env))
            return out
        if isinstance(e, ast.IfExp):
            return join(self.kind(e.body, env), self.kind(e.orelse, env))
        if isinstance(e, (ast.ListComp, ast.GeneratorExp)) and len(e.generators) == 1:
            g = e.generators[0]
            b = self.kind(g.iter, env)
            if b is not None and b.lvl == "BODY" and isinstance(g.target, ast.Name):
                e2 = dict(env)
                e2[g.target.id] = K("NODE", False)
                ke = self.kind(e.elt, e2)
                if ke is not None and ke.lvl == "NODE":
                    return K("BODY", False) if not ke.owned else K("BODY", True)
                return None
            return None
        if isinstance(e, ast.Tuple) and len(e.elts) == 2:
            k = self.kind(e.elts[1], env)
            if k is not None and k.lvl == "L2":
                return K("PAIR", k.owned)
            return None
        if isinstance(e, ast.Starred):
            return self.kind(e.value, env)
        if isinstance(e, ast.Call):
            f = e.func
            if isinstance(f, ast.Attribute):
                b = self.kind(f.value, env)
                if b is not None:
                    if f.attr == "get" and e.args:
                        key = e.args[0].value if isinstance(e.args[0], ast.Constant) else None
                        return self._step(b, key, False)
                    if f.attr == "items" and b.lvl == "L1":
                        return K("ITEMS", b.owned)
                    if f.attr == "values" and b.lvl == "L1":
                        return K("VALUES", b.owned)
                    if f.attr in ("copy",):
                        return K(b.lvl, True)
                    if f.attr in ("pop",) and b.lvl == "L1":
                        return K("L2", False)
                    if f.attr in ("setdefault",) and b.lvl == "L1":
                        return K("L2", False)
            nm = f.id if isinstance(f, ast.Name) else (f.attr if isinstance(f, ast.Attribute) else None)
            if nm in ("deepcopy",):
                return None
            if nm == "copy" and e.args:
                a = self.kind(e.args[0], env)
                if a is not None and a.lvl in ("NODE", "BODY"):
                    return K(a.lvl, False)  # a shallow copy: the children are still the caller's nodes
            if nm in ("OrderedDict", "dict") and e.args:
                a = self.kind(e.args[0], env)
                if a is not None and a.lvl in ("L1", "ITEMS"):
                    return K("L1", True)
                if a is not None and a.lvl == "IR0":
                    ok = {k.arg for k in e.keywords if k.arg and self._fresh_container(k.value)}
                    return K("IR0", True, ok)
                if a is not None and a.lvl == "L2":
                    return K("L2", True)
                if isinstance(e.args[0], ast.Call) and (e.args[0].func.id if isinstance(e.args[0].func, ast.Name) else "") == "chain":
                    return K("L1", True)
                return None
            if nm in ("list", "tuple", "iter", "reversed", "sorted") and len(e.args) >= 1:
                a = self.kind(e.args[0], env)
                if a is not None and a.lvl in ("ITEMS", "VALUES"):
                    return a
                if a is not None and a.lvl == "BODY":
                    return K("BODY", True)
                return None
            if nm == "filter" and len(e.args) == 2:
                a = self.kind(e.args[1], env)
                return a if a is not None and a.lvl in ("ITEMS", "VALUES", "BODY") else None
            if nm == "chain":
                out = None
                for a in e.args:
                    out = join(out, self.kind(a, env))
                return out
            if nm == "next" and e.args:
                a = self.kind(e.args[0], env)
                if a is not None and a.lvl == "ITEMS":
                    return K("PAIR", False)
                if a is not None and a.lvl == "VALUES":
                    return K("L2", False)
                if a is not None and a.lvl == "BODY":
                    return K("NODE", a.owned)
                return None
            if nm == "map" and len(e.args) == 2:
                # map(f, ITEMS) where f returns its argument (e.g. fix_missing_locations, identity-like)
                a = self.kind(e.args[1], env)
                if a is not None and a.lvl == "BODY":
                    fe = e.args[0]
                    if isinstance(fe, ast.Attribute) and fe.attr in ("fix_missing_locations",):
                        return a
                    if isinstance(fe, ast.Name) and fe.id == "copy":
                        return K("BODY", False)  # element-wise shallow copies
                    if isinstance(fe, ast.Attribute) and fe.attr == "visit":
                        return a  # transformer returns the (mutated) nodes
                return None
            # repository function returning (an alias of) one of its arguments
            for t in self.prog.resolve_expr_fn(f, e):
                if isinstance(t, FunctionInfo):
                    idx = self._returns_param(t)
                    if idx is not None:
                        names = [x.arg for x in t.node.args.args]
                        args = list(e.args)
                        pn = names[idx] if idx < len(names) else None
                        arg = args[idx] if idx < len(args) and not any(isinstance(a, ast.Starred) for a in args[: idx + 1]) else next((k.value for k in e.keywords if k.arg == pn), None)
                        return self.kind(arg, env) if arg is not None else None
                    if idx is None and t.qualname != "emitter_utils.get_internal_body" and isinstance(t.node, ast.FunctionDef) \
                            and getattr(self, "_ret_depth", 0) < 2:
                        # return-kind summary: the join of the kinds of what the helper returns, its parameters bound to the
                        # kinds of the arguments (a helper that copies only some elements of a carried body hands back a
                        # list that still shares nodes with it)
                        names = [x.arg for x in t.node.args.posonlyargs + t.node.args.args]
                        cenv = {}
                        for nme, a_ in zip(names, e.args):
                            if not isinstance(a_, ast.Starred):
                                k_ = self.kind(a_, env)
                                if k_ is not None:
                                    cenv[nme] = k_
                        for kw_ in e.keywords:
                            if kw_.arg in names:
                                k_ = self.kind(kw_.value, env)
                                if k_ is not None:
                                    cenv[kw_.arg] = k_
                        if cenv:
                            rets = [r.value for r in ast.walk(t.node) if isinstance(r, ast.Return) and enclosing_fn(r) is t and r.value is not None]
                            self._ret_depth = getattr(self, "_ret_depth", 0) + 1
                            try:
                                out = None
                                for r in rets:
                                    out = join(out, self.kind(r, cenv))
                            finally:
                                self._ret_depth -= 1
                            if out is not None:
                                return out
                    if t.qualname == "emitter_utils.get_internal_body":
                        irk = next((self.kind(k.value, env) for k in e.keywords if k.arg == "intermediate_repr"), None) or (self.kind(e.args[2], env) if len(e.args) > 2 else None)
                        if irk is not None and irk.lvl == "IR0":
                            return K("BODY", False)
            return None
        return None

    def _fresh_container(self, v):
        return isinstance(v, (ast.Dict, ast.List)) or (isinstance(v, ast.Call) and (v.func.id if isinstance(v.func, ast.Name) else "") in ("OrderedDict", "dict", "list", "deepcopy"))

    def _step(self, b, key, is_slice):
        if b.lvl == "IR0":
            if key in ("params", "returns"):
                return K("L1", key in b.okeys)
            if key == "_internal":
                return K("INTERNAL", key in b.okeys)
            return None
        if b.lvl == "INTERNAL":
            return K("BODY", False) if key == "body" else None
        if b.lvl == "L1":
            return K("L2", False)
        if b.lvl == "PAIR":
            return K("L2", b.owned) if key == 1 else None
        if b.lvl == "BODY":
            return K("BODY", True) if is_slice else K("NODE", False)
        if b.lvl == "L2":
            return None
        return None

    def _returns_param(self, fi):
        """index of the parameter that fi returns on every return (alias summary), else None."""
        if fi.qualname in self.returns_alias:
            return self.returns_alias[fi.qualname]
        names = [x.arg for x in fi.node.args.args]
        rets = [r for r in ast.walk(fi.node) if isinstance(r, ast.Return) and enclosing_fn(r) is fi]
        idx = None
        if rets and all(isinstance(r.value, ast.Name) and r.value.id in names for r in rets) and len({r.value.id for r in rets}) == 1:
            nm = rets[0].value.id
            rebound = any(isinstance(n, ast.Name) and n.id == nm and isinstance(n.ctx, ast.Store) for n in ast.walk(fi.node))
            if not rebound:
                idx = names.index(nm)
        self.returns_alias[fi.qualname] = idx
        return idx

    # -- statements ---------------------------------------------------------------------------------------------
    def run(self, fi, param_kinds, depth=0):
        key = (fi.qualname, tuple(sorted((k, repr(v)) for k, v in param_kinds.items())))
        if key in self.seen or depth > 6:
            return
        self.seen.add(key)
        env = dict(param_kinds)
        self._block(fi, fi.node.body, env, depth)

    def _block(self, fi, stmts, env, depth):
        for s in stmts:
            self._stmt(fi, s, env, depth)

    def _stmt(self, fi, s, env, depth):
        if isinstance(s, (ast.FunctionDef, ast.AsyncFunctionDef, ast.ClassDef)):
            return
        if isinstance(s, ast.If):
            self._exprs(fi, s.test, env, depth)
            e1, e2 = dict(env), dict(env)
            self._block(fi, s.body, e1, depth)
            self._block(fi, s.orelse, e2, depth)
            for k in set(e1) | set(e2):
                a, b = e1.get(k), e2.get(k)
                env[k] = join(a, b) if (a is not None and b is not None) else (a or b)
            return
        if isinstance(s, (ast.For, ast.AsyncFor)):
            self._exprs(fi, s.iter, env, depth)
            self._bind_iter(s.target, self.kind(s.iter, env), env)
            self._block(fi, s.body, env, depth)
            self._block(fi, s.orelse, env, depth)
            return
        if isinstance(s, ast.While):
            self._exprs(fi, s.test, env, depth)
            self._block(fi, s.body, env, depth)
            return
        if isinstance(s, ast.With):
            for it in s.items:
                self._exprs(fi, it.context_expr, env, depth)
            self._block(fi, s.body, env, depth)
            return
        if isinstance(s, ast.Try):
            self._block(fi, s.body, env, depth)
            for h in s.handlers:
                self._block(fi, h.body, env, depth)
            self._block(fi, s.orelse, env, depth)
            self._block(fi, s.finalbody, env, depth)
            return
        if isinstance(s, ast.Assign):
            self._exprs(fi, s.value, env, depth)
            for t in s.targets:
                self._target_write(fi, t, s, env)
            k = self.kind(s.value, env)
            for t in s.targets:
                self._bind(t, k, s.value, env)
            return
        if isinstance(s, ast.AugAssign):
            self._exprs(fi, s.value, env, depth)
            self._target_write(fi, s.target, s, env)
            # `name += ...` on a name that aliases a list of the caller's IR extends that very list in place
            if isinstance(s.target, ast.Name) and isinstance(s.op, ast.Add):
                k = env.get(s.target.id)
                if k is not None and k.lvl in ("BODY", "L1", "ITEMS"):
                    self.writes.append(Write(fi, s, "BODY" if k.lvl == "BODY" else k.lvl, "%s += ..." % s.target.id, k.owned))
            return
        if isinstance(s, ast.Delete):
            for t in s.targets:
                self._target_write(fi, t, s, env, what="del")
                if isinstance(t, ast.Name):
                    env.pop(t.id, None)
            return
        for child in ast.iter_child_nodes(s):
            if isinstance(child, ast.expr):
                self._exprs(fi, child, env, depth)

    def _bind(self, t, k, value, env):
        if isinstance(t, ast.Name):
            if k is None:
                env.pop(t.id, None)
            else:
                env[t.id] = k
        elif isinstance(t, (ast.Tuple, ast.List)):
            if k is not None and k.lvl == "PAIR" and len(t.elts) == 2:
                if isinstance(t.elts[1], ast.Name):
                    env[t.elts[1].id] = K("L2", k.owned)
                if isinstance(t.elts[0], ast.Name):
                    env.pop(t.elts[0].id, None)
            elif isinstance(value, (ast.Tuple, ast.List)) and len(value.elts) == len(t.elts):
                ks = [self.kind(v, env) for v in value.elts]
                for te, kk in zip(t.elts, ks):
                    self._bind(te, kk, None, env)
            else:
                for te in t.elts:
                    if isinstance(te, ast.Name):
                        env.pop(te.id, None)

    def _bind_iter(self, target, k, env):
        if k is None:
            for n in names_in(target):
                env.pop(n, None)
            return
        if k.lvl == "ITEMS":
            self._bind(target, K("PAIR", False), None, env) if isinstance(target, (ast.Tuple, ast.List)) else env.__setitem__(target.id, K("PAIR", False)) if isinstance(target, ast.Name) else None
        elif k.lvl == "VALUES" and isinstance(target, ast.Name):
            env[target.id] = K("L2", False)
        elif k.lvl == "BODY" and isinstance(target, ast.Name):
            env[target.id] = K("NODE", k.owned)

    def _target_write(self, fi, t, stmt, env, what="set"):
        if isinstance(t, ast.Subscript):
            b = self.kind(t.value, env)
            if b is not None and b.lvl in ("IR0", "L1", "L2", "BODY", "INTERNAL"):
                key = t.slice.value if isinstance(t.slice, ast.Constant) else None
                self.writes.append(Write(fi, stmt, b.lvl, "%s[%s]" % (what, src(t.slice, 30)), b.owned, key))
        elif isinstance(t, ast.Attribute):
            b = self.kind(t.value, env)
            if b is not None and b.lvl in ("NODE",) and t.attr in AST_FIELDS:
                self.writes.append(Write(fi, stmt, "NODE", "%s .%s" % (what, t.attr), b.owned, t.attr))
        elif isinstance(t, (ast.Tuple, ast.List)):
            for e in t.elts:
                self._target_write(fi, e, stmt, env, what)

    def _exprs(self, fi, e, env, depth):
        """visit calls inside an expression in evaluation-ish order; handle lambdas with bound parameter kinds."""
        if e is None:
            return
        for c in self._calls_in(e):
            self._call(fi, c, env, depth)

    def _calls_in(self, e):
        out = []

        def go(n):
            if isinstance(n, ast.Lambda):
                return
            for ch in ast.iter_child_nodes(n):
                go(ch)
            if isinstance(n, ast.Call):
                out.append(n)

        go(e)
        return out

    def _call(self, fi, c, env, depth):
        f = c.func
        nm = f.id if isinstance(f, ast.Name) else (f.attr if isinstance(f, ast.Attribute) else None)
        # mutator methods on tracked containers
        if isinstance(f, ast.Attribute):
            b = self.kind(f.value, env)
            if b is not None:
                if b.lvl in ("IR0", "L1", "L2", "INTERNAL") and f.attr in DICT_MUTATORS:
                    key = c.args[0].value if c.args and isinstance(c.args[0], ast.Constant) else None
                    self.writes.append(Write(fi, c, b.lvl, ".%s(%s)" % (f.attr, src(c.args[0], 30) if c.args else ""), b.owned, key))
                elif b.lvl == "BODY" and f.attr in LIST_MUTATORS:
                    self.writes.append(Write(fi, c, "BODY", ".%s()" % f.attr, b.owned))
            if f.attr == "visit" and c.args:
                if self._is_transformer(f.value, c):
                    a = self.kind(c.args[0], env)
                    if a is not None and a.lvl in ("NODE", "BODY"):
                        self.writes.append(Write(fi, c, "NODE", "NodeTransformer.visit(%s)" % src(c.args[0], 30), a.owned))
        if nm in ("setitem", "setattr", "delitem") and c.args:
            b = self.kind(c.args[0], env)
            if b is not None and b.lvl in ("IR0", "L1", "L2"):
                key = c.args[1].value if len(c.args) > 1 and isinstance(c.args[1], ast.Constant) else None
                self.writes.append(Write(fi, c, b.lvl, "%s(...)" % nm, b.owned, key))
            if nm == "setitem" and c.args and isinstance(c.args[0], ast.Starred):
                # setitem(*(d, k, v) if ... else (d2, k2, v2))
                for tup in ast.walk(c.args[0].value):
                    if isinstance(tup, ast.Tuple) and len(tup.elts) == 3:
                        b = self.kind(tup.elts[0], env)
                        if b is not None and b.lvl in ("IR0", "L1", "L2"):
                            self.writes.append(Write(fi, c, b.lvl, "setitem(*...)", b.owned))
        # map(F, X) / filter / next(map(...)): element-wise application
        if nm in ("map", "filter") and len(c.args) >= 2:
            ak = self.kind(c.args[1], env)
            if ak is None and isinstance(c.args[1], ast.Call) and (c.args[1].func.id if isinstance(c.args[1].func, ast.Name) else "") == "deepcopy" and c.args[1].args:
                inner = self.kind(c.args[1].args[0], env)
                if inner is not None and inner.lvl in ("BODY", "NODE"):
                    ak = K(inner.lvl, True)
            if ak is not None:
                elem = {"ITEMS": K("PAIR", False), "VALUES": K("L2", False), "BODY": K("NODE", ak.owned)}.get(ak.lvl)
                if elem is not None:
                    self._apply(fi, c.args[0], [elem], env, depth, c)
            return
        if nm == "deque" and c.args:
            return
        # direct calls to repository functions with tracked arguments
        tg = [t for t in self.prog.resolve_expr_fn(f, c) if isinstance(t, (FunctionInfo, ClassInfo))]
        if len(tg) == 1:
            t = tg[0]
            callee = t.methods.get("__init__") if isinstance(t, ClassInfo) else t
            if callee is None:
                return
            a = callee.node.args
            names = [x.arg for x in a.posonlyargs + a.args]
            if callee.cls is not None and names and names[0] in ("self", "cls"):
                names = names[1:]
            pk = {}
            for i, arg in enumerate(c.args):
                if isinstance(arg, ast.Starred):
                    break
                k = self.kind(arg, env)
                if k is not None and i < len(names):
                    pk[names[i]] = k
            for kw in c.keywords:
                if kw.arg:
                    k = self.kind(kw.value, env)
                    if k is not None:
                        pk[kw.arg] = k
            if pk:
                self.run(callee, pk, depth + 1)
        elif isinstance(f, ast.Call) or isinstance(f, ast.Lambda):
            # (lambda x: ...)(arg) / partial(...)(arg)
            ks = [self.kind(a, env) for a in c.args]
            if any(k is not None for k in ks):
                self._apply(fi, f, ks, env, depth, c)

    def _apply(self, fi, fe, arg_kinds, env, depth, at):
        """apply a function-valued expression to positional argument kinds."""
        if isinstance(fe, ast.Lambda):
            e2 = dict(env)
            for p, k in zip([x.arg for x in fe.args.args], arg_kinds):
                if k is None:
                    e2.pop(p, None)
                else:
                    e2[p] = k
            self._exprs(fi, fe.body, e2, depth)
            # nested lambdas inside the body are applied where they are called; handle immediately-called ones
            return
        extra_kw = {}
        if isinstance(fe, ast.Call) and self.prog.ext_name(fe.func, fe) == "functools.partial" and fe.args:
            pre = [self.kind(a, env) for a in fe.args[1:]]
            extra_kw = {k.arg: self.kind(k.value, env) for k in fe.keywords if k.arg}
            arg_kinds = pre + list(arg_kinds)
            fe = fe.args[0]
        if isinstance(fe, ast.Attribute) and fe.attr == "visit" and self._is_transformer(fe.value, at):
            k = arg_kinds[0] if arg_kinds else None
            if k is not None and k.lvl in ("NODE", "BODY"):
                self.writes.append(Write(fi, at, "NODE", "NodeTransformer.visit over %s" % k.lvl, k.owned))
            return
        for t in self.prog.resolve_expr_fn(fe, at):
            if isinstance(t, FunctionInfo):
                names = [x.arg for x in t.node.args.posonlyargs + t.node.args.args]
                pk = {n: k for n, k in zip(names, arg_kinds) if k is not None}
                pk.update({n: k for n, k in extra_kw.items() if k is not None})
                if pk:
                    self.run(t, pk, depth + 1)

    def _is_transformer(self, recv, at):
        """receiver expression is an instance of a NodeTransformer subclass of the repository"""
        if isinstance(recv, ast.Call):
            for t in self.prog.resolve_expr_fn(recv.func, at):
                if isinstance(t, ClassInfo) and t.qualname in self.transformers:
                    return True
        if isinstance(recv, ast.Name):
            fn = enclosing_fn(recv)
            if fn is not None:
                for st in ast.walk(fn.node):
                    if isinstance(st, ast.Assign) and any(isinstance(x, ast.Name) and x.id == recv.id for x in st.targets) and isinstance(st.value, ast.Call):
                        for t in self.prog.resolve_expr_fn(st.value.func, st):
                            if isinstance(t, ClassInfo) and t.qualname in self.transformers:
                                return True
        return False


EMITTERS = ("emit.argparse_function", "emit.class_", "emit.docstring", "emit.function")


def emitter_writes(prog):
    def compute():
        it = Interp(prog)
        for q in EMITTERS:
            fi = prog.fn(q)
            it.run(fi, {fi.params()[0]: K("IR0")})
        return it

    return prog.memo("mod.emitters", compute)


def _wkey(w):
    return "%s %s" % (w.level, w.what)


def rule_mod1_2(prog, rep, tier, accepted_field=None):
    """MOD-1/MOD-2 (armed): no emitter changes the shape of the caller's IR (adds/deletes/reorders keys of the IR or of
    its params/returns mappings) nor transforms the carried body nodes in place.
    MOD-5: writes into a shared parameter dict (field level) are reported per site; sites listed in `accepted_field`
    (confirmed on today's tree, value-dependent) are informational, any other is a violation."""
    accepted_field = accepted_field or {}
    it = emitter_writes(prog)
    seen = set()
    n_shape = n_body = n_field = 0
    # a site reached both with an owned copy and with the caller's own dict is judged in the worse context
    for w in sorted(it.writes, key=lambda w_: bool(w_.owned)):
        where = w.fn.qualname
        construct = "%s: %s" % (_wkey(w), src(w.node, 70))
        if (where, construct) in seen:
            continue
        seen.add((where, construct))
        if w.level in ("IR0", "L1", "INTERNAL"):
            n_shape += 1
            if w.owned:
                rep.holds("MOD-1", "%s: %s" % (where, construct), loc(prog, w.node), "write to an owned copy")
            else:
                rep.violation(Finding(
                    "MOD-1", where, construct,
                    "an emitter changes the shape of the IR object it was given (%s): a later emission from the same IR (sync hands one IR to every "
                    "emitter in turn) sees different keys / parameters / order than on a fresh copy" % src(w.node, 80), loc(prog, w.node)))
        elif w.level in ("NODE", "BODY"):
            n_body += 1
            if w.owned:
                rep.holds("MOD-2", "%s: %s" % (where, construct), loc(prog, w.node), "applied to a copy")
            else:
                rep.violation(Finding(
                    "MOD-2", where, construct,
                    "carried body nodes of the caller's IR are transformed in place (%s): a later emission from the same IR carries the rewritten nodes"
                    % src(w.node, 80), loc(prog, w.node)))
        elif w.level == "L2":
            n_field += 1
            if w.owned:
                rep.holds("MOD-5", "%s: %s" % (where, construct), loc(prog, w.node), "write to an owned parameter dict")
            elif (where, construct) in accepted_field:
                rep.ob("MOD-5", "%s: %s" % (where, construct), "accepted", loc(prog, w.node), accepted_field[(where, construct)])
            else:
                rep.violation(Finding(
                    "MOD-5", where, construct,
                    "an emit-path helper writes into a parameter dict of the caller's IR (%s); the site is not among those confirmed on the reference "
                    "tree, so the value a sibling emitter reads for this parameter can change" % src(w.node, 80), loc(prog, w.node)))
    rep.note("MOD", "emit path: %d shape-level, %d body-level, %d field-level write sites; %d (function, kinds) summaries" % (n_shape, n_body, n_field, len(it.seen)))
    if len(it.seen) < 10:
        raise AnalysisError("MOD: only %d function summaries computed from the four emitters; the alias model is evidently incomplete" % len(it.seen))
    if n_field < 5:
        raise AnalysisError("MOD: only %d field-level writes found on the emit path (>= 10 are known to exist)" % n_field)


# ---------------------------------------------------------------------------- MOD-3 parsers own what they mutate
def _field_writes_on(fi, roots):
    """statements of fi that write an AST field of a value rooted at one of the names in `roots`."""
    out = []
    for n in ast.walk(fi.node):
        if enclosing_fn(n) is not fi and n is not fi.node:
            continue
        tgts = []
        if isinstance(n, ast.Assign):
            tgts = n.targets
        elif isinstance(n, (ast.AugAssign,)):
            tgts = [n.target]
        elif isinstance(n, ast.Delete):
            tgts = n.targets
        for t in tgts:
            base = t
            hit = False
            while isinstance(base, (ast.Attribute, ast.Subscript)):
                if isinstance(base, ast.Attribute) and base.attr in AST_FIELDS:
                    hit = True
                base = base.value
            if hit and isinstance(base, ast.Name) and base.id in roots:
                out.append((n, base.id))
        if isinstance(n, ast.Expr) and isinstance(n.value, ast.Call):
            c = n.value
            if isinstance(c.func, ast.Name) and c.func.id == "setattr" and c.args:
                base = c.args[0]
                while isinstance(base, (ast.Attribute, ast.Subscript)):
                    base = base.value
                if isinstance(base, ast.Name) and base.id in roots:
                    out.append((n, base.id))
            elif isinstance(c.func, ast.Attribute) and c.func.attr in LIST_MUTATORS:
                base = c.func.value
                hit = False
                while isinstance(base, (ast.Attribute, ast.Subscript)):
                    if isinstance(base, ast.Attribute) and base.attr in AST_FIELDS:
                        hit = True
                    base = base.value
                if hit and isinstance(base, ast.Name) and base.id in roots:
                    out.append((n, base.id))
    return out


def _owning_rebinds(fi, name):
    """statements `name = deepcopy(...)` / `name = ast.parse(...)...` (fresh tree)"""
    out = []
    for n in ast.walk(fi.node):
        if isinstance(n, ast.Assign) and any(isinstance(t, ast.Name) and t.id == name for t in n.targets):
            v = n.value
            core = v
            while isinstance(core, (ast.Attribute, ast.Subscript)):
                core = core.value
            if isinstance(core, ast.Call) and (core.func.id if isinstance(core.func, ast.Name) else getattr(core.func, "attr", "")) in ("deepcopy", "parse", "ast_parse"):
                out.append(n)
    return out


def rule_mod3(prog, rep, tier, parsers=("parse.class_", "parse.function", "parse.argparse_ast", "parse._merge_inner_function")):
    """MOD-3: a parser writes AST fields of its input tree only after rebinding the name to a copy on every path."""
    n = 0
    public = [prog.fn(q) for q in parsers if prog.has_fn(q) and not q.split(".")[-1].startswith("_")]
    if len(public) < 3:
        raise AnalysisError("MOD-3: public parsers not found: %r" % (parsers,))
    fns = [f for f in prog.reachable(public) if f.module.name == "parse" and f.parent_fn is None and f.params()
           and (f in public or f.params()[0] in ("class_def", "function_def", "node", "tree"))]
    for fi in fns:
        q = fi.qualname
        root = fi.params()[0]
        cfg = CFG(fi.node)
        # locals holding fresh trees count as owned roots from their definition
        ws = _field_writes_on(fi, {root} | {t.id for st in ast.walk(fi.node) if isinstance(st, ast.Assign) for t in st.targets if isinstance(t, ast.Name)})
        for st, base0 in ws:
            n += 1
            # a local that is a view into another tree (`arguments = function_def.args`): the write goes to that tree,
            # and what matters is whether *it* was a copy at the point the view was taken
            base, site = base0, st
            for _ in range(3):
                defs_ = [s_ for s_ in ast.walk(fi.node) if isinstance(s_, ast.Assign) and any(isinstance(t_, ast.Name) and t_.id == base for t_ in s_.targets)]
                if len(defs_) != 1 or base == root:
                    break
                core_ = defs_[0].value
                while isinstance(core_, (ast.Attribute, ast.Subscript)):
                    core_ = core_.value
                if not (isinstance(core_, ast.Name) and core_.id != base and core_ is not defs_[0].value):
                    break
                base, site = core_.id, defs_[0]
            rebinds = _owning_rebinds(fi, base)
            node = cfg.node_of(site)
            ok = False
            if rebinds and node is not None:
                blocked = {cfg.node_of(r) for r in rebinds}
                # reachable from entry without passing a rebinding?
                seen, todo = set(), [cfg.entry]
                reach = False
                while todo:
                    x = todo.pop()
                    if x in seen or x in blocked:
                        continue
                    seen.add(x)
                    if x is node:
                        reach = True
                        break
                    todo.extend(m for m, _ in cfg.succ[x])
                ok = not reach
            if base != root and not rebinds:
                # a local never bound to a fresh tree: is it an alias of the input?
                ok = False
                defs = [s for s in ast.walk(fi.node) if isinstance(s, ast.Assign) and any(isinstance(t, ast.Name) and t.id == base for t in s.targets)]
                if defs and all(root not in names_in(s.value) for s in defs):
                    continue  # unrelated local
            inst = "%s: %s" % (q, src(st, 70))
            if ok:
                rep.holds("MOD-3", inst, loc(prog, st), "every path from entry passes `%s = deepcopy(...)`/fresh parse first" % base)
            else:
                rep.violation(Finding(
                    "MOD-3", q, "field-write:%s" % src(st, 70),
                    "%s writes a field of the syntax tree it was given (%s) on a path that has not rebound `%s` to a copy: a later parse or emit of "
                    "that tree sees the change" % (q, src(st, 70), base), loc(prog, st)))
    if n < 3:
        raise AnalysisError("MOD-3: only %d AST field writes found in the parsers (parse.function has three)" % n)


# ---------------------------------------------------------------------------- MOD-F frame rule / MOD-F2 foreign nodes
def rule_modf(prog, rep, tier, workers=("conformance._conform_filename", "sync_properties.sync_properties")):
    """MOD-F: between reading a target module and writing it back, the only field-visible writes on the tree are the
    replacer's (under a location match) or identity-preserving re-listings; everything else must be disabled at the
    worker's call site or touch non-field attributes only."""
    reader = prog.fn("source_transformer.ast_parse")
    n = 0
    # 1. writes inside the reader and what guards them
    rparams = reader.params()
    writes = _field_writes_on(reader, {t.id for st in ast.walk(reader.node) if isinstance(st, ast.Assign) for t in st.targets if isinstance(t, ast.Name)} | set(rparams))
    from sa.cfg import expr_guards, facts
    guarded_by = {}
    for st, base in writes:
        flags = set()
        for t, p in expr_guards(st, stop=reader.node):
            for a, pol in facts(t, p):
                if isinstance(a, ast.Name) and a.id in rparams:
                    flags.add((a.id, pol))
        guarded_by[st] = flags
    for w in workers:
        fi = prog.inl(prog.fn_role(w, "conform_file") if w == "conformance._conform_filename" else prog.fn(w))
        reads = [c for f_ in prog.region(fi) for c in ast.walk(f_.node) if isinstance(c, ast.Call) and prog.is_fn(c.func, "source_transformer.ast_parse", c)]
        if not reads:
            raise AnalysisError("MOD-F: %s no longer reads its module through ast_parse" % w)
        # which read produces the tree that is written back?  the one assigned to the name passed to emit.file
        written = set()
        for c in ast.walk(fi.node):
            if isinstance(c, ast.Call) and prog.is_fn(c.func, "emit.file", c) and c.args:
                written |= names_in(c.args[0])
        for rc in reads:
            st = rc
            while not isinstance(st, ast.stmt):
                st = st._parent
            tgt = {t.id for t in getattr(st, "targets", []) if isinstance(t, ast.Name)}
            if enclosing_fn(rc) is fi and written and not (tgt & written):
                continue  # a tree that is only read (truth / input)
            for wst, flags in guarded_by.items():
                n += 1
                disabled = False
                for fname, pol in flags:
                    # the write runs only if flag == pol; the call site passes a constant with the other truth value
                    v = next((k.value for k in rc.keywords if k.arg == fname), None)
                    if isinstance(v, ast.Constant) and bool(v.value) != pol:
                        disabled = True
                inst = "%s reads its target with %s; reader write %s" % (w, src(rc, 60), src(wst, 50))
                if disabled:
                    rep.holds("MOD-F", inst, loc(prog, rc), "disabled by the constant flag at the call site")
                else:
                    rep.violation(Finding(
                        "MOD-F", w, "reader-write:%s" % src(wst, 60),
                        "%s parses the module it is about to rewrite with %s, and ast_parse then executes %s on a node that is not the addressed "
                        "location (the module docstring is re-indented)" % (w, src(rc, 60), src(wst, 60)), loc(prog, rc)))
    # 2. annotate_ancestry / find_in_ast: field writes must be identity-preserving re-listings
    for q in ("ast_utils.annotate_ancestry", "ast_utils.find_in_ast"):
        fi = prog.fn(q)
        for st in ast.walk(fi.node):
            if isinstance(st, ast.Assign):
                for t in st.targets:
                    if isinstance(t, ast.Attribute) and t.attr not in AST_FIELDS and not isinstance(t.value, ast.Name) or \
                            (isinstance(t, ast.Attribute) and t.attr not in AST_FIELDS and t.attr in ("default", "_idx", "_location")):
                        n += 1
                        rep.holds("MOD-F", "%s: %s is not an AST field" % (q, src(t, 40)), loc(prog, st), "invisible to unparse")
                    if isinstance(t, ast.Attribute) and t.attr in AST_FIELDS:
                        n += 1
                        if _is_identity_relist(prog, fi, t, st.value):
                            rep.holds("MOD-F", "%s: %s re-lists the same elements" % (q, src(t, 40)), loc(prog, st), "list(map(F, enumerate(X.a))) with F returning its element")
                        else:
                            rep.violation(Finding("MOD-F", q, "field-write:%s" % src(st, 60),
                                                  "%s assigns the AST field %s with something other than the same elements" % (q, src(t, 40)), loc(prog, st)))
            elif isinstance(st, ast.Call) and isinstance(st.func, ast.Name) and st.func.id == "setattr" and len(st.args) == 3:
                nm = st.args[1].value if isinstance(st.args[1], ast.Constant) else None
                n += 1
                if nm is not None and nm not in AST_FIELDS:
                    rep.holds("MOD-F", "%s: setattr(..., %r, ...) is not an AST field" % (q, nm), loc(prog, st), "invisible to unparse")
                else:
                    rep.violation(Finding("MOD-F", q, "setattr:%s" % src(st, 50), "%s sets an AST field (or a computed attribute) on a node of the tree" % q, loc(prog, st)))
    if n < 3:
        raise AnalysisError("MOD-F: only %d write sites examined on the read->write path" % n)


def _relisting_param(t):
    """index of the parameter whose elements, all of them and in order, the helper hands back in a new list:
    `out = []; for [i,] e in [enumerate](param[, k]): ...; out.append(e)` (unconditionally) `; return out`"""
    body = [s_ for s_ in t.node.body if not (isinstance(s_, ast.Expr) and isinstance(s_.value, ast.Constant))]
    rets = [r for r in ast.walk(t.node) if isinstance(r, ast.Return)]
    if len(rets) != 1 or not isinstance(rets[0].value, ast.Name) or rets[0] is not body[-1]:
        return None
    out = rets[0].value.id
    inits = [s_ for s_ in body if isinstance(s_, ast.Assign) and any(isinstance(x, ast.Name) and x.id == out for x in s_.targets)]
    if len(inits) != 1 or not (isinstance(inits[0].value, ast.List) and not inits[0].value.elts):
        return None
    loops = [s_ for s_ in body if isinstance(s_, ast.For)]
    if len(loops) != 1 or loops[0].orelse:
        return None
    lp = loops[0]
    it = lp.iter
    elem = lp.target
    if isinstance(it, ast.Call) and isinstance(it.func, ast.Name) and it.func.id == "enumerate" and it.args and isinstance(lp.target, ast.Tuple) and len(lp.target.elts) == 2:
        it, elem = it.args[0], lp.target.elts[1]
    pn = t.params()
    if not (isinstance(it, ast.Name) and it.id in pn and isinstance(elem, ast.Name)):
        return None
    if any(isinstance(x, (ast.Break, ast.Continue, ast.Return)) for x in ast.walk(lp)):
        return None
    appends = [s_ for s_ in lp.body if isinstance(s_, ast.Expr) and isinstance(s_.value, ast.Call) and isinstance(s_.value.func, ast.Attribute) and s_.value.func.attr == "append"
               and isinstance(s_.value.func.value, ast.Name) and s_.value.func.value.id == out and len(s_.value.args) == 1
               and isinstance(s_.value.args[0], ast.Name) and s_.value.args[0].id == elem.id]
    other = [x for x in ast.walk(lp) if isinstance(x, ast.Call) and isinstance(x.func, ast.Attribute) and isinstance(x.func.value, ast.Name) and x.func.value.id == out]
    if len(appends) != 1 or len(other) != 1:
        return None
    if any(isinstance(x, ast.Name) and x.id == elem.id and isinstance(x.ctx, ast.Store) for s_ in lp.body for x in ast.walk(s_)):
        return None
    return pn.index(it.id)


def _is_identity_relist(prog, fi, target, value):
    """value == list(map(F, enumerate(<same attribute>, ...))) with F returning element[1] of its argument, or a helper
    that hands back all elements of that attribute in a new list"""
    v = value
    want = dump(ast.Attribute(value=target.value, attr=target.attr, ctx=ast.Load()))
    if isinstance(v, ast.Call) and isinstance(v.func, (ast.Name, ast.Attribute)):
        for t in prog.resolve_expr_fn(v.func, v):
            if isinstance(t, FunctionInfo) and isinstance(t.node, ast.FunctionDef):
                idx = _relisting_param(t)
                if idx is not None:
                    pn = t.params()
                    a = v.args[idx] if idx < len(v.args) else next((k.value for k in v.keywords if k.arg == pn[idx]), None)
                    if isinstance(a, ast.Name):
                        defs = [s2 for s2 in ast.walk(fi.node) if isinstance(s2, ast.Assign) and any(isinstance(t2, ast.Name) and t2.id == a.id for t2 in s2.targets)]
                        if len(defs) == 1:
                            a = defs[0].value
                    if a is not None and dump(a) == want:
                        return True
    if isinstance(v, ast.Call) and isinstance(v.func, ast.Name) and v.func.id == "list" and v.args:
        v = v.args[0]
    if isinstance(v, (ast.ListComp, ast.GeneratorExp)) and len(v.generators) == 1 and not v.generators[0].ifs and isinstance(v.elt, ast.Call) \
            and len(v.elt.args) == 1 and dump(v.elt.args[0]) == dump(ast.Name(id=getattr(v.generators[0].target, "id", "?"), ctx=ast.Load())):
        fe, it = v.elt.func, v.generators[0].iter
    elif isinstance(v, ast.Call) and isinstance(v.func, ast.Name) and v.func.id == "map" and len(v.args) == 2:
        fe, it = v.args
    else:
        return False
    # the iterable may be a local bound once to enumerate(...) or to the attribute itself
    if isinstance(it, ast.Name):
        defs = [s2 for s2 in ast.walk(fi.node) if isinstance(s2, ast.Assign) and any(isinstance(t2, ast.Name) and t2.id == it.id for t2 in s2.targets)]
        if len(defs) == 1:
            it = defs[0].value
    if not (isinstance(it, ast.Call) and isinstance(it.func, ast.Name) and it.func.id == "enumerate" and it.args):
        return False
    src_list = it.args[0]
    if isinstance(src_list, ast.Name):
        defs = [s2 for s2 in ast.walk(fi.node) if isinstance(s2, ast.Assign) and any(isinstance(t2, ast.Name) and t2.id == src_list.id for t2 in s2.targets)]
        if len(defs) == 1:
            src_list = defs[0].value
    if dump(src_list) != dump(ast.Attribute(value=target.value, attr=target.attr, ctx=ast.Load())):
        return False
    n_bound, kw_bound = _partial_bound(prog, fi, fe)
    for t in prog.resolve_expr_fn(fe, value):
        if isinstance(t, FunctionInfo):
            free = [x for x in t.params()[n_bound:] if x not in kw_bound]
            if not free:
                return False
            p = free[0]  # the parameter that receives the (index, element) pair
            # names bound once to the pair's second element: `i, e = p` / `e = p[1]`
            second = set()
            for st in ast.walk(t.node):
                if isinstance(st, ast.Assign) and len(st.targets) == 1:
                    tg, vv = st.targets[0], st.value
                    if isinstance(tg, ast.Tuple) and len(tg.elts) == 2 and isinstance(tg.elts[1], ast.Name) and isinstance(vv, ast.Name) and vv.id == p:
                        second.add(tg.elts[1].id)
                    elif isinstance(tg, ast.Name) and _is_second_of(vv, p):
                        second.add(tg.id)
            second = {nm for nm in second if sum(1 for x in ast.walk(t.node) if isinstance(x, ast.Name) and x.id == nm and isinstance(x.ctx, ast.Store)) == 1}
            rets = [r for r in ast.walk(t.node) if isinstance(r, ast.Return)]
            return bool(rets) and all(_is_second_of(r.value, p) or (isinstance(r.value, ast.Name) and r.value.id in second) for r in rets)
    return False


def _is_second_of(e, p):
    return isinstance(e, ast.Subscript) and isinstance(e.value, ast.Name) and e.value.id == p and isinstance(e.slice, ast.Constant) and e.slice.value == 1


def _partial_bound(prog, fi, fe):
    """(number of positional arguments, keyword names) already bound when `fe` is `partial(f, ...)` or a local bound once to one"""
    if isinstance(fe, ast.Name):
        defs = [s2 for s2 in ast.walk(fi.node) if isinstance(s2, ast.Assign) and any(isinstance(t2, ast.Name) and t2.id == fe.id for t2 in s2.targets)]
        if len(defs) == 1:
            fe = defs[0].value
    if isinstance(fe, ast.Call) and isinstance(fe.func, (ast.Name, ast.Attribute)) and prog.ext_name(fe.func, fe) == "functools.partial" and fe.args:
        n, kw = _partial_bound(prog, fi, fe.args[0])
        return n + len(fe.args) - 1, kw | {k.arg for k in fe.keywords if k.arg}
    return 0, set()


def _fresh_value(prog, v, depth=0):
    """is the expression a freshly built / copied node?  deepcopy(...), ast.<Node>(...), or a call of a repository
    function all of whose returns are fresh"""
    if isinstance(v, ast.IfExp):
        return _fresh_value(prog, v.body, depth) and _fresh_value(prog, v.orelse, depth)
    if not isinstance(v, ast.Call):
        return False
    nm = v.func.id if isinstance(v.func, ast.Name) else getattr(v.func, "attr", "")
    if nm == "deepcopy":
        return True
    if isinstance(v.func, (ast.Name, ast.Attribute)) and (prog.ext_name(v.func, v) or "").startswith("ast."):
        return True
    if depth < 3:
        for t in prog.resolve_expr_fn(v.func, v):
            if isinstance(t, FunctionInfo):
                rets = [r.value for r in ast.walk(t.node) if isinstance(r, ast.Return) and enclosing_fn(r) is t]
                if not rets:
                    return False
                ok = True
                for r in rets:
                    if isinstance(r, ast.Name):
                        defs = [st.value for st in ast.walk(t.node) if isinstance(st, ast.Assign) and any(isinstance(x, ast.Name) and x.id == r.id for x in st.targets)]
                        ok = ok and bool(defs) and all(_fresh_value(prog, d, depth + 1) for d in defs)
                    else:
                        ok = ok and _fresh_value(prog, r, depth + 1)
                return ok
    return False


def rule_modf2(prog, rep, tier, anchor="sync_properties.sync_property"):
    """MOD-F2: the node that is field-mutated and grafted into the output tree is owned: every definition of it is a fresh
    construction or a deepcopy (directly or through a helper) - never a bare alias of a node found in the input tree."""
    fi = prog.fn(anchor)
    region = prog.region(fi)
    if not any(isinstance(c, ast.Call) and prog.is_fn(c.func, "ast_utils.find_in_ast", c) for f in region for c in ast.walk(f.node)):
        raise AnalysisError("MOD-F2: %s no longer looks the input node up with find_in_ast" % anchor)
    grafts = [(x, k.value.id) for x in ast.walk(fi.node) if isinstance(x, ast.Call) for k in x.keywords if k.arg == "replacement_node" and isinstance(k.value, ast.Name)]
    if not grafts:
        raise AnalysisError("MOD-F2: %s no longer hands a `replacement_node=` to the replacer" % anchor)
    for g, name in grafts:
        defs = [st for st in ast.walk(fi.node) if isinstance(st, ast.Assign) and any(isinstance(t, ast.Name) and t.id == name for t in st.targets)]
        mutated = [w for w, b in _field_writes_on(fi, {name})]
        bad = [d for d in defs if not _fresh_value(prog, d.value)]
        if not defs:
            rep.ob("MOD-F2", "%s: %s" % (anchor, name), "unresolved", loc(prog, g), "no local definition of the grafted node")
        elif bad:
            rep.violation(Finding(
                "MOD-F2", anchor, "foreign-node:%s" % name,
                "the node %s (%s) is %sgrafted into the output tree without a copy: a second pair addressing the same input property sees the already "
                "wrapped annotation, and input and output trees share nodes" % (name, src(bad[0].value, 60), "field-mutated (%s) and " % src(mutated[0], 50) if mutated else ""),
                loc(prog, bad[0])))
        else:
            rep.holds("MOD-F2", "%s: every definition of %s is a fresh node or a deepcopy (%d definition(s), %d field write(s))" % (anchor, name, len(defs), len(mutated)), loc(prog, defs[0]), "")


def rule_modf2_conform(prog, rep, tier, anchor="conformance._conform_filename", table_owner="conformance.ground_truth"):
    """MOD-F2 (sync): the node that is grafted into a target's tree (`replacement_node=` of the replacer, or appended with
    emit.file) is built afresh for that target: every definition of it is a constructor call, a deepcopy, or a call of an
    emitter of the dispatch table (each of which returns a freshly constructed node).  A node handed back from a cache,
    a container or an attribute is shared between targets: the replacer mutates it for the first target (argument
    conversion, `_keep`-style grafts) and the second target receives the altered node."""
    from sa.rules.call import _tables
    fi = prog.inl(prog.fn_role(anchor, "conform_file"))
    emitters = [v for rows in _tables(prog, prog.fn(table_owner)).values() for _, row in rows for v in row.vals
                if isinstance(v, FunctionInfo) and v.module.name == "emit"]
    if len(emitters) < 2:
        raise AnalysisError("MOD-F2: dispatch table of %s has no emitters" % table_owner)

    def emitter_fresh(e):
        rets = [r.value for r in ast.walk(e.node) if isinstance(r, ast.Return) and enclosing_fn(r) is e]
        return bool(rets) and all(_fresh_value(prog, r) for r in rets)
    all_fresh = all(emitter_fresh(e) for e in emitters)
    params = set(fi.params())

    def fresh(v):
        if isinstance(v, ast.IfExp):
            return fresh(v.body) and fresh(v.orelse)
        if isinstance(v, ast.Call) and isinstance(v.func, ast.Name) and v.func.id in params and not prog.resolve_expr_fn(v.func, v):
            return all_fresh  # a call through the emitter parameter
        if isinstance(v, ast.Call) and isinstance(v.func, ast.Attribute) and isinstance(v.func.value, ast.Name) and v.func.value.id in params:
            return all_fresh  # row.emit_func(...)
        return _fresh_value(prog, v)
    grafted = set()
    for x in ast.walk(fi.node):
        if isinstance(x, ast.Call):
            for k in x.keywords:
                if k.arg == "replacement_node" and isinstance(k.value, ast.Name):
                    grafted.add(k.value.id)
            if prog.is_fn(x.func, "emit.file", x) and x.args and isinstance(x.args[0], ast.Name):
                grafted.add(x.args[0].id)
    # the tree read from the target itself is the target's own
    reads = {t.id for st in ast.walk(fi.node) if isinstance(st, ast.Assign) and any(isinstance(c, ast.Call) and prog.is_fn(c.func, "source_transformer.ast_parse", c) for c in ast.walk(st.value))
             for t in st.targets if isinstance(t, ast.Name)}
    grafted -= reads
    if not grafted:
        raise AnalysisError("MOD-F2: %s no longer hands a named node to the replacer / emit.file" % anchor)
    for name in sorted(grafted):
        defs = [st for st in ast.walk(fi.node) if isinstance(st, ast.Assign) and any(isinstance(t, ast.Name) and t.id == name for t in st.targets)]
        bad = [d for d in defs if not fresh(d.value)]
        if not defs:
            rep.ob("MOD-F2", "%s: %s" % (anchor, name), "unresolved", loc(prog, fi.node), "no local definition of the grafted node")
        elif bad:
            rep.violation(Finding(
                "MOD-F2", anchor, "shared-node:%s" % name,
                "the node %s (%s) that is grafted into a target's tree is not built afresh for that target: it can be the very object already grafted into "
                "(and altered for) an earlier target of the same run" % (name, src(bad[0].value, 60)), loc(prog, bad[0])))
        else:
            rep.holds("MOD-F2", "%s: every definition of %s is a fresh emitter result (%d definition(s); %d emitters all return constructor calls)"
                      % (anchor, name, len(defs), len(emitters)), loc(prog, defs[0]), "")
