"""
FALSY: an explicit default value is never judged by its truthiness.

The properties' own input domain contains the falsy defaults 0, 0.0, False and '' ("an int (negative and zero
included) ... a bool, a str"), and "no default" is represented by the *absence* of the key (or None).  A default value
used as a truth test therefore conflates "explicitly zero / False / empty" with "absent".  Sources: reads of the IR key
"default" (X["default"], X.get("default"[, d])), the second element of extract_default(...)'s result, and the value of an
add_argument keyword selected by `<kw>.arg == "default"`.  Sinks: test of if / while / conditional expression / assert,
operand of `not`, non-final operand of and/or, comprehension condition.  Comparisons (`is None`, `in none_types`,
`== NoneStr`) are not truthiness tests of the value.

One construct class where the conflation is provably harmless is accepted semantically (see _accepted_reason).  (A second one, 'the
return entry's default is a source string, so falsy == absent', was withdrawn: parse.function yields the numbers 0 / 0.0 / False
for `return 0`, and emit.function dropped the return statement for them - fixed in /repo c5bebac.)
A call `helper(default)` in a truth position counts as a test of the default itself when the helper can hand its argument back
unchanged (quote(None) is None, quote('') is ''): `quote(d) or '""'` cannot tell None from the empty string.

STRIP-SET: str.lstrip/rstrip/strip with a literal word (>= 4 characters, >= 2 letters) removes a character *set*,
not a prefix/suffix: on prose it eats leading/trailing letters of the real text.
"""
import ast

from sa.model import AnalysisError, Finding, FunctionInfo, enclosing_fn, loc, src
from sa.rules import nodeflow


def _dnf(test, polarity):
    """alternatives (lists of (atom, polarity)) under which `test` has truth value `polarity`"""
    if isinstance(test, ast.UnaryOp) and isinstance(test.op, ast.Not):
        return _dnf(test.operand, not polarity)
    if isinstance(test, ast.BoolOp):
        conj = isinstance(test.op, ast.And) == bool(polarity)
        parts = [_dnf(v, polarity) for v in test.values]
        if conj:
            out = [[]]
            for p in parts:
                out = [a + b for a in out for b in p][:64]
            return out
        return [alt for p in parts for alt in p][:64]
    return [[(test, polarity)]]

def _accepted_reason(fi, c, holder):
    """Semantic exceptions (each a construct class with its reason), not text matches."""
    # (B) `default or simple_types[typ]`: a falsy default is replaced by the zero value of the same declared type
    if isinstance(holder, ast.BoolOp) and isinstance(holder.op, ast.Or):
        last = holder.values[-1]
        if any(isinstance(x, ast.Name) and x.id == "simple_types" for x in ast.walk(last)):
            return "a falsy default (0, 0.0, False, '') is replaced by the zero value of the same declared type, which is the same value"
    return None


def _is_default_read(e):
    if isinstance(e, ast.Subscript) and isinstance(e.slice, ast.Constant) and e.slice.value == "default":
        return True
    if isinstance(e, ast.Call) and isinstance(e.func, ast.Attribute) and e.func.attr == "get" and e.args and isinstance(e.args[0], ast.Constant) and e.args[0].value == "default":
        return True
    return False


def _default_names(prog, fi):
    dn = {}
    for st in ast.walk(fi.node):
        if not isinstance(st, ast.Assign):
            continue
        v = st.value
        if _is_default_read(v):
            for t in st.targets:
                if isinstance(t, ast.Name):
                    dn[t.id] = "read of the IR key 'default'"
        if isinstance(v, ast.Subscript) and isinstance(v.slice, ast.Constant) and v.slice.value == 1 and isinstance(v.value, ast.Call) \
                and prog.is_fn(v.value.func, "defaults_utils.extract_default", v):
            for t in st.targets:
                if isinstance(t, ast.Name):
                    dn[t.id] = "extract_default(...)[1]"
        if isinstance(v, ast.Call) and prog.is_fn(v.func, "defaults_utils.extract_default", v) and isinstance(st.targets[0], ast.Tuple) and len(st.targets[0].elts) == 2 \
                and isinstance(st.targets[0].elts[1], ast.Name):
            dn[st.targets[0].elts[1].id] = "second element of extract_default(...)"
        if isinstance(v, ast.Call) and isinstance(v.func, ast.Name) and v.func.id == "next" and v.args and isinstance(v.args[0], ast.GeneratorExp):
            g = v.args[0]
            if any(isinstance(c, ast.Compare) and isinstance(c.left, ast.Attribute) and c.left.attr == "arg" and isinstance(c.comparators[0], ast.Constant) and c.comparators[0].value == "default"
                   for gen in g.generators for i in gen.ifs for c in ast.walk(i)):
                for t in st.targets:
                    if isinstance(t, ast.Name):
                        dn[t.id] = "value of the add_argument keyword 'default'"
    return dn


def _truth_positions(root):
    for n in ast.walk(root):
        if isinstance(n, (ast.If, ast.While, ast.IfExp, ast.Assert)):
            yield n.test, n
        elif isinstance(n, ast.BoolOp):
            for v in n.values[:-1]:
                yield v, n
            # the last operand of and/or is a truth test only when the BoolOp itself is one; handled by the enclosing test
        elif isinstance(n, ast.UnaryOp) and isinstance(n.op, ast.Not):
            yield n.operand, n
        elif isinstance(n, ast.comprehension):
            for c in n.ifs:
                yield c, n


def rule_falsy(prog, rep, tier, scope=None):
    """FALSY over `scope` (iterable of FunctionInfo; None = whole package)."""
    fns = list(scope) if scope is not None else list(prog.all_functions())
    n_sources = n_tests = 0
    seen = set()
    for fi in fns:
        dn = _default_names(prog, fi)
        n_sources += len(dn) + sum(1 for x in ast.walk(fi.node) if _is_default_read(x))
        for t, holder in _truth_positions(fi.node):
            if enclosing_fn(t) is not fi:
                continue
            # unwrap a BoolOp test: its operands are each truth-tested
            cands = [t]
            if isinstance(t, ast.BoolOp):
                cands = list(t.values)
            for c in cands:
                why = None
                if _is_default_read(c):
                    why = "read of the IR key 'default'"
                elif isinstance(c, ast.Name) and c.id in dn:
                    why = dn[c.id]
                elif isinstance(c, ast.Call) and isinstance(c.func, (ast.Name, ast.Attribute)):
                    # `helper(default) or X`: a helper that can hand its argument back unchanged (quote(None) is None, quote('') is '')
                    # makes this a truth test of the default itself
                    for i, a in enumerate(c.args):
                        if _is_default_read(a) or (isinstance(a, ast.Name) and a.id in dn):
                            for t in prog.resolve_expr_fn(c.func, c):
                                if isinstance(t, FunctionInfo) and isinstance(t.node, ast.FunctionDef) and nodeflow.may_return_param(prog, t, i):
                                    why = "%s, handed back unchanged by %s on some path" % (dn.get(getattr(a, "id", None), "read of the IR key 'default'"), t.qualname)
                if why is None:
                    continue
                key = (id(c))
                if key in seen:
                    continue
                seen.add(key)
                n_tests += 1
                construct = "truth:%s in %s" % (src(c, 90), _ctx(holder))
                where = fi.qualname
                why_ok = _accepted_reason(fi, c, holder)
                if why_ok:
                    rep.ob("FALSY", "%s: %s" % (where, construct), "accepted", loc(prog, c), why_ok)
                else:
                    rep.violation(Finding(
                        "FALSY", where, construct,
                        "the default value %s (%s) is used as a truth test in `%s`: an explicit default of 0, 0.0, False or '' - all in the supported domain - is "
                        "treated as 'no default' and is dropped or replaced" % (src(c, 50), why, src(holder, 90)), loc(prog, c)))
    # (None-marker clause) `None` as a *value* is in the domain (`def f(a=None)`, `return None`): the IR carries it as the None marker
    # (`"None"`, the code-quoted form).  A conditional expression that yields nothing (the constant None: no statement, no node) exactly when
    # the default is a member of a collection holding such a marker treats the explicit value as "no default".  Membership tests whose
    # member arm still produces something (`set_value(None)`) are the accepted idiom.
    n_member = 0
    for fi in fns:
        dn = _default_names(prog, fi)
        for ie in ast.walk(fi.node):
            if not isinstance(ie, ast.IfExp) or enclosing_fn(ie) is not fi:
                continue
            for arm, pol in ((ie.body, True), (ie.orelse, False)):
                for alt in _dnf(ie.test, pol):
                    for atom, p_ in alt:
                        if not (isinstance(atom, ast.Compare) and len(atom.ops) == 1 and isinstance(atom.ops[0], (ast.In, ast.NotIn))):
                            continue
                        d = atom.left
                        if not (_is_default_read(d) or (isinstance(d, ast.Name) and d.id in dn)):
                            continue
                        coll = atom.comparators[0]
                        exprs = [coll]
                        for nm in [x for x in ast.walk(coll) if isinstance(x, ast.Name)]:
                            b = prog.lookup(nm.id, atom)   # a collection kept at module level (`none_types`), also as part of `none_types + ("",)`
                            if b[0] == "value":
                                exprs.append(b[2])
                        markers = sorted({x.value for e_ in exprs for x in ast.walk(e_) if isinstance(x, ast.Constant) and isinstance(x.value, str) and x.value.strip()})
                        if not markers:
                            continue
                        n_member += 1
                        member = isinstance(atom.ops[0], ast.In) == bool(p_)   # on this alternative the default IS one of the markers
                        other = ie.orelse if arm is ie.body else ie.body
                        # `None if d in none_types else d` maps the marker to the value None and hands it on (to a node builder, a comparison):
                        # a normalisation of the value, nothing is left out.  The clause is about a choice between *building something* and nothing.
                        normalises = _is_default_read(other) or (isinstance(other, ast.Name) and other.id in dn) or not isinstance(other, (ast.Call, ast.Dict, ast.List, ast.Tuple))
                        if member and isinstance(arm, ast.Constant) and arm.value is None and len(alt) == 1 and not normalises:
                            rep.violation(Finding(
                                "FALSY", fi.qualname, "none-marker-as-absent:%s" % src(atom, 60),
                                "`%s` yields nothing (None) whenever %s is one of %s: an explicit None - `return None`, `=None`, carried in the IR as the None marker %r - "
                                "is treated as 'no default' and is not written" % (src(ie, 90), src(d, 40), src(atom.comparators[0], 30), markers[0]), loc(prog, atom)))
    rep.ob("FALSY", "%d functions, %d reads of a default value, %d used as truth tests, %d membership test(s) against a collection with a None marker"
           % (len(fns), n_sources, n_tests, n_member), "holds", "", "every truth test is listed above; no membership test makes a conditional expression yield nothing")
    if n_sources < 5:
        raise AnalysisError("FALSY: only %d reads of a default value found in scope; the source recogniser is evidently incomplete" % n_sources)


def _ctx(holder):
    if isinstance(holder, ast.IfExp):
        return "%s if ... else %s" % (src(holder.body, 30).split("(")[0] + "(...)" if isinstance(holder.body, ast.Call) else src(holder.body, 30), src(holder.orelse, 30))
    if isinstance(holder, ast.BoolOp):
        return src(holder, 80)
    if isinstance(holder, ast.UnaryOp):
        return src(holder, 60)
    if isinstance(holder, ast.If):
        return "if " + src(holder.test, 70)
    return type(holder).__name__


def _param_constants(prog, fi, pname):
    """the constant values a parameter of fi receives anywhere in the package: direct calls `fi(.., v)` / `fi(.., pname=v)` and
    partial applications `partial(fi, pname=v)` (module level, too)"""
    from sa.consteval import Folder, UNKNOWN
    folder = Folder(prog)
    params = fi.params()
    out = []
    for m in prog.modules.values():
        for c in ast.walk(m.tree):
            if not (isinstance(c, ast.Call) and isinstance(c.func, (ast.Name, ast.Attribute))):
                continue
            args, kws, target = c.args, c.keywords, c.func
            if prog.ext_name(c.func, c) == "functools.partial" and c.args:
                target, args = c.args[0], c.args[1:]
            if not isinstance(target, (ast.Name, ast.Attribute)) or not any(t is fi for t in prog.resolve_expr_fn(target, c)):
                continue
            e = next((k.value for k in kws if k.arg == pname), None)
            if e is None and pname in params and params.index(pname) < len(args):
                e = args[params.index(pname)]
            if e is not None:
                v = folder.fold(e, {}, c)
                if v is not UNKNOWN:
                    out.append(v)
    return out


def rule_stripset(prog, rep, tier, scope=None):
    """STRIP-SET over `scope`: a literal word as the character set of strip / lstrip / rstrip - also when the word arrives through a
    parameter (`for ns in namespaces: s = s.lstrip(ns)` with `namespaces=("typing.", ...)` bound at a call or a partial)."""
    fns = list(scope) if scope is not None else list(prog.all_functions())
    n = 0

    def wordy(v):
        return isinstance(v, str) and len(v) >= 4 and sum(ch.isalpha() for ch in v) >= 2
    for fi in fns:
        for c in ast.walk(fi.node):
            if not (isinstance(c, ast.Call) and isinstance(c.func, ast.Attribute) and c.func.attr in ("lstrip", "rstrip", "strip") and len(c.args) == 1):
                continue
            a = c.args[0]
            if isinstance(a, ast.Constant) and isinstance(a.value, str):
                n += 1
                v = a.value
                if wordy(v):
                    rep.violation(Finding("STRIP-SET", fi.qualname, "%s(%r)" % (c.func.attr, v),
                                          "%s removes any of the characters of %r, not that prefix/suffix: text that begins/ends with some of these letters loses them"
                                          % (src(c, 70), v), loc(prog, c)))
            elif isinstance(a, ast.Name):
                # the argument is a parameter, or a loop variable over one: what the package passes for it
                pname, elementwise = None, False
                if a.id in fi.params():
                    pname = a.id
                else:
                    for loop in ast.walk(fi.node):
                        if isinstance(loop, (ast.For, ast.comprehension)) and isinstance(loop.target, ast.Name) and loop.target.id == a.id \
                                and isinstance(loop.iter, ast.Name) and loop.iter.id in fi.params():
                            pname, elementwise = loop.iter.id, True
                if pname is None:
                    continue
                vals = []
                for v in _param_constants(prog, fi, pname):
                    vals += list(v) if elementwise and isinstance(v, (tuple, list, set, frozenset)) else [v]
                words = sorted({v for v in vals if wordy(v)})
                if vals:
                    n += 1
                if words:
                    rep.violation(Finding("STRIP-SET", fi.qualname, "%s(<%s>):%s" % (c.func.attr, pname, ",".join(words)[:40]),
                                          "%s is handed %s through the parameter `%s`: it removes any of the *characters* of that word, not the prefix/suffix - "
                                          "\"int\".lstrip(\"typing.\") is the empty string" % (src(c, 50), ", ".join(repr(w) for w in words), pname), loc(prog, c)))
    rep.ob("STRIP-SET", "%d strip/lstrip/rstrip calls with a literal or a package-supplied argument in %d functions" % (n, len(fns)), "holds", "", "none strips a word-like character set")
