"""
FALSY: an explicit default value is never judged by its truthiness.

The properties' own input domain contains the falsy defaults 0, 0.0, False and '' ("an int (negative and zero
included) ... a bool, a str"), and "no default" is represented by the *absence* of the key (or None).  A default value
used as a truth test therefore conflates "explicitly zero / False / empty" with "absent".  Sources: reads of the IR key
"default" (X["default"], X.get("default"[, d])), the second element of extract_default(...)'s result, and the value of an
add_argument keyword selected by `<kw>.arg == "default"`.  Sinks: test of if / while / conditional expression / assert,
operand of `not`, non-final operand of and/or, comprehension condition.  Comparisons (`is None`, `in none_types`,
`== NoneStr`) are not truthiness tests of the value.

Two construct classes where the conflation is provably harmless are accepted semantically (see _accepted_reason).

STRIP-SET: str.lstrip/rstrip/strip with a literal word (>= 4 characters, >= 2 letters) removes a character *set*,
not a prefix/suffix: on prose it eats leading/trailing letters of the real text.
"""
import ast

from sa.model import AnalysisError, Finding, enclosing_fn, loc, src

def _accepted_reason(fi, c, holder):
    """Semantic exceptions (each a construct class with its reason), not text matches."""
    # (A) the default of the *return entry* is a source-expression string; '' is not an expression, so falsy == absent
    recv = None
    if isinstance(c, ast.Subscript):
        recv = c.value
    elif isinstance(c, ast.Call) and isinstance(c.func, ast.Attribute):
        recv = c.func.value
    seen = 0
    while isinstance(recv, ast.Name) and seen < 3:
        defs = [st.value for st in ast.walk(fi.node) if isinstance(st, ast.Assign) and any(isinstance(t, ast.Name) and t.id == recv.id for t in st.targets)]
        if len(defs) != 1:
            break
        recv, seen = defs[0], seen + 1
    if recv is not None and any(isinstance(x, ast.Constant) and x.value == "return_type" for x in ast.walk(recv)):
        return "the return entry's default is a source expression string; the empty string is not an expression, so 'falsy' and 'absent' coincide"
    # (B) `default or simple_types[typ]`: a falsy default is replaced by the zero value of the same declared type
    if isinstance(holder, ast.BoolOp) and isinstance(holder.op, ast.Or):
        last = holder.values[-1]
        if any(isinstance(x, ast.Name) and x.id == "simple_types" for x in ast.walk(last)):
            return "a falsy default (0, 0.0, False, '') is replaced by the zero value of the same declared type, which is the same value"
    return None


def _is_default_read(e):
    if isinstance(e, ast.Subscript) and isinstance(e.slice, ast.Constant) and e.slice.value == "default":
        return True
    if isinstance(e, ast.Call) and isinstance(e.func, ast.Attribute) and e.func.attr == "get" and e.args and isinstance(e.args[0], ast.Constant) and e.args[0].value == "default":
        return True
    return False


def _default_names(prog, fi):
    dn = {}
    for st in ast.walk(fi.node):
        if not isinstance(st, ast.Assign):
            continue
        v = st.value
        if _is_default_read(v):
            for t in st.targets:
                if isinstance(t, ast.Name):
                    dn[t.id] = "read of the IR key 'default'"
        if isinstance(v, ast.Subscript) and isinstance(v.slice, ast.Constant) and v.slice.value == 1 and isinstance(v.value, ast.Call) \
                and prog.is_fn(v.value.func, "defaults_utils.extract_default", v):
            for t in st.targets:
                if isinstance(t, ast.Name):
                    dn[t.id] = "extract_default(...)[1]"
        if isinstance(v, ast.Call) and prog.is_fn(v.func, "defaults_utils.extract_default", v) and isinstance(st.targets[0], ast.Tuple) and len(st.targets[0].elts) == 2 \
                and isinstance(st.targets[0].elts[1], ast.Name):
            dn[st.targets[0].elts[1].id] = "second element of extract_default(...)"
        if isinstance(v, ast.Call) and isinstance(v.func, ast.Name) and v.func.id == "next" and v.args and isinstance(v.args[0], ast.GeneratorExp):
            g = v.args[0]
            if any(isinstance(c, ast.Compare) and isinstance(c.left, ast.Attribute) and c.left.attr == "arg" and isinstance(c.comparators[0], ast.Constant) and c.comparators[0].value == "default"
                   for gen in g.generators for i in gen.ifs for c in ast.walk(i)):
                for t in st.targets:
                    if isinstance(t, ast.Name):
                        dn[t.id] = "value of the add_argument keyword 'default'"
    return dn


def _truth_positions(root):
    for n in ast.walk(root):
        if isinstance(n, (ast.If, ast.While, ast.IfExp, ast.Assert)):
            yield n.test, n
        elif isinstance(n, ast.BoolOp):
            for v in n.values[:-1]:
                yield v, n
            # the last operand of and/or is a truth test only when the BoolOp itself is one; handled by the enclosing test
        elif isinstance(n, ast.UnaryOp) and isinstance(n.op, ast.Not):
            yield n.operand, n
        elif isinstance(n, ast.comprehension):
            for c in n.ifs:
                yield c, n


def rule_falsy(prog, rep, tier, scope=None):
    """FALSY over `scope` (iterable of FunctionInfo; None = whole package)."""
    fns = list(scope) if scope is not None else list(prog.all_functions())
    n_sources = n_tests = 0
    seen = set()
    for fi in fns:
        dn = _default_names(prog, fi)
        n_sources += len(dn) + sum(1 for x in ast.walk(fi.node) if _is_default_read(x))
        for t, holder in _truth_positions(fi.node):
            if enclosing_fn(t) is not fi:
                continue
            # unwrap a BoolOp test: its operands are each truth-tested
            cands = [t]
            if isinstance(t, ast.BoolOp):
                cands = list(t.values)
            for c in cands:
                why = None
                if _is_default_read(c):
                    why = "read of the IR key 'default'"
                elif isinstance(c, ast.Name) and c.id in dn:
                    why = dn[c.id]
                if why is None:
                    continue
                key = (id(c))
                if key in seen:
                    continue
                seen.add(key)
                n_tests += 1
                construct = "truth:%s in %s" % (src(c, 90), _ctx(holder))
                where = fi.qualname
                why_ok = _accepted_reason(fi, c, holder)
                if why_ok:
                    rep.ob("FALSY", "%s: %s" % (where, construct), "accepted", loc(prog, c), why_ok)
                else:
                    rep.violation(Finding(
                        "FALSY", where, construct,
                        "the default value %s (%s) is used as a truth test in `%s`: an explicit default of 0, 0.0, False or '' - all in the supported domain - is "
                        "treated as 'no default' and is dropped or replaced" % (src(c, 50), why, src(holder, 90)), loc(prog, c)))
    rep.ob("FALSY", "%d functions, %d reads of a default value, %d used as truth tests" % (len(fns), n_sources, n_tests), "holds", "", "every truth test is listed above")
    if n_sources < 5:
        raise AnalysisError("FALSY: only %d reads of a default value found in scope; the source recogniser is evidently incomplete" % n_sources)


def _ctx(holder):
    if isinstance(holder, ast.IfExp):
        return "%s if ... else %s" % (src(holder.body, 30).split("(")[0] + "(...)" if isinstance(holder.body, ast.Call) else src(holder.body, 30), src(holder.orelse, 30))
    if isinstance(holder, ast.BoolOp):
        return src(holder, 80)
    if isinstance(holder, ast.UnaryOp):
        return src(holder, 60)
    if isinstance(holder, ast.If):
        return "if " + src(holder.test, 70)
    return type(holder).__name__


def rule_stripset(prog, rep, tier, scope=None):
    """STRIP-SET over `scope`."""
    fns = list(scope) if scope is not None else list(prog.all_functions())
    n = 0
    for fi in fns:
        for c in ast.walk(fi.node):
            if isinstance(c, ast.Call) and isinstance(c.func, ast.Attribute) and c.func.attr in ("lstrip", "rstrip", "strip") and len(c.args) == 1 \
                    and isinstance(c.args[0], ast.Constant) and isinstance(c.args[0].value, str):
                n += 1
                v = c.args[0].value
                if len(v) >= 4 and sum(ch.isalpha() for ch in v) >= 2:
                    rep.violation(Finding("STRIP-SET", fi.qualname, "%s(%r)" % (c.func.attr, v),
                                          "%s removes any of the characters of %r, not that prefix/suffix: text that begins/ends with some of these letters loses them"
                                          % (src(c, 70), v), loc(prog, c)))
    rep.ob("STRIP-SET", "%d strip/lstrip/rstrip calls with a literal argument in %d functions" % (n, len(fns)), "holds", "", "none strips a word-like character set")
