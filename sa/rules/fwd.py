"""
FWD: an option a function was given is forwarded to every callee that has the same option.

Where function f has a parameter p and calls (directly, through a local `partial`, or through map/filter with a bound
partial) a package function g that also has a parameter named p *with a default*, and the call binds p neither
positionally nor by keyword (and forwards no **kwargs), g silently uses its own default: the caller of f asked for one
thing and part of the work is done with another.  This is the shape of "keyword lost when a helper was extracted".
Constructor-like callees and parameters the caller has rebound are not judged.
"""
import ast

from sa.model import AnalysisError, Finding, FunctionInfo, enclosing_fn, loc, src

# data parameters that happen to share a name are not options
NOT_OPTIONS = {"node", "name", "param", "params", "doc", "typ", "default", "line", "s", "value", "args", "kwargs", "self", "cls", "filename", "search",
               "intermediate_repr", "function_def", "class_def", "body", "it", "iterable", "container"}


def _bound_by_partial(prog, fexpr, at, depth=0):
    """keywords (and number of positionals) already bound when the callable expression is a partial / local partial"""
    kws, npos = set(), 0
    if depth > 3:
        return kws, npos
    if isinstance(fexpr, ast.Call) and isinstance(fexpr.func, (ast.Name, ast.Attribute)) and prog.ext_name(fexpr.func, fexpr) == "functools.partial" and fexpr.args:
        k2, n2 = _bound_by_partial(prog, fexpr.args[0], at, depth + 1)
        return k2 | {k.arg for k in fexpr.keywords if k.arg}, n2 + len(fexpr.args) - 1
    if isinstance(fexpr, ast.Name):
        b = prog.lookup(fexpr.id, at)
        defs = []
        if b[0] == "local" and isinstance(b[1], (ast.FunctionDef, ast.AsyncFunctionDef)):
            defs = [n.value for n in ast.walk(b[1]) if isinstance(n, ast.Assign) and any(isinstance(t, ast.Name) and t.id == fexpr.id for t in n.targets)]
        elif b[0] == "value":
            defs = [b[2]]
        if len(defs) == 1:
            return _bound_by_partial(prog, defs[0], defs[0], depth + 1)
    return kws, npos


def rule_fwd(prog, rep, tier, scope=None, accepted=None):
    accepted = accepted or {}
    fns = None if scope is None else {id(f.node) for f in scope}
    n = 0
    for call in prog.all_calls():
        fn = enclosing_fn(call)
        if fn is None or (fns is not None and id(fn.node) not in fns):
            continue
        if any(k.arg is None for k in call.keywords) or any(isinstance(x, ast.Starred) for x in call.args):
            continue
        if not isinstance(call.func, (ast.Name, ast.Attribute)):
            continue
        tg = [t for t in prog.resolve_expr_fn(call.func, call) if isinstance(t, FunctionInfo)]
        if not tg and isinstance(call.func, ast.Name):
            # a local bound to one of several functions (`parser = function` / `parser = class_`): every one may be called
            b = prog.lookup(call.func.id, call)
            if b[0] == "local" and isinstance(b[1], (ast.FunctionDef, ast.AsyncFunctionDef)):
                defs = [n_.value for n_ in ast.walk(b[1]) if isinstance(n_, ast.Assign) and any(isinstance(t_, ast.Name) and t_.id == call.func.id for t_ in n_.targets)]
                cand = [t_ for d in defs if isinstance(d, (ast.Name, ast.Attribute)) for t_ in prog.resolve_expr_fn(d, d) if isinstance(t_, FunctionInfo)]
                if defs and len(cand) == len(defs):
                    tg = cand
        tg = [t for t in tg if isinstance(t.node, ast.FunctionDef)]
        if not tg or (len(tg) != 1 and not isinstance(call.func, ast.Name)):
            continue
        for t in tg:
            n += _judge(prog, rep, call, fn, t, accepted)
    rep.ob("FWD", "%d call sites with a same-named defaulted option examined" % n, "holds" if not any(f_.rule == "FWD" for f_ in rep.findings) else "violation", "", "")


def _on_live_object_path(prog, call, fn):
    """is the call inside a block (if-body, or the whole function) that reads a live object's source with inspect?"""
    def has_inspect(nodes):
        return any(isinstance(c, ast.Call) and isinstance(c.func, (ast.Name, ast.Attribute)) and prog.ext_name(c.func, c) in ("inspect.getsource", "inspect.signature", "inspect.getsourcelines")
                   for nd in nodes for c in ast.walk(nd))
    child, p = call, getattr(call, "_parent", None)
    while p is not None:
        if isinstance(p, ast.If):
            blk = p.body if any(child is s_ for s_ in p.body) else (p.orelse if any(child is s_ for s_ in p.orelse) else None)
            if blk is not None and has_inspect(blk):
                return True
        if isinstance(p, (ast.FunctionDef, ast.AsyncFunctionDef)):
            return has_inspect(p.body)
        child, p = p, getattr(p, "_parent", None)
    return False


def _judge(prog, rep, call, fn, t, accepted):
    n = 0
    if True:
        # the caller's own options: parameters of the enclosing named functions that are not rebound there
        visible = {}
        f = fn
        while f is not None:
            for p in f.params():
                visible.setdefault(p, f)
            f = f.parent_fn
        a = t.node.args
        if a.kwarg is not None:
            pass
        pn = [x.arg for x in a.posonlyargs + a.args]
        if t.cls is not None and pn and pn[0] in ("self", "cls"):
            pn = pn[1:]
        names = pn + [x.arg for x in a.kwonlyargs]
        pk, ppos = _bound_by_partial(prog, call.func, call)
        given = set(pn[:len(call.args) + ppos]) | {k.arg for k in call.keywords} | pk
        n_def = len(a.defaults)
        defaulted = set(pn[len(pn) - n_def:]) | {x.arg for x, d in zip(a.kwonlyargs, a.kw_defaults) if d is not None}
        for p in names:
            if p in NOT_OPTIONS or p not in visible or p not in defaulted or p in given:
                continue
            owner = visible[p]
            rebound = any(isinstance(x, ast.Name) and x.id == p and isinstance(x.ctx, ast.Store) for x in ast.walk(owner.node))
            if rebound:
                continue
            n += 1
            where = prog.owner_name(fn) if fn.parent_fn is None else fn.qualname.rsplit(".", 1)[0]
            construct = "option-not-forwarded:%s->%s" % (p, t.qualname)
            inst = "%s: %s(...) without %s=" % (where, t.qualname, p)
            if (where, construct) in accepted:
                rep.ob("FWD", inst, "accepted", loc(prog, call), accepted[(where, construct)])
                continue
            if _on_live_object_path(prog, call, fn):
                rep.ob("FWD", inst, "accepted", loc(prog, call),
                       "live-object path (the block obtains the source with inspect.getsource / inspect.signature): outside the claimed properties' domains, "
                       "which observe the parsers on syntax trees; noted in DESIGN")
                continue
            rep.violation(Finding(
                "FWD", where, construct,
                "%s has the option `%s` and calls %s, which has the same option with a default, without passing it on (%s): that part of the work ignores what the "
                "caller asked for" % (where, p, t.qualname, src(call, 70)), loc(prog, call)))
    return n
