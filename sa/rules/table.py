"""
TABLE family: writer and reader use the same finite tables (DESIGN.md section 3 "TABLE").
Everything is decided by constant folding of the repository's own tables and literals.
"""
import ast

from sa.cfg import expr_guards, facts
from sa.consteval import NT, UNKNOWN, Folder
from sa.model import AnalysisError, Finding, FunctionInfo, dump, enclosing_fn, loc, names_in, src
from sa.strshape import literal_fragments, literal_prefixes


def _consts(node, typ=str):
    return [n for n in ast.walk(node) if isinstance(n, ast.Constant) and isinstance(n.value, typ)]


# ---------------------------------------------------------------------------- TABLE-style (C01)
def rule_table_style(prog, rep, tier):
    folder = Folder(prog)
    TOK = folder.fold_name("docstring_utils", "TOKENS")
    ARG = folder.fold_name("docstring_utils", "ARG_TOKENS")
    RET = folder.fold_name("docstring_utils", "RETURN_TOKENS")
    if not all(isinstance(x, NT) for x in (TOK, ARG, RET)):
        raise AnalysisError("TABLE-style: TOKENS / ARG_TOKENS / RETURN_TOKENS do not fold to namedtuples")
    styles = list(TOK.fields)
    # detection precedence from parse_docstring
    pd = prog.fn("docstring_parsers.parse_docstring")
    pd_nodes = [n_ for f_ in prog.region(pd) for n_ in ast.walk(f_.node)]
    order = []
    last = None
    for n in pd_nodes:
        if isinstance(n, ast.If):
            for a in ast.walk(n.test):
                if isinstance(a, ast.Attribute) and isinstance(a.value, ast.Name) and a.value.id == "TOKENS" and a.attr in styles and a.attr not in order:
                    order.append(a.attr)
    for n in pd_nodes:
        if isinstance(n, ast.Assign) and any(isinstance(t, ast.Name) and t.id == "style" for t in n.targets) and isinstance(n.value, ast.Attribute):
            if n.value.attr in styles and n.value.attr not in order:
                last = n.value.attr
    if len(order) < 2 or last is None:
        # table form: a module-level sequence of (Style.<s>, TOKENS.<s>) pairs tried in order by next(..., <default style>)
        region_mods = {f_.module for f_ in prog.region(pd)}
        used = {n_.id for nd in pd_nodes if isinstance(nd, ast.Name) for n_ in [nd]}
        for m_ in region_mods:
            for st in m_.tree.body:
                if isinstance(st, ast.Assign) and len(st.targets) == 1 and isinstance(st.targets[0], ast.Name) and st.targets[0].id in used \
                        and isinstance(st.value, (ast.Tuple, ast.List)) and st.value.elts and all(isinstance(e_, (ast.Tuple, ast.List)) for e_ in st.value.elts):
                    cand = []
                    for e_ in st.value.elts:
                        toks = [a.attr for a in ast.walk(e_) if isinstance(a, ast.Attribute) and isinstance(a.value, ast.Name) and a.value.id == "TOKENS" and a.attr in styles]
                        if len(toks) == 1:
                            cand.append(toks[0])
                    if len(cand) == len(st.value.elts) and len(cand) >= 2:
                        order = cand
        for n in pd_nodes:
            if isinstance(n, ast.Call) and isinstance(n.func, ast.Name) and n.func.id == "next" and len(n.args) == 2 and isinstance(n.args[1], ast.Attribute) \
                    and n.args[1].attr in styles and n.args[1].attr not in order:
                last = n.args[1].attr
    if len(order) < 2 or last is None:
        raise AnalysisError("TABLE-style: cannot read the detection order out of parse_docstring (found %r, default %r)" % (order, last))
    prec = order + [last]
    rep.note("TABLE-style", "detection precedence %s" % " > ".join(prec))
    # headers written by emit.docstring (and the private helpers it is split into) per style
    ed = prog.fn("emit.docstring")
    ed_region = [f for f in prog.region(ed)]
    all_sections = {t for tbl in (ARG, RET) for st_ in styles for t in getattr_nt(tbl, st_)}

    def header_like(v):
        return isinstance(v, str) and v.strip() and "{" not in v and len(v) < 40 and (v in all_sections or v.rstrip().endswith(":") or "---" in v)

    H = {s: [] for s in styles}
    for s in styles:
        for f in ed_region:
            fparams = [p_ for p_ in f.params() if "format" in p_ or "style" in p_]
            env = {p_: s for p_ in fparams}
            folded = {}
            for e in ast.walk(f.node):
                if isinstance(e, (ast.IfExp, ast.Subscript, ast.Constant, ast.Call, ast.Name, ast.BinOp, ast.JoinedStr)) and not isinstance(getattr(e, "ctx", None), ast.Store):
                    v = folder.fold(e, env, e)
                    if header_like(v):
                        folded[id(e)] = (v, e)
            for v, e in folded.values():
                if id(getattr(e, "_parent", None)) in folded:
                    continue  # keep maximal expressions only
                skip = False
                for t, pol in expr_guards(e, stop=f.node):
                    tv = folder.fold(t, env, t)
                    if tv is not UNKNOWN and bool(tv) != pol:
                        skip = True
                if not skip and v.strip("\n") not in [h for h, _ in H[s]]:
                    H[s].append((v.strip("\n"), e))
    # hard-coded headers (string constants that look like section headers) in emit.docstring
    # ReST markers from emit_param_str
    eps = prog.fn("docstring_utils.emit_param_str")
    eps_region = prog.region(eps)
    rest_markers = {}
    for f in eps_region:
        for m, e in literal_prefixes(f.node, f.node, starts_with=":").items():
            rest_markers.setdefault(m.rstrip(), e)
    rest_markers = sorted(rest_markers.items())
    if len({m for m, _ in rest_markers}) < 4:
        raise AnalysisError("TABLE-style: only %d ReST line markers recovered from emit_param_str: %r" % (len(rest_markers), [m for m, _ in rest_markers]))
    H["rest"] = H.get("rest", []) + rest_markers
    n = 0
    for s in styles:
        toks = getattr_nt(TOK, s)
        higher = [t for hs in prec[: prec.index(s)] for t in getattr_nt(TOK, hs)]
        if not H[s]:
            raise AnalysisError("TABLE-style: no header/marker recovered for style %s" % s)
        for h, e in H[s]:
            n += 1
            problems = []
            if s != last and not any(t in h for t in toks):
                problems.append("contains none of the detection tokens of %s %r" % (s, toks))
            if s == last and not any(t in h for t in toks):
                problems.append("contains none of the section tokens of %s %r (the scanner searches for them)" % (s, toks))
            clash = [t for t in higher if t in h]
            if clash:
                problems.append("contains %r, a token of a style detected before %s" % (clash, s))
            if s != "rest":
                sect = list(getattr_nt(ARG, s)) + list(getattr_nt(RET, s))
                if h not in sect:
                    problems.append("is not one of the section headers the %s scanner splits on %r" % (s, sect))
            if problems:
                rep.violation(Finding("TABLE-style", "emit.docstring" if s != "rest" else "docstring_utils.emit_param_str", "header:%s:%r" % (s, h),
                                      "the %s emitter writes %r, which %s: text emitted in this style is read as another style or its sections are not found"
                                      % (s, h, "; ".join(problems)), loc(prog, e)))
            else:
                rep.holds("TABLE-style", "%s writes %r" % (s, h), loc(prog, e), "detected as %s and split on by its scanner" % s)
        for tbl, nm in ((ARG, "ARG_TOKENS"), (RET, "RETURN_TOKENS")):
            n += 1
            extra = [t for t in getattr_nt(tbl, s) if t not in toks]
            if extra:
                rep.violation(Finding("TABLE-style", "docstring_utils", "%s.%s" % (nm, s),
                                      "%s.%s has %r which is not in TOKENS.%s: the scanner splits on a token the detector does not know" % (nm, s, extra, s), "doctrans/docstring_utils.py"))
            else:
                rep.holds("TABLE-style", "%s.%s subset of TOKENS.%s" % (nm, s, s), "doctrans/docstring_utils.py", "")
    # google/numpydoc: a parameter line the writer can produce must not look like the start of an "afterward" section
    # to the reader (`elem[0].endswith(":")` in _parse_phase_numpydoc_and_google)
    section_suffix, reader_strips = None, None
    for rd in prog.modules["docstring_parsers"].functions.values():
        for c in ast.walk(rd.node):
            if isinstance(c, ast.Call) and isinstance(c.func, ast.Attribute) and c.func.attr == "endswith" and c.args and isinstance(c.args[0], ast.Constant):
                recv, stripped = c.func.value, None
                # the reader may tidy the line before it looks at its end: `elem[0].rstrip().endswith(":")`
                while isinstance(recv, ast.Call) and isinstance(recv.func, ast.Attribute) and recv.func.attr in ("rstrip", "strip") \
                        and (not recv.args or (isinstance(recv.args[0], ast.Constant) and isinstance(recv.args[0].value, str) and " " in recv.args[0].value)):
                    stripped, recv = recv, recv.func.value
                # the heading test looks at each scanned entry in turn: the receiver is the first item of a loop / comprehension variable
                loop_vars = {t.id for l in ast.walk(rd.node) if isinstance(l, (ast.comprehension, ast.For)) for t in ast.walk(l.target) if isinstance(t, ast.Name)}
                if isinstance(recv, ast.Subscript) and isinstance(recv.slice, ast.Constant) and recv.slice.value == 0 and isinstance(recv.value, ast.Name) \
                        and recv.value.id in loop_vars:
                    section_suffix, reader_strips = c.args[0].value, stripped
    if section_suffix is not None:
        # templates of the non-rest branches that carry the parameter name
        branches = [b for b in ast.walk(eps.node) if isinstance(b, ast.If)]
        tmpl = []
        for f in eps_region:
            for cst in _consts(f.node):
                if "{name}" in cst.value and not cst.value.lstrip().startswith(("param", "type", ":")):
                    tmpl.append(cst)
            # f-string form: literal prefixes of the lines that start with blanks or the name hole
            for js in [n_ for n_ in ast.walk(f.node) if isinstance(n_, ast.JoinedStr)]:
                lits = [v_.value for v_ in js.values if isinstance(v_, ast.Constant)]
                holes = [v_ for v_ in js.values if isinstance(v_, ast.FormattedValue) and isinstance(v_.value, ast.Name) and v_.value.id == "name"]
                if holes and lits and not "".join(lits).lstrip().startswith((":", "param", "type")):
                    tmpl.append(ast.copy_location(ast.Constant(value="".join("{name}" if isinstance(v_, ast.FormattedValue) and isinstance(v_.value, ast.Name) and v_.value.id == "name"
                                                                           else ("{x}" if isinstance(v_, ast.FormattedValue) else v_.value) for v_ in js.values)), js))
        # a template that ends `<suffix><blanks>` relies on the blanks to differ from a section start: no strip of trailing
        # blanks may be applied to a value built from it
        for cst in tmpl:
            if cst.value.rstrip(" \t").endswith(section_suffix) and not cst.value.endswith(section_suffix):
                for f in eps_region:
                    for c in ast.walk(f.node):
                        if isinstance(c, ast.Call) and isinstance(c.func, ast.Attribute) and c.func.attr in ("rstrip", "strip") \
                                and (not c.args or (isinstance(c.args[0], ast.Constant) and isinstance(c.args[0].value, str) and " " in c.args[0].value)) \
                                and any(x is cst for x in ast.walk(c.func.value)):
                            n += 1
                            rep.violation(Finding("TABLE-style", "docstring_utils.emit_param_str", "param-line-ends-with:%r" % section_suffix,
                                                  "the parameter-line template %r is stripped of its trailing blank (%s) and then ends with %r: a parameter without prose is "
                                                  "read by the google/numpydoc parser as the start of a trailing section, and it and every later parameter are moved into the "
                                                  "summary" % (cst.value, src(c, 40)[-40:], section_suffix), loc(prog, c)))
        for cst in tmpl:
            n += 1
            if reader_strips is not None and cst.value.rstrip(" \t").endswith(section_suffix):
                rep.violation(Finding("TABLE-style", "docstring_parsers._parse_phase_numpydoc_and_google", "param-line-ends-with:%r:reader-strips" % section_suffix,
                                      "the reader takes a line for the start of a trailing section when it ends with %r once its trailing blanks are removed (%s); the writer's "
                                      "parameter-line template %r is such a line when the parameter has no prose: it and every later parameter are moved into the summary"
                                      % (section_suffix, src(reader_strips, 40), cst.value), loc(prog, reader_strips)))
            elif cst.value.endswith(section_suffix) or cst.value.rstrip("\n").endswith(section_suffix) and False:
                rep.violation(Finding("TABLE-style", "docstring_utils.emit_param_str", "param-line-ends-with:%r" % section_suffix,
                                      "the parameter-line template %r ends with %r: a parameter without prose is then read by the google/numpydoc parser as the start of "
                                      "a trailing section, and it and every later parameter are moved into the summary" % (cst.value, section_suffix), loc(prog, cst)))
            else:
                rep.holds("TABLE-style", "parameter-line template %r cannot be mistaken for a section start (%r)" % (cst.value, section_suffix), loc(prog, cst), "")
    if n < 9:
        raise AnalysisError("TABLE-style: only %d obligations" % n)


def enclosing_fn_node(n):
    p = getattr(n, "_parent", None)
    while p is not None and not isinstance(p, (ast.FunctionDef, ast.AsyncFunctionDef)):
        p = getattr(p, "_parent", None)
    return p


def getattr_nt(nt, f):
    return nt.values[nt.fields.index(f)]


# ---------------------------------------------------------------------------- TABLE-cvar (C02)
def rule_table_cvar(prog, rep, tier):
    folder = Folder(prog)
    TOK = folder.fold_name("docstring_utils", "TOKENS")
    ec = prog.fn("emit.class_")
    reps = [c for f_ in prog.region(ec) for c in ast.walk(f_.node) if isinstance(c, ast.Call) and isinstance(c.func, ast.Attribute) and c.func.attr == "replace" and len(c.args) >= 2]
    env = {"sep": "    ", "indent_level": 1}

    def f(e):
        v = folder.fold(e, env, e)
        return v if isinstance(v, str) else None

    pairs = [(f(c.args[0]), f(c.args[1]), c) for c in reps]
    w_cvar = next((b for a, b, c in pairs if a and ":param" in a and b), None)
    w_ret = next(((a, b, c) for a, b, c in pairs if a and ":return" in a and b), None)
    if w_cvar is None or w_ret is None:
        raise AnalysisError("TABLE-cvar: emit.class_ no longer rewrites ':param' / ':returns:' with constant replacements (%r)" % [(a, b) for a, b, _ in pairs])
    marker = w_cvar.strip()
    # readers
    for q in ("parse.class_", "parse.function"):
        fi = prog.fn(q)
        rr = [(f(c.args[0]), f(c.args[1]), c) for f_ in prog.region(fi) for c in ast.walk(f_.node) if isinstance(c, ast.Call) and isinstance(c.func, ast.Attribute) and c.func.attr == "replace" and len(c.args) >= 2]
        rr = [(a, b, c) for a, b, c in rr if b and ":param" in b]
        if not rr:
            rep.violation(Finding("TABLE-cvar", q, "no-cvar-rewrite", "%s no longer rewrites the class attribute marker back to ':param'" % q, loc(prog, fi.node)))
            continue
        a, b, c = rr[0]
        if a and a in w_cvar and w_cvar.replace(a, b, 1).startswith(":param"):
            rep.holds("TABLE-cvar", "%s reads %r as %r; class emitter writes %r" % (q, a, b, w_cvar), loc(prog, c), "")
        else:
            rep.violation(Finding("TABLE-cvar", q, "cvar-marker:%r" % a,
                                  "the class emitter writes %r but %s substitutes %r: class attributes documented by the emitter are not read back as parameters" % (w_cvar, q, a), loc(prog, c)))
    if isinstance(TOK, NT) and marker in getattr_nt(TOK, "rest"):
        rep.holds("TABLE-cvar", "%r is a ReST detection token" % marker, "doctrans/docstring_utils.py", "")
    else:
        rep.violation(Finding("TABLE-cvar", "emit.class_", "cvar-not-token:%r" % marker, "%r written by the class emitter is not in TOKENS.rest" % marker, loc(prog, ec.node)))
    # reserved key
    a, b, c = w_ret
    key_w = b.strip().strip(":").split()[-1] if b else None
    pc = prog.fn("parse.class_")
    pc_nodes = [f_.node for f_ in prog.region(pc)]
    pops = [x for nd_ in pc_nodes for x in ast.walk(nd_) if isinstance(x, ast.Call) and isinstance(x.func, ast.Attribute) and x.func.attr == "pop" and x.args and isinstance(x.args[0], ast.Constant)]
    keys_r = {x.args[0].value for x in pops}
    if key_w in keys_r:
        rep.holds("TABLE-cvar", "reserved attribute %r written by emit.class_ is popped back into 'returns' by parse.class_" % key_w, loc(prog, c), "")
    else:
        rep.violation(Finding("TABLE-cvar", "parse.class_", "reserved-key:%r" % key_w,
                              "emit.class_ carries the return entry as attribute %r but parse.class_ pops %r" % (key_w, sorted(keys_r)), loc(prog, pc.node)))
    # the attribute loop of the class parser must route the reserved attribute to 'returns' as well (a return entry
    # without prose has no ':cvar return_type:' line, so the docstring path alone does not cover it)
    routes = [x for nd_ in pc_nodes for x in ast.walk(nd_) if isinstance(x, ast.Compare) and len(x.ops) == 1 and isinstance(x.ops[0], ast.Eq)
              and any(isinstance(y, ast.Constant) and y.value == key_w for y in (x.left, x.comparators[0]))]
    if routes:
        rep.holds("TABLE-cvar", "parse.class_ routes an attribute named %r to 'returns'" % key_w, loc(prog, routes[0]), "")
    else:
        rep.violation(Finding("TABLE-cvar", "parse.class_", "reserved-key-routing:%r" % key_w,
                              "the class parser's attribute loop never compares the attribute name with %r: a return entry without prose (no ':cvar %s:' line) "
                              "comes back as an ordinary parameter" % (key_w, key_w), loc(prog, pc.node)))
    # the ':returns:' text replaced must be what the ReST line writer produces
    eps = prog.fn("docstring_utils.emit_param_str")
    ret_markers = [m.rstrip() for f_ in prog.region(eps) for m in literal_prefixes(f_.node, f_.node, starts_with=":return")]
    if ret_markers and any(m in a for m in ret_markers):
        rep.holds("TABLE-cvar", "class emitter replaces %r, a marker the ReST writer produces for the return entry" % ret_markers[0], loc(prog, c), "")
    else:
        rep.violation(Finding("TABLE-cvar", "emit.class_", "returns-marker", "emit.class_ replaces %r but the ReST writer produces %r for the return entry" % (a, ret_markers), loc(prog, c)))


# ---------------------------------------------------------------------------- TABLE-kind (C03)
def rule_table_kind(prog, rep, tier, domain=("static", "self", "cls")):
    gft = prog.fn("ast_utils.get_function_type")
    folder = Folder(prog)
    recog = set()
    for c in ast.walk(gft.node):
        if isinstance(c, ast.Compare) and len(c.ops) == 1 and isinstance(c.ops[0], ast.In):
            v = folder.fold(c.comparators[0], {}, c)
            if isinstance(v, str):
                # membership in a string is a substring test: every kind whose name occurs in it is recognised (that other
                # words are, too, is STR-MEMBER's finding)
                recog |= {d for d in domain if d in v}
            elif v is not UNKNOWN:
                recog |= set(v)
        if isinstance(c, ast.Compare) and len(c.ops) == 1 and isinstance(c.ops[0], ast.Eq) and isinstance(c.comparators[0], ast.Constant) and isinstance(c.comparators[0].value, str):
            recog.add(c.comparators[0].value)
    ef = prog.fn("emit.function")
    static_set = None
    for c in ast.walk(ef.node):
        if isinstance(c, ast.Compare) and len(c.ops) == 1 and isinstance(c.ops[0], ast.In) and isinstance(c.left, ast.Name) and c.left.id == "function_type":
            v = folder.fold(c.comparators[0], {}, c)
            if v is not UNKNOWN:
                static_set = set(v)
    if static_set is None:
        raise AnalysisError("TABLE-kind: emit.function no longer decides the first argument by `function_type in <constant set>`")
    for v in domain:
        if v in static_set:
            rep.holds("TABLE-kind", "kind %r emitted without a first argument" % v, loc(prog, ef.node), "parsed back as static")
        elif v in recog:
            rep.holds("TABLE-kind", "kind %r emitted as first argument and recognised by get_function_type" % v, loc(prog, gft.node), "")
        else:
            rep.violation(Finding("TABLE-kind", "ast_utils.get_function_type", "kind:%s" % v,
                                  "emit.function writes a first argument named %r for that kind but get_function_type recognises only %r: the kind is parsed back as static" % (v, sorted(recog)), loc(prog, gft.node)))
    # **kwargs suffix agreement
    sites = []
    for fi in prog.all_functions():
        q = fi.qualname
        for c in ast.walk(fi.node):
            if isinstance(c, ast.Call) and isinstance(c.func, ast.Attribute) and c.func.attr == "endswith" and c.args and isinstance(c.args[0], ast.Constant) \
                    and isinstance(c.func.value, (ast.Name, ast.Subscript)) and (names_in(c.func.value) & {"name", "param"}):
                sites.append((q, c.args[0].value, c))
    vals = {v for _, v, _ in sites}
    if len(sites) < 3:
        raise AnalysisError("TABLE-kind: only %d **kwargs suffix tests found" % len(sites))
    if len(vals) == 1:
        rep.holds("TABLE-kind", "%d sites agree on the **kwargs name suffix %r" % (len(sites), vals.pop()), "", "")
    else:
        from collections import Counter
        common = Counter(v for _, v, _ in sites).most_common(1)[0][0]
        for q, v, c in sites:
            if v != common:
                rep.violation(Finding("TABLE-kind", q, "kwargs-suffix:%r" % v, "%s recognises **kwargs parameters by suffix %r, the other sites by %r" % (q, v, common), loc(prog, c)))


# ---------------------------------------------------------------------------- TABLE-argparse (C04 + C16)
def rule_table_argparse(prog, rep, tier):
    w = prog.fn("ast_utils.param2argparse_param")
    r = prog.fn("emitter_utils.parse_out_param")
    kw_w = {}
    w_nodes = [f_.node for f_ in prog.region(w)]
    r_nodes = [f_.node for f_ in prog.region(r)]
    for c in [c_ for nd_ in w_nodes for c_ in ast.walk(nd_)]:
        if isinstance(c, ast.Call) and (c.func.id if isinstance(c.func, ast.Name) else getattr(c.func, "attr", "")) == "keyword":
            for k in c.keywords:
                if k.arg == "arg" and isinstance(k.value, ast.Constant):
                    kw_w[k.value.value] = c
                elif k.arg == "arg" and isinstance(k.value, ast.Name):
                    # keyword(arg=<parameter of a helper>): the constants the helper is called with
                    f_ = enclosing_fn_node(c)
                    pn = [a_.arg for a_ in f_.args.args] if f_ is not None else []
                    if k.value.id in pn:
                        i = pn.index(k.value.id)
                        for call in [c_ for nd_ in w_nodes for c_ in ast.walk(nd_)]:
                            if isinstance(call, ast.Call) and isinstance(call.func, ast.Name) and call.func.id == f_.name:
                                a_ = call.args[i] if i < len(call.args) else next((k_.value for k_ in call.keywords if k_.arg == k.value.id), None)
                                if isinstance(a_, ast.Constant) and isinstance(a_.value, str):
                                    kw_w[a_.value] = call
    kw_r = set()
    for c in [c_ for nd_ in r_nodes for c_ in ast.walk(nd_)]:
        if isinstance(c, ast.Compare) and len(c.ops) == 1 and isinstance(c.ops[0], ast.Eq) and isinstance(c.left, ast.Attribute) and c.left.attr == "arg" \
                and isinstance(c.comparators[0], ast.Constant):
            kw_r.add(c.comparators[0].value)
        elif isinstance(c, ast.Call):
            # a helper that selects a keyword by name: helper(..., "<name>") where the helper compares <kw>.arg with that parameter
            for t in prog.resolve_expr_fn(c.func, c):
                if isinstance(t, FunctionInfo) and t is not r:
                    cmp_params = {x.comparators[0].id for x in ast.walk(t.node) if isinstance(x, ast.Compare) and len(x.ops) == 1 and isinstance(x.ops[0], ast.Eq)
                                  and isinstance(x.left, ast.Attribute) and x.left.attr == "arg" and isinstance(x.comparators[0], ast.Name)}
                    pn = t.params()
                    for i, a_ in enumerate(c.args):
                        if i < len(pn) and pn[i] in cmp_params and isinstance(a_, ast.Constant):
                            kw_r.add(a_.value)
                    for k_ in c.keywords:
                        if k_.arg in cmp_params and isinstance(k_.value, ast.Constant):
                            kw_r.add(k_.value.value)
    if len(kw_w) < 4 or len(kw_r) < 4:
        raise AnalysisError("TABLE-argparse: keyword tables not recovered (writer %r, reader %r)" % (sorted(kw_w), sorted(kw_r)))
    for k, c in sorted(kw_w.items()):
        if k in kw_r:
            rep.holds("TABLE-argparse", "add_argument keyword %r written and read" % k, loc(prog, c), "")
        else:
            rep.violation(Finding("TABLE-argparse", "ast_utils.param2argparse_param", "keyword:%s" % k,
                                  "the argparse emitter carries IR information in keyword %r, which parse_out_param never reads (it reads %r)" % (k, sorted(kw_r)), loc(prog, c)))
    # option prefix
    pre_w = [c.value.split("{")[0] for nd_ in w_nodes for c in _consts(nd_) if "{name}" in c.value]
    pre_w += [js.values[0].value for nd_ in w_nodes for js in ast.walk(nd_) if isinstance(js, ast.JoinedStr) and len(js.values) == 2 and isinstance(js.values[0], ast.Constant)
              and isinstance(js.values[1], ast.FormattedValue) and isinstance(js.values[1].value, ast.Name) and js.values[1].value.id == "name"]
    pre_r = [c.args[0].value for nd_ in r_nodes for c in ast.walk(nd_) if isinstance(c, ast.Call) and isinstance(c.func, ast.Name) and c.func.id == "len" and c.args and isinstance(c.args[0], ast.Constant) and isinstance(c.args[0].value, str)]
    if pre_w and pre_r and pre_w[0] == pre_r[0]:
        rep.holds("TABLE-argparse", "option prefix %r added and stripped" % pre_w[0], loc(prog, w.node), "")
    else:
        rep.violation(Finding("TABLE-argparse", "emitter_utils.parse_out_param", "prefix", "prefix written %r, prefix stripped %r" % (pre_w, pre_r), loc(prog, r.node)))

    # recognisers pin down receiver AND attribute, and the emitters build exactly those
    def recog_consts(q):
        fi = prog.fn(q)
        out = {}
        for c in ast.walk(fi.node):
            if isinstance(c, ast.Compare) and len(c.ops) == 1 and isinstance(c.ops[0], ast.Eq) and isinstance(c.left, ast.Attribute) and isinstance(c.comparators[0], ast.Constant):
                out.setdefault(c.left.attr, set()).add(c.comparators[0].value)
        return fi, out

    def built(fi, attr_name):
        """(receiver id, attribute) pairs of Attribute(Name(<recv>, Load()), <attr>, ...) constructor calls in fi"""
        out = []
        for c in [c_ for f_ in prog.region(fi) for c_ in ast.walk(f_.node)]:
            if isinstance(c, ast.Call) and (c.func.id if isinstance(c.func, ast.Name) else "") == "Attribute" and len(c.args) >= 2 \
                    and isinstance(c.args[0], ast.Call) and (c.args[0].func.id if isinstance(c.args[0].func, ast.Name) else "") == "Name" and c.args[0].args \
                    and isinstance(c.args[0].args[0], ast.Constant) and isinstance(c.args[1], ast.Constant):
                out.append((c.args[0].args[0].value, c.args[1].value, c))
        return [o for o in out if o[1] == attr_name]

    for recog_q, emit_q, attr in (("ast_utils.is_argparse_add_argument", "ast_utils.param2argparse_param", "add_argument"),
                                  ("ast_utils.is_argparse_description", "emit.argparse_function", "description")):
        rf, rc = recog_consts(recog_q)
        bs = built(prog.fn(emit_q), attr)
        if not bs:
            raise AnalysisError("TABLE-argparse: %s no longer builds <receiver>.%s" % (emit_q, attr))
        recv, at, node = bs[0]
        need = {"attr": at, "id": recv}
        for fld, val in need.items():
            if val in rc.get(fld, set()):
                rep.holds("TABLE-argparse", "%s tests .%s == %r (what %s builds)" % (recog_q, fld, val, emit_q), loc(prog, rf.node), "")
            else:
                rep.violation(Finding(
                    "TABLE-argparse", recog_q, "recogniser:%s:%s" % (fld, val),
                    "%s builds %s.%s but %s does not test .%s == %r (it tests %r): %s" % (
                        emit_q, recv, at, recog_q, fld, val, {k: sorted(v) for k, v in rc.items()},
                        "emitted calls are read back as extra body statements" if rc.get(fld) else
                        "statements on other receivers (e.g. group.add_argument) are swallowed as interface and dropped from the carried body"),
                    loc(prog, rf.node)))
    # escape symmetry: a constant str.replace applied to the prose on the way out needs its inverse on the way in
    def _replaces(nodes):
        out = []
        for nd_ in nodes:
            for c in ast.walk(nd_):
                if isinstance(c, ast.Call) and isinstance(c.func, ast.Attribute) and c.func.attr == "replace" and len(c.args) >= 2 \
                        and all(isinstance(a_, ast.Constant) and isinstance(a_.value, str) for a_ in c.args[:2]) \
                        and any(isinstance(x, ast.Name) and x.id in ("doc", "help", "help_") or isinstance(x, ast.Constant) and x.value in ("doc", "help") for x in ast.walk(c.func.value)):
                    out.append((c.args[0].value, c.args[1].value, c))
        return out

    r_repl = {(c.args[0].value, c.args[1].value) for nd_ in r_nodes for c in ast.walk(nd_)
              if isinstance(c, ast.Call) and isinstance(c.func, ast.Attribute) and c.func.attr == "replace" and len(c.args) >= 2
              and all(isinstance(a_, ast.Constant) and isinstance(a_.value, str) for a_ in c.args[:2])}
    for a_, b_, c in _replaces(w_nodes):
        if (b_, a_) in r_repl:
            rep.holds("TABLE-argparse", "help text escape %r->%r is undone by the parser" % (a_, b_), loc(prog, c), "")
        else:
            rep.violation(Finding("TABLE-argparse", "ast_utils.param2argparse_param", "escape-without-inverse:%r->%r" % (a_, b_),
                                  "the emitter rewrites the help text with replace(%r, %r) but parse_out_param never applies the inverse: the prose grows/changes on every round trip" % (a_, b_), loc(prog, c)))
    # percent: argparse %-formats every help string (`help % params`), so a '%' in the prose must be written doubled - and read back single
    help_kws = [c for nd_ in w_nodes for c in ast.walk(nd_) if isinstance(c, ast.Call) and isinstance(c.func, (ast.Name, ast.Attribute))
                and getattr(c.func, "id", getattr(c.func, "attr", None)) == "keyword"
                and any(k.arg == "arg" and isinstance(k.value, ast.Constant) and k.value.value == "help" for k in c.keywords)]
    for hk in help_kws:
        v = next((k.value for k in hk.keywords if k.arg == "value"), None)
        if v is None:
            continue
        fn_ = enclosing_fn(hk)
        closure, todo, seen_names = [], [v], set()
        while todo:
            e_ = todo.pop()
            closure.append(e_)
            for x in ast.walk(e_):
                if isinstance(x, ast.Name) and x.id not in seen_names and fn_ is not None:
                    seen_names.add(x.id)
                    todo += [st.value for st in ast.walk(fn_.node) if isinstance(st, ast.Assign) and any(isinstance(t, ast.Name) and t.id == x.id for t in st.targets)]
                if isinstance(x, ast.Call) and isinstance(x.func, (ast.Name, ast.Attribute)):
                    for t in prog.resolve_expr_fn(x.func, x):
                        if isinstance(t, FunctionInfo) and t.node not in closure and t.module.name == "ast_utils":
                            todo.append(t.node)
        doubled = any(isinstance(c, ast.Call) and isinstance(c.func, ast.Attribute) and c.func.attr == "replace" and len(c.args) >= 2
                      and all(isinstance(a_, ast.Constant) for a_ in c.args[:2]) and (c.args[0].value, c.args[1].value) == ("%", "%%")
                      for e_ in closure for c in ast.walk(e_))
        if not doubled:
            rep.violation(Finding("TABLE-argparse", "ast_utils.param2argparse_param", "help-percent-unescaped",
                                  "the help text is handed to add_argument as it is (%s): argparse %%-formats every help string, so prose with a percent sign ('50%% of it') makes "
                                  "the generated parser raise when it prints its help" % src(v, 60), loc(prog, hk)))
        elif ("%%", "%") not in r_repl:
            rep.violation(Finding("TABLE-argparse", "ast_utils.param2argparse_param", "escape-without-inverse:'%'->'%%'",
                                  "the emitter doubles '%' in the help text but parse_out_param never halves it again: the prose grows on every round trip", loc(prog, hk)))
        else:
            rep.holds("TABLE-argparse", "help text: '%' is doubled for argparse and halved again by the parser", loc(prog, hk), "")
    # action / loads constants
    acts_w = set()
    for fi in prog.reachable([w]):
        if fi.module.name != "ast_utils":
            continue
        for st in ast.walk(fi.node):
            if isinstance(st, ast.Assign):
                tg = st.targets[0]
                if isinstance(tg, ast.Name) and tg.id == "action" and isinstance(st.value, ast.Constant) and isinstance(st.value.value, str):
                    acts_w.add(st.value.value)
                elif isinstance(tg, ast.Tuple) and isinstance(st.value, ast.Tuple):
                    for te, ve in zip(tg.elts, st.value.elts):
                        if isinstance(te, ast.Name) and te.id == "action" and isinstance(ve, ast.Constant) and isinstance(ve.value, str):
                            acts_w.add(ve.value)
    acts_r = {c.comparators[0].value for nd_ in r_nodes for c in ast.walk(nd_) if isinstance(c, ast.Compare) and isinstance(c.left, ast.Name) and c.left.id == "action" and isinstance(c.comparators[0], ast.Constant)}
    for a in sorted(acts_w):
        if a in acts_r:
            rep.holds("TABLE-argparse", "action %r written and understood" % a, loc(prog, r.node), "")
        else:
            rep.violation(Finding("TABLE-argparse", "emitter_utils.parse_out_param", "action:%s" % a, "action %r is written but parse_out_param only understands %r" % (a, sorted(acts_r)), loc(prog, r.node)))
    if not acts_w:
        raise AnalysisError("TABLE-argparse: no action constant recovered from the writer side")


# ---------------------------------------------------------------------------- TABLE-announce (C08, C17)
def _value_candidates(prog, e, fn_node, depth=0):
    """expressions an expression may evaluate to: both arms of a conditional, every definition of a local name, every
    `return` of a package function that is called (up to 3 levels)"""
    if depth > 3 or e is None:
        return []
    if isinstance(e, ast.IfExp):
        return _value_candidates(prog, e.body, fn_node, depth + 1) + _value_candidates(prog, e.orelse, fn_node, depth + 1)
    out = [e]
    inner = [x for x in ast.walk(e) if isinstance(x, ast.IfExp)]
    if inner and depth < 3 and isinstance(e, ast.Call):
        # a conditional nested in the expression (tuple(map(f, A if c else B))): one variant per arm of the first one
        from sa.model import _strip_parents
        first = inner[0]
        for arm in ("body", "orelse"):
            class Pick(ast.NodeTransformer):
                done = False

                def visit_IfExp(self_, n):
                    if not self_.done and ast.dump(n) == ast.dump(first):
                        self_.done = True
                        return getattr(n, arm)
                    return self_.generic_visit(n)
            v = Pick().visit(_strip_parents(e))
            ast.fix_missing_locations(v)
            for x in ast.walk(v):
                for ch in ast.iter_child_nodes(x):
                    ch._parent = x
            v._parent = getattr(e, "_parent", None)
            out += _value_candidates(prog, v, fn_node, depth + 1)
    if isinstance(e, ast.Name) and fn_node is not None:
        for st in ast.walk(fn_node):
            if isinstance(st, ast.Assign) and any(isinstance(t, ast.Name) and t.id == e.id for t in st.targets):
                out += _value_candidates(prog, st.value, fn_node, depth + 1)
    if isinstance(e, ast.Call):
        for t in prog.resolve_expr_fn(e.func, e):
            if isinstance(t, FunctionInfo):
                for r in ast.walk(t.node):
                    if isinstance(r, ast.Return) and r.value is not None and enclosing_fn(r) is t:
                        out += _value_candidates(prog, r.value, t.node, depth + 1)
    return out


def _announce_reader(prog, folder):
    ed0 = prog.fn("defaults_utils.extract_default")
    for ed, c in [(f_, c_) for f_ in prog.region(ed0) for c_ in ast.walk(f_.node)]:
        if isinstance(c, ast.Call) and prog.is_fn(c.func, "pure_utils.location_within", c) and len(c.args) >= 2:
            v = UNKNOWN
            for cand in _value_candidates(prog, c.args[1], ed.node):
                vv = folder.fold(cand, {}, cand)
                if vv is not UNKNOWN and isinstance(vv, (tuple, list, frozenset)) and vv and all(isinstance(x, str) for x in vv):
                    v = tuple(sorted(vv)) if isinstance(vv, frozenset) else vv
                    break
            if v is not UNKNOWN:
                # case-insensitive when the comparator folds case, or when the searched text / the phrases are folded first
                casefold = any(isinstance(x, ast.Attribute) and x.attr in ("casefold", "lower", "upper") for a_ in c.args[:2] for x in ast.walk(a_))
                for k in c.keywords:
                    roots = [k.value] + [t.node for t in prog.resolve_expr_fn(k.value, k.value) if isinstance(t, FunctionInfo)] if isinstance(k.value, (ast.Name, ast.Attribute)) else [k.value]
                    if any(isinstance(x, ast.Attribute) and x.attr in ("casefold", "lower", "upper") for r_ in roots for x in ast.walk(r_)):
                        casefold = True
                return tuple(v), casefold, c
    # the reader searches by other means (str.find / `in` in a loop over the announcements): the table is the iterable of
    # a loop of the reader's region that folds to >= 2 strings and whose variable is what is searched for
    for ed in prog.region(ed0):
        for lp in ast.walk(ed.node):
            if not (isinstance(lp, (ast.For, ast.comprehension)) and isinstance(lp.target, ast.Name)):
                continue
            var = lp.target.id
            scope_ = lp if isinstance(lp, ast.For) else lp._parent
            searched = any(isinstance(c, ast.Call) and isinstance(c.func, ast.Attribute) and c.func.attr in ("find", "index", "rfind", "startswith", "partition", "split")
                           and any(isinstance(x, ast.Name) and x.id == var for a_ in c.args for x in ast.walk(a_)) for c in ast.walk(scope_)) \
                or any(isinstance(c, ast.Compare) and isinstance(c.ops[0], ast.In) and any(isinstance(x, ast.Name) and x.id == var for x in ast.walk(c.left)) for c in ast.walk(scope_))
            if not searched:
                continue
            for cand in _value_candidates(prog, lp.iter, ed.node):
                vv = folder.fold(cand, {}, cand)
                if vv is not UNKNOWN and isinstance(vv, (tuple, list, frozenset)) and len(vv) >= 2 and all(isinstance(x, str) for x in vv):
                    casefold = any(isinstance(x, ast.Attribute) and x.attr in ("casefold", "lower", "upper") for x in ast.walk(ed.node))
                    return tuple(sorted(vv) if isinstance(vv, frozenset) else vv), casefold, lp.iter
    raise AnalysisError("TABLE-announce: the announcement tuple of extract_default does not fold")


def rule_table_announce(prog, rep, tier):
    folder = Folder(prog)
    R, casefold, rnode = _announce_reader(prog, folder)
    norm = (lambda s: s.casefold()) if casefold else (lambda s: s)
    Rn = [norm(r) for r in R]
    if len(R) < 2:
        raise AnalysisError("TABLE-announce: only %d announcement phrases" % len(R))
    rep.note("TABLE-announce", "reader announcements %r (case-insensitive: %s)" % (R, casefold))
    sites = []
    # (c) is only demanded where the text is the sole carrier of the default (the docstring writer); parse_out_param
    # keeps the default in the IR next to the prose, so skipping its decorative sentence loses nothing
    for q, text_is_sole_carrier in (("defaults_utils.set_default_doc", True), ("emitter_utils.parse_out_param", False)):
        fi = prog.fn(q)
        # P: the literal fragments of the strings the writer builds (constants, f-strings, .format templates); the written
        # phrase is a fragment that mentions 'default'
        frags = {}
        holder = {}
        for f_ in prog.region(fi):
            for fr, nd in literal_fragments(f_.node, f_.node).items():
                if "default" in fr.casefold() and fr.strip() and len(fr) < 60 and fr.casefold().strip() != "default":
                    frags.setdefault(fr, nd)
                    holder.setdefault(fr, f_)
        if not frags:
            raise AnalysisError("TABLE-announce: %s no longer writes a default sentence with a literal phrase" % q)
        hit = [f for f in frags if any(r in norm(f) for r in Rn)]
        lit = hit[0] if hit else sorted(frags)[0]
        p = frags[lit]
        fi = holder[lit]  # the function that holds the phrase: its guards decide when the sentence is written
        # (a) the written phrase is one the reader announces
        if any(r in norm(lit) for r in Rn):
            rep.holds("TABLE-announce", "(a) %s writes %r, which contains a reader announcement" % (q, lit), loc(prog, p), "")
        else:
            rep.violation(Finding("TABLE-announce", q, "a:written-phrase:%r" % lit,
                                  "%s writes the default as %r but extract_default only looks for %r: nothing written is ever read back" % (q, lit, R), loc(prog, p)))
        # how does the writer decide "already has a default"?
        guards = [t for t, pol in expr_guards(p, stop=fi.node)]
        gnames = set()
        for t in guards:
            gnames |= names_in(t)
        decided_by_reader = False
        Q = []
        def searched(c):
            """the texts a substring test `X in prose` looks for: the constant, or - `a.rstrip() in prose for a in TABLE` - what the
            expression makes of every entry of the table it runs over"""
            if not (isinstance(c, ast.Compare) and len(c.ops) == 1 and isinstance(c.ops[0], (ast.In, ast.NotIn))):
                return []
            if isinstance(c.left, ast.Constant):
                return [c.left] if isinstance(c.left.value, str) else []
            par = getattr(c, "_parent", None)
            while par is not None and not isinstance(par, (ast.GeneratorExp, ast.ListComp, ast.SetComp, ast.FunctionDef, ast.Lambda)):
                par = getattr(par, "_parent", None)
            out = []
            if isinstance(par, (ast.GeneratorExp, ast.ListComp, ast.SetComp)) and len(par.generators) == 1 and isinstance(par.generators[0].target, ast.Name):
                var = par.generators[0].target.id
                tab = folder.fold(par.generators[0].iter, {}, par.generators[0].iter)
                if isinstance(tab, (tuple, list, frozenset, set)) and tab and all(isinstance(x, str) for x in tab) and var in names_in(c.left):
                    for x in sorted(tab):
                        v = folder.fold(c.left, {var: x}, c.left)
                        if isinstance(v, str):
                            k = ast.copy_location(ast.Constant(value=v), c.left)
                            k._module, k._parent = getattr(c.left, "_module", None) or prog.module_of(c), c
                            # is the prose searched in folded form?  (`x.casefold() in doc.casefold()`)
                            hay = c.comparators[0]
                            if isinstance(hay, ast.Name):
                                ds = [st_.value for st_ in ast.walk(fi.node) if isinstance(st_, ast.Assign) and any(isinstance(t_, ast.Name) and t_.id == hay.id for t_ in st_.targets)]
                                hay = ds[0] if len(ds) == 1 else hay
                            k._ci = isinstance(hay, ast.Call) and isinstance(hay.func, ast.Attribute) and hay.func.attr in ("casefold", "lower")
                            out.append(k)
            return out
        for t in guards:
            for c in ast.walk(t):
                Q.extend(searched(c))
        for nm in gnames:
            for st in ast.walk(fi.node):
                if isinstance(st, ast.Assign) and any(isinstance(x, ast.Name) and x.id == nm for x in st.targets):
                    if any(isinstance(c, ast.Call) and prog.is_fn(c.func, "defaults_utils.extract_default", c) for c in ast.walk(st.value)):
                        decided_by_reader = True
                    for c in ast.walk(st.value):
                        Q.extend(searched(c))
        Q = [c for c in Q if c.value not in ("default", "doc", "typ", "name")]  # key-presence tests of the parameter dict, not prose tests
        Q = list({c.value: c for c in Q}.values())
        if decided_by_reader:
            rep.holds("TABLE-announce", "(b)(c) %s decides 'already announced' by calling the reader (extract_default)" % q, loc(prog, p), "agreement by construction")
            continue
        if not Q:
            rep.ob("TABLE-announce", "(b)(c) %s: 'already announced' test" % q, "unresolved", loc(prog, p), "no substring test / reader call found among %r" % sorted(gnames))
            continue
        qs = [c.value for c in Q]
        # (b) the writer recognises its own sentence
        if any((c.value in lit.casefold()) if getattr(c, "_ci", False) else (c.value in lit) for c in Q):
            rep.holds("TABLE-announce", "(b) %s recognises its own sentence (%r in %r)" % (q, qs, lit), loc(prog, p), "")
        else:
            rep.violation(Finding("TABLE-announce", q, "b:own-sentence",
                                  "%s tests for %r but writes %r: its own sentence is not recognised, so one more sentence is appended on every pass" % (q, qs, lit), loc(prog, p)))
        # (c) the writer skips only what the reader would recognise
        for c in (Q if text_is_sole_carrier else []):
            if any(r in norm(c.value) for r in Rn):
                rep.holds("TABLE-announce", "(c) %s skips on %r, which the reader announces" % (q, c.value), loc(prog, c), "")
            else:
                rep.violation(Finding("TABLE-announce", q, "c:skip-word:%r" % c.value,
                                      "%s skips writing the default when the prose contains %r, which contains none of the reader's announcements %r: "
                                      "such prose loses its default on the way through text" % (q, c.value, R), loc(prog, c)))


# ---------------------------------------------------------------------------- ARGPARSE-VERBATIM (C06)
def rule_argparse_verbatim(prog, rep, tier, writer="emit.argparse_function"):
    """ARGPARSE-VERBATIM (C06): which of the texts handed to a generated parser argparse %-formats is a fact about argparse:
    every `help=` string is (`help % params`), the parser's `description` is printed as it is (only a text containing
    `%(prog)` is formatted).  The text assigned to `argument_parser.description` therefore carries the summary unchanged: a
    percent sign doubled there - the right thing for help - is printed doubled by the generated parser."""
    w = prog.fn(writer)
    n = 0
    for f in prog.reachable([w]):
        if f.module is not w.module:
            continue
        for c in ast.walk(f.node):
            if not (isinstance(c, ast.Call) and getattr(c.func, "id", getattr(c.func, "attr", None)) == "Assign"):
                continue
            tg = next((k.value for k in c.keywords if k.arg == "targets"), None)
            val = next((k.value for k in c.keywords if k.arg == "value"), None)
            if tg is None or val is None:
                continue
            if not any(isinstance(x, ast.Constant) and x.value == "description" for x in ast.walk(tg)):
                continue
            n += 1
            # the value expression and the locals it is built from
            closure, todo, seen = [], [val], set()
            while todo:
                e_ = todo.pop()
                closure.append(e_)
                for x in ast.walk(e_):
                    if isinstance(x, ast.Name) and x.id not in seen:
                        seen.add(x.id)
                        todo += [st.value for st in ast.walk(f.node) if isinstance(st, ast.Assign) and any(isinstance(t, ast.Name) and t.id == x.id for t in st.targets)]
            esc = [x for e_ in closure for x in ast.walk(e_) if isinstance(x, ast.Call) and isinstance(x.func, ast.Attribute) and x.func.attr == "replace" and len(x.args) >= 2
                   and all(isinstance(a_, ast.Constant) for a_ in x.args[:2]) and x.args[0].value == "%"]
            if esc:
                rep.violation(Finding(
                    "ARGPARSE-VERBATIM", prog.owner_name(f), "description-percent-rewritten",
                    "the text assigned to argument_parser.description passes through %s: argparse prints a description as it is (unlike help strings it is not %%-formatted), "
                    "so the generated parser shows the summary with the percent sign rewritten - it no longer says what the IR says" % src(esc[0], 40), loc(prog, esc[0])))
            else:
                rep.holds("ARGPARSE-VERBATIM", "%s: description = %s" % (prog.owner_name(f), src(val, 50)), loc(prog, c), "no percent rewriting on the text argparse prints as it is")
    if n == 0:
        raise AnalysisError("ARGPARSE-VERBATIM: the assignment to argument_parser.description was not found in %s" % writer)


# ---------------------------------------------------------------------------- RECEIVER-SITES (C15, C14, C11)
def rule_receiver_sites(prog, rep, tier, anchors=("ast_utils.annotate_ancestry", "ast_utils.RewriteAtQuery.visit_FunctionDef", "ast_utils.find_in_ast")):
    """RECEIVER-SITES: the location machinery numbers the arguments of a function and leaves the receiver out; which first
    arguments are receivers is what get_function_type recognises ('self' and 'cls').  Every test in that machinery that names a
    receiver - `args[0].arg in (...)`, `get_function_type(f) == ...` - names all of them: a test for 'self' alone numbers the
    arguments of a class method one too high, and the default of the neighbouring argument is the one that gets replaced."""
    gft = prog.fn("ast_utils.get_function_type")
    folder = Folder(prog)
    recog = set()
    for c in ast.walk(gft.node):
        if isinstance(c, ast.Compare) and len(c.ops) == 1 and isinstance(c.ops[0], ast.In):
            v = folder.fold(c.comparators[0], {}, c)
            if v is not UNKNOWN and isinstance(v, (tuple, list, set, frozenset)):
                recog |= {x for x in v if isinstance(x, str)}
        if isinstance(c, ast.Compare) and len(c.ops) == 1 and isinstance(c.ops[0], ast.Eq) and isinstance(c.comparators[0], ast.Constant) and isinstance(c.comparators[0].value, str):
            recog.add(c.comparators[0].value)
    receivers = {x for x in recog if x not in ("static", None)}
    if len(receivers) < 2:
        # the recogniser itself does not name its receivers as a table (TABLE-kind judges that): the kinds the interface has
        receivers = {"self", "cls"}
        rep.note("RECEIVER-SITES", "get_function_type does not spell out its receivers as a table; the method kinds of the interface (self, cls) are used")
    n = 0
    seen = set()
    roots = [prog.fn(a) for a in anchors if prog.has_fn(a)]
    if not roots:
        raise AnalysisError("RECEIVER-SITES: none of the anchors %r exists" % (anchors,))
    for f in prog.reachable(roots):
        if f is gft or f.module is not roots[0].module:
            continue
        for c in ast.walk(f.node):
            if not (isinstance(c, ast.Compare) and len(c.ops) == 1 and isinstance(c.ops[0], (ast.In, ast.NotIn, ast.Eq, ast.NotEq))) or id(c) in seen:
                continue
            seen.add(id(c))
            v = folder.fold(c.comparators[0], {}, c)
            named = set()
            if isinstance(c.ops[0], (ast.In, ast.NotIn)) and v is not UNKNOWN and isinstance(v, (tuple, list, set, frozenset)):
                named = {x for x in v if isinstance(x, str)}
            elif isinstance(c.ops[0], (ast.Eq, ast.NotEq)) and isinstance(v, str):
                named = {v}
                # `t == "self" or t == "cls"`: the siblings of a disjunction count together
                par = getattr(c, "_parent", None)
                if isinstance(par, ast.BoolOp):
                    for sib in par.values:
                        if isinstance(sib, ast.Compare) and len(sib.ops) == 1 and isinstance(sib.ops[0], (ast.Eq, ast.NotEq)) and dump(sib.left) == dump(c.left):
                            sv = folder.fold(sib.comparators[0], {}, sib)
                            if isinstance(sv, str):
                                named.add(sv)
                                seen.add(id(sib))
            if not (named & receivers):
                continue
            n += 1
            inst = "%s: %s" % (prog.owner_name(f), src(c, 50))
            missing = receivers - named
            if missing:
                rep.violation(Finding(
                    "RECEIVER-SITES", prog.owner_name(f), "receiver-test-incomplete:%s" % ",".join(sorted(missing)),
                    "`%s` names %r but not %r, which get_function_type also recognises as a receiver: for such a method the arguments are numbered with the receiver "
                    "counted in, one too high, and a replacement addressed to one argument lands on its neighbour's default" % (src(c, 50), sorted(named & receivers), sorted(missing)), loc(prog, c)))
            else:
                rep.holds("RECEIVER-SITES", inst, loc(prog, c), "names every receiver get_function_type recognises")
    if n == 0:
        raise AnalysisError("RECEIVER-SITES: no test naming a receiver found in the location machinery")


# ---------------------------------------------------------------------------- RETURN-CONST (C04)
def rule_return_const(prog, rep, tier, writer="emit.argparse_function", reader="emitter_utils._parse_return"):
    """RETURN-CONST (C04): the argparse writer puts the returned default into the `return (argument_parser, <default>)` tuple in two
    ways: parsed as an expression, or - when it is back-tick quoted code - as a *string constant* that still wears its ticks
    (`set_value(default)`).  The reader of that tuple must take a constant by its value: rendering the node back to source
    (`to_code`) gives the literal with its quotes, and the default comes back as `'```(1, 2)```'` instead of ```` ```(1, 2)``` ````."""
    w = prog.fn(writer)
    as_const = False
    for c in ast.walk(w.node):
        if isinstance(c, ast.Call) and getattr(c.func, "id", getattr(c.func, "attr", None)) == "Return":
            for x in ast.walk(c):
                if isinstance(x, ast.Call) and getattr(x.func, "id", getattr(x.func, "attr", None)) == "set_value" and any(
                        isinstance(k, ast.Constant) and k.value == "default" for a in x.args for k in ast.walk(a)):
                    as_const = True
    if not as_const:
        rep.holds("RETURN-CONST", "%s writes the returned default as an expression only" % writer, loc(prog, w.node), "nothing to unwrap")
        return
    r = prog.fn_role(reader, "argparse-return-reader") if hasattr(prog, "fn_role") and not prog.has_fn(reader) else prog.fn(reader)
    found = False
    for f in prog.region(r):
        for d in ast.walk(f.node):
            if not isinstance(d, ast.Dict):
                continue
            for k, v in zip(d.keys, d.values):
                if not (isinstance(k, ast.Constant) and k.value == "default"):
                    continue
                # the expression behind a local, and the body of a package helper it is handed to, belong to the value
                closure, todo, seen_ = [], [v], set()
                while todo and len(closure) < 12:
                    e_ = todo.pop()
                    closure.append(e_)
                    for x in ast.walk(e_):
                        if isinstance(x, ast.Name) and x.id not in seen_:
                            seen_.add(x.id)
                            todo += [st.value for st in ast.walk(f.node) if isinstance(st, ast.Assign) and any(isinstance(t, ast.Name) and t.id == x.id for t in st.targets)]
                        if isinstance(x, ast.Call) and isinstance(x.func, (ast.Name, ast.Attribute)):
                            for t in prog.resolve_expr_fn(x.func, x):
                                if isinstance(t, FunctionInfo) and t.module is f.module and t.node not in closure and t.node is not f.node:
                                    todo.append(t.node)
                if not any(isinstance(x, ast.Attribute) and x.attr == "elts" for e_ in closure for x in ast.walk(e_)):
                    continue
                found = True
                v = ast.Tuple(elts=[e_ for e_ in closure if isinstance(e_, ast.expr)] + [st_.value for e_ in closure if isinstance(e_, (ast.FunctionDef,)) for st_ in ast.walk(e_)
                                                                                           if isinstance(st_, (ast.Return, ast.Assign)) and st_.value is not None]
                              + [t_.test for e_ in closure if isinstance(e_, ast.FunctionDef) for t_ in ast.walk(e_) if isinstance(t_, (ast.If, ast.IfExp))], ctx=ast.Load())
                def takes_value(x):
                    nm = getattr(x.func, "id", getattr(x.func, "attr", None))
                    if nm in ("get_value", "literal_eval"):
                        return True
                    if nm == "getattr" and len(x.args) >= 2 and isinstance(x.args[1], ast.Constant) and x.args[1].value in ("value", "s"):
                        return True
                    # a package helper that does (parse_to_scalar: `get_value(node)` for constants)
                    if isinstance(x.func, (ast.Name, ast.Attribute)):
                        for t in prog.resolve_expr_fn(x.func, x):
                            if isinstance(t, FunctionInfo) and any(isinstance(y, ast.Call) and getattr(y.func, "id", getattr(y.func, "attr", None)) in ("get_value", "literal_eval")
                                                                    for g in prog.region(t) for y in ast.walk(g.node)):
                                return True
                    return False
                by_value = any(isinstance(x, ast.Call) and takes_value(x) for x in ast.walk(v)) \
                    or any(isinstance(x, ast.Attribute) and x.attr in ("value", "s") and any(isinstance(y, ast.Attribute) and y.attr == "elts" for y in ast.walk(x.value))
                           for x in ast.walk(v))
                v_shown = closure[0]
                if by_value:
                    rep.holds("RETURN-CONST", "%s: default = %s" % (prog.owner_name(f), src(v_shown, 60)), loc(prog, v_shown), "a constant is taken by its value")
                else:
                    rep.violation(Finding(
                        "RETURN-CONST", prog.owner_name(f), "constant-rendered-to-source",
                        "%s writes a back-tick quoted returned default as a string constant (set_value), and the reader takes the tuple element as %s: for a constant "
                        "that is the literal with its quotes, so the default comes back with an extra pair of quotes around the ticks" % (writer, src(v_shown, 50)), loc(prog, v_shown)))
    if not found:
        raise AnalysisError("RETURN-CONST: the reader of the returned tuple's default was not found in %s" % reader)


# ---------------------------------------------------------------------------- TABLE-style: google return type line
def rule_google_return_type(prog, rep, tier, writer="docstring_utils.emit_param_str", entry="docstring_parsers.parse_docstring"):
    """TABLE-style (google return entry): the Google writer puts the return type on a line of its own that ends in ':' and the
    prose below it.  An entry may have a type and no prose (prose is optional): the text is then that one line.  A reader branch
    that takes the *first* scanned line of the return block for the description must stand behind a test of that line's
    trailing ':' - else `Tuple[int, int]:` is read back as prose and the type is lost."""
    from sa.cfg import expr_guards as _eg
    w = prog.fn(writer)
    marks = [c for f in prog.region(w) for c in ast.walk(f.node) if isinstance(c, ast.Constant) and isinstance(c.value, str) and "{typ}:" in c.value.replace(" ", "")
             and not c.value.strip().startswith(("{name}", ":"))]
    if not marks:
        rep.holds("TABLE-style", "google return type line: the writer no longer marks the type line with a trailing ':'", loc(prog, w.node), "nothing for the reader to test")
        return
    start = prog.fn(entry)
    n = 0
    for f in prog.reachable([start]):
        if f.module is not start.module:
            continue
        for d in ast.walk(f.node):
            if not isinstance(d, ast.Dict) or len(d.keys) != 1:
                continue
            k, v = d.keys[0], d.values[0]
            if not (isinstance(k, ast.Constant) and k.value == "doc"):
                continue
            # a local that holds the first line (`first_line = return_lines[0]`) is that element
            exprs = [v] + [st.value for nm in {x.id for x in ast.walk(v) if isinstance(x, ast.Name)} for st in ast.walk(f.node)
                           if isinstance(st, ast.Assign) and len(st.targets) == 1 and isinstance(st.targets[0], ast.Name) and st.targets[0].id == nm]
            firsts = [x for e_ in exprs for x in ast.walk(e_) if isinstance(x, ast.Subscript) and isinstance(x.slice, ast.Constant) and x.slice.value == 0
                      and not any(isinstance(y, ast.Subscript) and y is not x and y.value is x for y in ast.walk(e_))]
            if not firsts:
                continue
            aliases = {st.targets[0].id for st in ast.walk(f.node) if isinstance(st, ast.Assign) and len(st.targets) == 1 and isinstance(st.targets[0], ast.Name)
                       and any(st.value is x or dump(st.value) == dump(x) for x in firsts)}
            # only the google return block: a guard compares the style with google
            gs = list(_eg(d, stop=f.node))
            from sa.rules.wrap import style_path_tag
            on_google = any(isinstance(a, ast.Attribute) and a.attr == "google" for t, _ in gs for a in ast.walk(t)) \
                or "google" in style_path_tag(prog, start, f, d)
            if not on_google or style_path_tag(prog, start, f, d) in ("not-google", "numpydoc"):
                continue
            # a first element that is no text (`{"doc": first} if not isinstance(first, str)`) has no colon to test
            from sa.cfg import facts as _fx
            if any(isinstance(a, ast.Call) and isinstance(a.func, ast.Name) and a.func.id == "isinstance" and len(a.args) == 2 and not pol_
                   and "str" in {y.id for y in ast.walk(a.args[1]) if isinstance(y, ast.Name)} for t, pol in gs for a, pol_ in _fx(t, pol)):
                continue
            n += 1
            key = dump(firsts[0])
            tested = any(isinstance(c, ast.Call) and isinstance(c.func, ast.Attribute) and c.func.attr == "endswith" and c.args and isinstance(c.args[0], ast.Constant)
                         and c.args[0].value == ":" and (key in dump(c.func.value) or any(isinstance(y, ast.Name) and y.id in aliases for y in ast.walk(c.func.value)))
                         for t, _ in gs for c in ast.walk(t))
            inst = "%s: doc from %s" % (prog.owner_name(f), src(firsts[0], 40))
            if tested:
                rep.holds("TABLE-style", "google return type line: " + inst, loc(prog, d), "behind a test of the line's trailing ':'")
            else:
                rep.violation(Finding(
                    "TABLE-style", prog.owner_name(f), "google-return-type-line-as-prose",
                    "the writer puts the return type on a line that ends in ':' (%r) and the prose below it; this branch takes the first line of the block for the "
                    "description without testing for that ':' - an entry with a type and no prose (`Tuple[int, int]:`) is read back as prose, its type is lost"
                    % marks[0].value, loc(prog, d)))
    if n == 0:
        rep.ob("TABLE-style", "google return type line: no reader branch takes the first line of the block for the description", "holds", "", "")
