"""
TYPE-LADDER (C17): the text of an announced default is turned into a Python value by a ladder of tests and conversions
(`isdecimal()` -> int, `in ("True", "False")` -> literal_eval, `float(...)` under suppress(ValueError), a typed branch that
dispatches on the declared type).  Which rung a text takes depends only on the *class* of the text, so the ladder is decided
by running it, abstractly, over the finite set of classes a default can belong to:

    uint "5"   sint "-5"   ffrac "0.5"   fwhole "5.0"   fexp "1e-07"   boolw "True"   nonew "None"   bare "mnist"   quoted '"mnist"'   code "len(xs)"

crossed with the declared type (None, or one of the simple types).  The interpreter below knows what the str predicates,
the numeric constructors and `ast.literal_eval` do on each class (success / ValueError / resulting type); anything else it
meets makes that (class, type) pair "unresolved", never a violation.  Required of every resolved pair:

  * no exception escapes the ladder (a ValueError that nothing catches ends the whole parse);
  * without a declared type: uint, sint -> int; ffrac, fwhole, fexp -> float; boolw -> bool; bare, quoted -> str;
  * with a declared type that fits the class: the value has that type.

Nothing is executed: the table of what `int("-5")` / `"-5".isdecimal()` / `literal_eval("mnist")` do is part of the rule.
"""
import ast

from sa.consteval import Folder, UNKNOWN
from sa.model import AnalysisError, Finding, FunctionInfo, loc, names_in, src

CLASSES = {
    # class: (representative text, expected type without a declared type)
    "uint": ("5", "int"), "sint": ("-5", "int"), "ffrac": ("0.5", "float"), "fwhole": ("5.0", "float"), "fexp": ("1e-07", "float"),
    "boolw": ("True", "bool"), "nonew": ("None", None), "bare": ("mnist", "str"), "quoted": ('"mnist"', "str"), "code": ("len(xs)", "str"),
    "empty": ("", "str"),
}
NUMERIC = ("uint", "sint", "ffrac", "fwhole", "fexp")
# an expression default (written back-tick quoted, the reader strips the ticks before the ladder) fits every declared type: the
# type describes the value of the expression; it must come through as the text it is
FITS = {"int": ("uint", "sint", "code"), "float": NUMERIC + ("code",), "complex": NUMERIC + ("code",), "bool": ("boolw", "code"), "str": ("bare", "quoted", "code")}
TEXT_STAYS = ("code",)
LITERAL_EVAL = {"uint": "int", "sint": "int", "ffrac": "float", "fwhole": "float", "fexp": "float", "boolw": "bool", "nonew": "NoneType", "quoted": "str"}


class _Exc(Exception):
    def __init__(self, name, at):
        self.name, self.at = name, at


class _Unknown(Exception):
    def __init__(self, why, at=None):
        self.why, self.at = why, at


class _Return(Exception):
    def __init__(self, value):
        self.value = value


class _Continue(Exception):
    pass


class _Break(Exception):
    pass


class Text(object):
    """a str whose content belongs to class `cls`"""
    def __init__(self, cls):
        self.cls = cls

    def __repr__(self):
        return "text:%s" % self.cls


class Val(object):
    """a converted value of Python type `typ` that came from a text of class `cls`"""
    def __init__(self, typ, cls):
        self.typ, self.cls = typ, cls

    def __repr__(self):
        return "%s<-%s" % (self.typ, self.cls)


class Builtin(object):
    def __init__(self, name):
        self.name = name


def _convert(ctor, v, at):
    """what int(v) / float(v) / complex(v) / bool(v) / str(v) give"""
    if isinstance(v, Text):
        c = v.cls
        if ctor == "int":
            if c in ("uint", "sint"):
                return Val("int", c)
            raise _Exc("ValueError", at)
        if ctor in ("float", "complex"):
            if c in NUMERIC:
                return Val(ctor, c)
            raise _Exc("ValueError", at)
        if ctor == "bool":
            return Val("bool", c)
        if ctor == "str":
            return v
    if isinstance(v, Val):
        if ctor in ("int", "float", "complex") and v.typ in ("int", "float", "bool"):
            return Val(ctor, v.cls)
        if ctor == "bool":
            return Val("bool", v.cls)
        if ctor == "str":
            return Val("str", v.cls)
        if ctor == "int" and v.typ == "str":
            return _convert("int", Text(v.cls), at)
        if ctor == "float" and v.typ == "str":
            return _convert("float", Text(v.cls), at)
        if ctor in ("int", "float") and v.typ in ("NoneType",):
            raise _Exc("TypeError", at)
    if isinstance(v, bool) or v is None:
        if ctor == "bool":
            return bool(v)
    raise _Unknown("conversion %s(%r)" % (ctor, v), at)


class Ladder(object):
    def __init__(self, prog, folder):
        self.prog, self.folder = prog, folder
        self.depth = 0
        self.handling = []

    # ------------------------------------------------------------------ expressions
    def const_container(self, e, at):
        v = self.folder.fold(e, {}, at)
        if isinstance(v, (tuple, list, set, frozenset, dict)):
            return set(v)
        # a module constant that does not fold entirely (depends on the interpreter version): the strings it may hold
        tgt = e
        if isinstance(e, ast.Name):
            b = self.prog.lookup(e.id, at)
            if b[0] == "value":
                tgt = b[2]
            else:
                return None
        cs = {c.value for c in ast.walk(tgt) if isinstance(c, ast.Constant)}
        return cs or None

    def ev(self, e, env):
        if isinstance(e, ast.Constant):
            return e.value
        if isinstance(e, ast.Name):
            if e.id in env:
                return env[e.id]
            b = self.prog.lookup(e.id, e)
            if b[0] == "builtin" and e.id in ("int", "float", "complex", "bool", "str"):
                return Builtin(e.id)
            raise _Unknown("name %s" % e.id, e)
        if isinstance(e, ast.UnaryOp) and isinstance(e.op, ast.Not):
            v = self.ev(e.operand, env)
            if isinstance(v, bool):
                return not v
            raise _Unknown("not of %r" % (v,), e)
        if isinstance(e, ast.BoolOp):
            is_and = isinstance(e.op, ast.And)
            last = None
            for x in e.values:
                last = self.truth(self.ev(x, env), x)
                if last is (not is_and):
                    return last
            return last
        if isinstance(e, ast.IfExp):
            return self.ev(e.body if self.truth(self.ev(e.test, env), e.test) else e.orelse, env)
        if isinstance(e, ast.Compare) and len(e.ops) == 1:
            op, l, r = e.ops[0], e.left, e.comparators[0]
            if isinstance(op, (ast.Is, ast.IsNot)) and isinstance(r, ast.Constant) and r.value is None:
                v = self.ev(l, env)
                res = v is None
                return res if isinstance(op, ast.Is) else not res
            if isinstance(l, ast.Call) and isinstance(l.func, ast.Name) and l.func.id == "type" and len(l.args) == 1 and isinstance(op, (ast.In, ast.NotIn, ast.Is, ast.IsNot, ast.Eq, ast.NotEq)):
                v = self.ev(l.args[0], env)
                vt = "str" if isinstance(v, (Text, str)) else v.typ if isinstance(v, Val) else "NoneType" if v is None else None
                if vt is None:
                    raise _Unknown("type of %r" % (v,), e)
                names = {n.id for n in ast.walk(r) if isinstance(n, ast.Name)} | {n.attr for n in ast.walk(r) if isinstance(n, ast.Attribute)}
                res = vt in names
                return res if isinstance(op, (ast.In, ast.Is, ast.Eq)) else not res
            if isinstance(op, (ast.In, ast.NotIn)):
                v = self.ev(l, env)
                cs = self.const_container(r, e)
                if cs is None:
                    raise _Unknown("membership in %s" % src(r, 30), e)
                if isinstance(v, Text):
                    res = CLASSES[v.cls][0] in cs
                elif v is None or isinstance(v, (str, int, float, bool)):
                    res = v in cs
                else:
                    raise _Unknown("membership of %r" % (v,), e)
                return res if isinstance(op, ast.In) else not res
            if isinstance(op, (ast.Eq, ast.NotEq)):
                a, b = self.ev(l, env), self.ev(r, env)
                if isinstance(a, Text) and isinstance(b, str):
                    res = CLASSES[a.cls][0] == b
                elif not isinstance(a, (Text, Val)) and not isinstance(b, (Text, Val)):
                    res = a == b
                else:
                    raise _Unknown("comparison", e)
                return res if isinstance(op, ast.Eq) else not res
            raise _Unknown("comparison %s" % src(e, 30), e)
        if isinstance(e, ast.Subscript):
            d = e.value
            if isinstance(d, ast.Name) and d.id not in env:
                b = self.prog.lookup(d.id, e)
                if b[0] == "value" and isinstance(b[2], ast.Dict):
                    d = b[2]  # a dispatch table kept as a module constant
            if isinstance(d, ast.Dict):
                k = self.ev(e.slice, env)
                for kk, vv in zip(d.keys, d.values):
                    if isinstance(kk, ast.Constant) and kk.value == k:
                        return self.ev(vv, env)
                raise _Exc("KeyError", e)
        if isinstance(e, ast.Subscript):
            v = self.ev(e.value, env)
            if isinstance(v, Text) and isinstance(e.slice, (ast.Constant, ast.UnaryOp)):
                try:
                    return CLASSES[v.cls][0][ast.literal_eval(e.slice)]
                except IndexError:
                    raise _Exc("IndexError", e)
            if isinstance(v, Val) or v is None:
                raise _Exc("TypeError", e)
            raise _Unknown("subscript of %r" % (v,), e)
        if isinstance(e, ast.Attribute):
            v = self.ev(e.value, env)
            if isinstance(v, (Val, Text)) or v is None:
                raise _Exc("AttributeError", e)  # the builtin value types have none of the attributes AST nodes have
            raise _Unknown("attribute of %r" % (v,), e)
        if isinstance(e, ast.Call):
            return self.call(e, env)
        raise _Unknown("expression %s" % src(e, 40), e)

    def truth(self, v, at):
        if isinstance(v, bool):
            return v
        if v is None:
            return False
        if isinstance(v, Text):
            return bool(CLASSES[v.cls][0])
        if isinstance(v, Val) and v.typ in ("float", "int", "complex"):
            raise _Unknown("truthiness of a number", at)
        if isinstance(v, str):
            return bool(v)
        raise _Unknown("truthiness of %r" % (v,), at)

    def call(self, e, env):
        f = e.func
        # methods
        if isinstance(f, ast.Attribute) and not (isinstance(f.value, ast.Name) and self.prog.lookup(f.value.id, e)[0] in ("module", "ext")):
            recv = self.ev(f.value, env)
            if isinstance(recv, Text):
                if f.attr in ("isdecimal", "isdigit", "isnumeric") and not e.args:
                    return recv.cls == "uint"
                if f.attr in ("lstrip", "strip") and len(e.args) == 1 and isinstance(e.args[0], ast.Constant) and isinstance(e.args[0].value, str) \
                        and set(e.args[0].value) <= set("+- "):
                    return Text("uint") if (recv.cls == "sint" and "-" in e.args[0].value) else recv
                if f.attr in ("strip", "lstrip", "rstrip") and not e.args:
                    return recv
                if f.attr == "startswith" and len(e.args) == 1 and isinstance(e.args[0], ast.Constant) and e.args[0].value in ("-", "+", ("-", "+"), ("+", "-")):
                    if recv.cls in ("uint", "boolw", "nonew", "bare", "quoted"):
                        return False
                    if recv.cls == "sint":
                        return "-" in e.args[0].value
                    raise _Unknown("sign of a float literal", e)
                if f.attr == "format":
                    return Val("str", recv.cls)
                raise _Unknown("str.%s" % f.attr, e)
            if isinstance(recv, Val):
                if f.attr == "is_integer" and not e.args and recv.typ in ("float", "int"):
                    return recv.cls in ("uint", "sint", "fwhole")
                raise _Unknown("%s.%s" % (recv.typ, f.attr), e)
            if isinstance(recv, str) and f.attr == "format":
                return Val("str", "bare")
            raise _Unknown("method %s of %r" % (f.attr, recv), e)
        if isinstance(f, ast.Name) and f.id == "isinstance" and len(e.args) == 2 and self.prog.lookup("isinstance", e)[0] == "builtin":
            v = self.ev(e.args[0], env)
            vt = "str" if isinstance(v, (Text, str)) else v.typ if isinstance(v, Val) else "NoneType" if v is None else None
            if vt is None:
                raise _Unknown("isinstance of %r" % (v,), e)
            names = {n.id for n in ast.walk(e.args[1]) if isinstance(n, ast.Name)} | {n.attr for n in ast.walk(e.args[1]) if isinstance(n, ast.Attribute)}
            if vt == "NoneType":
                return "NoneType" in names or any(isinstance(c, ast.Call) and isinstance(c.func, ast.Name) and c.func.id == "type" and c.args and isinstance(c.args[0], ast.Constant)
                                                  and c.args[0].value is None for c in ast.walk(e.args[1]))
            return vt in names or (vt == "bool" and "int" in names) or "object" in names
        args = [self.ev(a, env) for a in e.args]
        if isinstance(f, ast.Name) and f.id == "len" and len(args) == 1 and self.prog.lookup("len", e)[0] == "builtin":
            if isinstance(args[0], Text):
                return len(CLASSES[args[0].cls][0])
            if isinstance(args[0], str):
                return len(args[0])
            if isinstance(args[0], Val) or args[0] is None:
                raise _Exc("TypeError", e)
        if isinstance(f, (ast.Name, ast.Attribute)):
            en = self.prog.ext_name(f, e)
            if en == "ast.literal_eval" and len(args) == 1:
                v = args[0]
                if isinstance(v, Text):
                    if v.cls in LITERAL_EVAL:
                        return None if LITERAL_EVAL[v.cls] == "NoneType" else Val(LITERAL_EVAL[v.cls], v.cls)
                    raise _Exc("ValueError", e)
                raise _Unknown("literal_eval of %r" % (v,), e)
        fv = None
        if isinstance(f, ast.Name) and f.id in env:
            fv = env[f.id]
        elif isinstance(f, (ast.Subscript, ast.IfExp, ast.Call)):
            fv = self.ev(f, env)
        elif isinstance(f, ast.Name) and self.prog.lookup(f.id, e)[0] == "builtin" and f.id in ("int", "float", "complex", "bool", "str"):
            fv = Builtin(f.id)
        if isinstance(fv, Builtin) and len(args) == 1:
            return _convert(fv.name, args[0], e)
        # a helper of the package: run its body
        if isinstance(f, (ast.Name, ast.Attribute)):
            tg = [t for t in self.prog.resolve_expr_fn(f, e) if isinstance(t, FunctionInfo) and isinstance(t.node, ast.FunctionDef)]
            if len(tg) == 1 and self.depth < 3 and not e.keywords:
                t = tg[0]
                pn = t.params()
                if len(args) <= len(pn):
                    env2 = dict(zip(pn, args))
                    self.depth += 1
                    try:
                        self.block(t.node.body, env2)
                        return None
                    except _Return as r:
                        return r.value
                    finally:
                        self.depth -= 1
        raise _Unknown("call %s" % src(e, 40), e)

    # ------------------------------------------------------------------ statements
    def _catches(self, type_expr, name):
        if type_expr is None:
            return True
        names = {n.id for n in ast.walk(type_expr) if isinstance(n, ast.Name)} | {n.attr for n in ast.walk(type_expr) if isinstance(n, ast.Attribute)}
        return name in names or "Exception" in names or "BaseException" in names or (name in ("KeyError", "IndexError") and "LookupError" in names)

    def _literal_seq(self, e, env):
        """the tuple / list display an iterable denotes: written in place, or a module constant"""
        if isinstance(e, ast.Name) and e.id not in env:
            b = self.prog.lookup(e.id, e)
            if b[0] == "value":
                return b[2]
        return e

    def block(self, stmts, env):
        for s in stmts:
            if isinstance(s, ast.Expr) and isinstance(s.value, ast.Constant):
                continue
            if isinstance(s, ast.Assign) and len(s.targets) == 1 and isinstance(s.targets[0], ast.Name):
                env[s.targets[0].id] = self.ev(s.value, env)
            elif isinstance(s, ast.If):
                self.block(s.body if self.truth(self.ev(s.test, env), s.test) else s.orelse, env)
            elif isinstance(s, ast.With) and len(s.items) == 1 and isinstance(s.items[0].context_expr, ast.Call) \
                    and self.prog.ext_name(s.items[0].context_expr.func, s) == "contextlib.suppress":
                try:
                    self.block(s.body, env)
                except _Exc as x:
                    if not any(self._catches(a, x.name) for a in s.items[0].context_expr.args):
                        raise
            elif isinstance(s, ast.Try) and not s.finalbody:
                try:
                    self.block(s.body, env)
                except _Exc as x:
                    for h in s.handlers:
                        if self._catches(h.type, x.name):
                            self.handling.append(x)
                            try:
                                self.block(h.body, env)
                            finally:
                                self.handling.pop()
                            break
                    else:
                        raise
                else:
                    self.block(s.orelse, env)
            elif isinstance(s, ast.Return):
                raise _Return(None if s.value is None else self.ev(s.value, env))
            elif isinstance(s, ast.Pass):
                continue
            elif isinstance(s, ast.Continue):
                raise _Continue()
            elif isinstance(s, ast.Break):
                raise _Break()
            elif isinstance(s, ast.For) and isinstance(self._literal_seq(s.iter, env), (ast.Tuple, ast.List)) and isinstance(s.target, (ast.Name, ast.Tuple)):
                # a loop over a literal sequence (candidate converters tried in order) is unrolled
                broke = False
                for item in self._literal_seq(s.iter, env).elts:
                    if isinstance(s.target, ast.Name):
                        env[s.target.id] = self.ev(item, env)
                    elif isinstance(item, (ast.Tuple, ast.List)) and len(item.elts) == len(s.target.elts) and all(isinstance(t, ast.Name) for t in s.target.elts):
                        for t, x in zip(s.target.elts, item.elts):
                            env[t.id] = self.ev(x, env) if not isinstance(x, ast.Lambda) else x
                    else:
                        raise _Unknown("loop target %s" % src(s.target, 30), s)
                    try:
                        self.block(s.body, env)
                    except _Continue:
                        continue
                    except _Break:
                        broke = True
                        break
                if not broke:
                    self.block(s.orelse, env)
            elif isinstance(s, ast.Raise) and s.exc is None and self.handling:
                raise self.handling[-1]
            elif isinstance(s, ast.Raise) and s.exc is not None:
                nm = s.exc.func if isinstance(s.exc, ast.Call) else s.exc
                raise _Exc(getattr(nm, "id", getattr(nm, "attr", "Exception")), s)
            else:
                raise _Unknown("statement %s" % src(s, 40), s)


PROG = [None]


def _find_ladder(fi):
    """(variable, statements): the top-level statements of fi, from the first conditional that converts the variable returned as the
    default (int / float / literal_eval / a helper applied to it) up to the statement before the function's first return"""
    rets = [r for r in fi.node.body if isinstance(r, (ast.Return, ast.If)) for x in ast.walk(r) if isinstance(x, ast.Return) and isinstance(x.value, ast.Tuple) and len(x.value.elts) == 2]
    var = None
    for r in ast.walk(fi.node):
        if isinstance(r, ast.Return) and isinstance(r.value, ast.Tuple) and len(r.value.elts) == 2 and isinstance(r.value.elts[1], ast.Name):
            var = r.value.elts[1].id
    if var is None:
        return None, []
    body = fi.node.body
    start = None
    for i, s in enumerate(body):
        if isinstance(s, (ast.If, ast.Try, ast.With)) and any(
                isinstance(c, ast.Call) and any(isinstance(a, ast.Name) and a.id == var for a in c.args) and isinstance(c.func, (ast.Name, ast.Attribute, ast.Subscript))
                and (getattr(c.func, "id", None) in ("int", "float", "complex") or getattr(c.func, "attr", None) == "literal_eval" or getattr(c.func, "id", None) == "literal_eval"
                     or isinstance(c.func, ast.Subscript))
                for c in ast.walk(s)) and any(isinstance(t, ast.Name) and t.id == var and isinstance(t.ctx, ast.Store) for t in ast.walk(s)):
            start = i
            break
    if start is None:
        # the ladder was extracted: `var = helper(var, ...)` with a package helper that converts
        def converts(fn):
            return any(isinstance(c, ast.Call) and (getattr(c.func, "id", None) in ("int", "float", "complex", "literal_eval") or getattr(c.func, "attr", None) == "literal_eval")
                       for f in PROG[0].reachable([fn]) for c in ast.walk(f.node))
        for i, s in enumerate(body):
            if isinstance(s, ast.Assign) and len(s.targets) == 1 and isinstance(s.targets[0], ast.Name) and s.targets[0].id == var and isinstance(s.value, ast.Call) \
                    and any(isinstance(a, ast.Name) and a.id == var for a in s.value.args) and isinstance(s.value.func, (ast.Name, ast.Attribute)):
                tg = [t for t in PROG[0].resolve_expr_fn(s.value.func, s.value) if isinstance(t, FunctionInfo)]
                if len(tg) == 1 and converts(tg[0]):
                    return var, [s]
        return var, []
    end = start + 1
    while end < len(body) and not any(isinstance(x, ast.Return) for x in ast.walk(body[end])) and var in names_in(body[end]) \
            and any(isinstance(t, ast.Name) and t.id == var and isinstance(t.ctx, ast.Store) for t in ast.walk(body[end])):
        end += 1
    return var, body[start:end]


def rule_type_ladder(prog, rep, tier, anchor="defaults_utils.extract_default", typ_param="typ"):
    """TYPE-LADDER: every class of default text comes out of the conversion ladder with its own Python type, and no exception
    escapes it."""
    fi = prog.fn(anchor)
    PROG[0] = prog
    var, stmts = _find_ladder(fi)
    if not stmts:
        raise AnalysisError("TYPE-LADDER: the conversion ladder (a conditional that applies int / float / literal_eval to the extracted default) was not found in %s" % anchor)
    folder = Folder(prog)
    typs = [None]
    if typ_param in fi.params():
        typs += ["int", "float", "bool", "str"]
    resolved = 0
    for typ in typs:
        for cls, (text, want) in CLASSES.items():
            if typ is not None and cls not in FITS[typ]:
                continue  # a declared type that does not fit the text: whatever happens is not this rule's business
            if typ is None and want is None:
                continue
            if cls == "empty":
                continue  # the reader never extracts an empty text; the class exists for the writer-side rules
            inst = "%s text %r%s" % (cls, text, "" if typ is None else " declared %s" % typ)
            env = {var: Text(cls)}
            if typ_param in fi.params():
                env[typ_param] = typ
            lad = Ladder(prog, folder)
            try:
                lad.block(stmts, env)
                v = env.get(var)
                got = "str" if isinstance(v, (Text, str)) else v.typ if isinstance(v, Val) else "NoneType" if v is None else type(v).__name__
                expect = want if (typ is None or cls in TEXT_STAYS) else typ
                resolved += 1
                if got == expect:
                    rep.holds("TYPE-LADDER", inst, loc(prog, stmts[0]), "comes out as %s" % got)
                else:
                    rep.violation(Finding(
                        "TYPE-LADDER", anchor, "%s:%s->%s" % ("untyped" if typ is None else "typed-%s" % typ, cls, got),
                        "a default written as %s (%s%s) comes out of the conversion ladder as %s, not %s: the value changes its Python type on the way through prose"
                        % (text, _CLS_WORDS[cls], "" if typ is None else ", declared type %s" % typ, got, expect), loc(prog, stmts[0])))
            except _Exc as x:
                resolved += 1
                rep.violation(Finding(
                    "TYPE-LADDER", anchor, "%s:%s->%s" % ("untyped" if typ is None else "typed-%s" % typ, cls, x.name),
                    "a default written as %s (%s%s) makes %s raise %s, which nothing catches: the whole docstring fails to parse"
                    % (text, _CLS_WORDS[cls], "" if typ is None else ", declared type %s" % typ, src(x.at, 40), x.name), loc(prog, x.at)))
            except _Return:
                rep.ob("TYPE-LADDER", inst, "unresolved", loc(prog, stmts[0]), "the ladder returns from the function")
            except _Unknown as u:
                rep.ob("TYPE-LADDER", inst, "unresolved", loc(prog, u.at or stmts[0]), "not interpreted: %s" % u.why)
    if resolved < 8:
        raise AnalysisError("TYPE-LADDER: only %d (class, declared type) pairs could be followed through the ladder of %s" % (resolved, anchor))


_CLS_WORDS = {"empty": "the empty string", "uint": "an unsigned integer", "sint": "a signed integer", "ffrac": "a float", "fwhole": "a whole-valued float", "fexp": "a float in exponent notation",
              "boolw": "a boolean", "nonew": "None", "bare": "an unquoted string", "quoted": "a quoted string", "code": "an expression, written back-tick quoted"}


def rule_quote_types(prog, rep, tier, anchor="pure_utils.quote"):
    """QUOTE-TYPES (C02, C06, C08): the quoting helper is applied to IR defaults whenever the declared type mentions `str`
    (`Union[int, str]`, `Optional[str]`), so it meets every kind of default value the domain has.  Its dispatch on the value's
    type is run abstractly for a str (unquoted, quoted, empty), an int, a float, a bool and None: no exception may escape, and a
    str must come back as a str."""
    fi = prog.fn(anchor)
    pn = fi.params()
    a = fi.node.args
    defaults = dict(zip(pn[len(pn) - len(a.defaults):], a.defaults))
    folder = Folder(prog)
    inputs = [("an unquoted str", Text("bare")), ("a quoted str", Text("quoted")), ("the empty str", Text("empty")), ("an int", Val("int", "uint")), ("a float", Val("float", "ffrac")),
              ("a bool", Val("bool", "boolw")), ("None", None)]
    resolved = 0
    for words, v in inputs:
        env = {pn[0]: v}
        for q, d in defaults.items():
            if isinstance(d, ast.Constant):
                env[q] = d.value
        lad = Ladder(prog, folder)
        inst = "%s(%s)" % (anchor, words)
        try:
            try:
                lad.block(fi.node.body, env)
                out = None
            except _Return as r:
                out = r.value
            resolved += 1
            rep.holds("QUOTE-TYPES", inst, loc(prog, fi.node), "returns %s" % ("a str" if isinstance(out, (Text, str)) or (isinstance(out, Val) and out.typ == "str") else repr(out)))
        except _Exc as x:
            resolved += 1
            rep.violation(Finding(
                "QUOTE-TYPES", anchor, "raises:%s:%s" % (v.typ if isinstance(v, Val) else "str" if isinstance(v, Text) else "None", x.name),
                "%s applied to %s raises %s at `%s`: the helper is called on every default whose declared type mentions str (`Union[int, str] = 3`), so emitting such a "
                "parameter as a class or a docstring fails" % (anchor, words, x.name, src(x.at, 40)), loc(prog, x.at)))
        except _Unknown as u:
            rep.ob("QUOTE-TYPES", inst, "unresolved", loc(prog, u.at or fi.node), "not interpreted: %s" % u.why)
    if resolved < 4:
        raise AnalysisError("QUOTE-TYPES: only %d kinds of argument could be followed through %s" % (resolved, anchor))
