"""
TYPE-LADDER (C17): the text of an announced default is turned into a Python value by a ladder of tests and conversions
(`isdecimal()` -> int, `in ("True", "False")` -> literal_eval, `float(...)` under suppress(ValueError), a typed branch that
dispatches on the declared type).  Which rung a text takes depends only on the *class* of the text, so the ladder is decided
by running it, abstractly, over the finite set of classes a default can belong to:

    uint "5"   sint "-5"   ffrac "0.5"   fwhole "5.0"   fexp "1e-07"   boolw "True"   nonew "None"   bare "mnist"   quoted '"mnist"'   code "len(xs)"

crossed with the declared type (None, or one of the simple types).  The interpreter below knows what the str predicates,
the numeric constructors and `ast.literal_eval` do on each class (success / ValueError / resulting type); anything else it
meets makes that (class, type) pair "unresolved", never a violation.  Required of every resolved pair:

  * no exception escapes the ladder (a ValueError that nothing catches ends the whole parse);
  * without a declared type: uint, sint -> int; ffrac, fwhole, fexp -> float; boolw -> bool; bare, quoted -> str;
  * with a declared type that fits the class: the value has that type.

Nothing is executed: the table of what `int("-5")` / `"-5".isdecimal()` / `literal_eval("mnist")` do is part of the rule.
"""
import ast

from sa.consteval import Folder, UNKNOWN
from sa.model import AnalysisError, Finding, FunctionInfo, loc, names_in, src

CLASSES = {
    # class: (representative text, expected type without a declared type)
    "uint": ("5", "int"), "sint": ("-5", "int"), "ffrac": ("0.5", "float"), "fwhole": ("5.0", "float"), "fexp": ("1e-07", "float"),
    "boolw": ("True", "bool"), "nonew": ("None", None), "bare": ("mnist", "str"), "quoted": ('"mnist"', "str"), "code": ("len(xs)", "str"),
    "empty": ("", "str"),
    # what Python's own repr writes for large floats; a quoted text that looks like a number / a boolean is still a string
    "fexpp": ("1e+16", "float"), "qnum": ('"5"', "str"), "qbool": ('"True"', "str"),
}
NUMERIC = ("uint", "sint", "ffrac", "fwhole", "fexp", "fexpp")
# an expression default (written back-tick quoted, the reader strips the ticks before the ladder) fits every declared type: the
# type describes the value of the expression; it must come through as the text it is
FITS = {"int": ("uint", "sint", "code"), "float": NUMERIC + ("code",), "complex": NUMERIC + ("code",), "bool": ("boolw", "code"), "str": ("bare", "quoted", "code", "qnum", "qbool")}
TEXT_STAYS = ("code",)
LITERAL_EVAL = {"uint": "int", "sint": "int", "ffrac": "float", "fwhole": "float", "fexp": "float", "boolw": "bool", "nonew": "NoneType", "quoted": "str"}


class _Exc(Exception):
    def __init__(self, name, at):
        self.name, self.at = name, at


class _Unknown(Exception):
    def __init__(self, why, at=None):
        self.why, self.at = why, at


class _Return(Exception):
    def __init__(self, value):
        self.value = value


class _Continue(Exception):
    pass


class _Break(Exception):
    pass


def classify(rep):
    """the class a text belongs to (what Python's own int / float / literal syntax make of it)"""
    import re
    if rep == "":
        return "empty"
    if rep in ("True", "False"):
        return "boolw"
    if rep == "None":
        return "nonew"
    if re.fullmatch(r"\d+", rep):
        return "uint"
    if re.fullmatch(r"[+-]\d+", rep):
        return "sint"
    try:
        f = float(rep)
        if rep.strip() == rep and rep.lower() not in ("nan", "inf", "infinity", "-inf", "+inf"):
            return ("fexpp" if f.is_integer() else "fexp") if "e" in rep.lower() else ("fwhole" if f.is_integer() else "ffrac")
    except ValueError:
        pass
    if len(rep) >= 2 and rep[0] == rep[-1] and rep[0] in "'\"":
        return "quoted"
    return "code" if "(" in rep else "bare"


class Text(object):
    """a str: one representative text `rep` of the class `cls` it belongs to.  String operations are carried out on the
    representative (what `"-5".isdecimal()` or `'"5"'[1:-1]` give is part of the language, not of the repository)."""
    def __init__(self, cls, rep=None):
        self.cls = cls
        self.rep = CLASSES[cls][0] if rep is None else rep

    @staticmethod
    def of(rep):
        return Text(classify(rep), rep)

    def __repr__(self):
        return "text:%s:%r" % (self.cls, self.rep)


class Val(object):
    """a converted value of Python type `typ` that came from a text of class `cls`"""
    def __init__(self, typ, cls):
        self.typ, self.cls = typ, cls

    def __repr__(self):
        return "%s<-%s" % (self.typ, self.cls)


class Truthy(object):
    """an object that is only ever tested for truth (a regular-expression match)"""


class Unk(object):
    """a value the interpreter could not compute for a variable the verdict does not depend on; using it is 'unresolved'"""
    def __init__(self, why):
        self.why = why


class Builtin(object):
    def __init__(self, name):
        self.name = name


def _convert(ctor, v, at):
    """what int(v) / float(v) / complex(v) / bool(v) / str(v) give"""
    if isinstance(v, Text):
        c = v.cls
        if ctor in ("int", "float", "complex"):
            try:
                {"int": int, "float": float, "complex": complex}[ctor](v.rep)
            except ValueError:
                raise _Exc("ValueError", at)
            return Val(ctor, classify(v.rep.strip()))
        if ctor == "bool":
            return Val("bool", c)
        if ctor == "str":
            return v
    if isinstance(v, Val):
        if ctor in ("int", "float", "complex") and v.typ in ("int", "float", "bool"):
            return Val(ctor, v.cls)
        if ctor == "bool":
            return Val("bool", v.cls)
        if ctor == "str":
            return Val("str", v.cls)
        if ctor in ("int", "float") and v.typ == "str":
            return _convert(ctor, Text(v.cls), at)
        if ctor in ("int", "float") and v.typ in ("NoneType",):
            raise _Exc("TypeError", at)
    if isinstance(v, bool) or v is None:
        if ctor == "bool":
            return bool(v)
        if ctor == "int" and isinstance(v, bool):
            return int(v)
    if isinstance(v, int) and ctor == "int":
        return v
    raise _Unknown("conversion %s(%r)" % (ctor, v), at)


class Ladder(object):
    def __init__(self, prog, folder):
        self.prog, self.folder = prog, folder
        self.depth = 0
        self.handling = []
        self.tracked = None

    # ------------------------------------------------------------------ expressions
    def const_container(self, e, at):
        v = self.folder.fold(e, {}, at)
        if isinstance(v, (tuple, list, set, frozenset, dict)):
            return set(v)
        # a module constant that does not fold entirely (depends on the interpreter version): the strings it may hold
        tgt = e
        if isinstance(e, ast.Name):
            b = self.prog.lookup(e.id, at)
            if b[0] == "value":
                tgt = b[2]
            else:
                return None
        cs = {c.value for c in ast.walk(tgt) if isinstance(c, ast.Constant)}
        return cs or None

    def ev(self, e, env):
        if isinstance(e, ast.Constant):
            return e.value
        if isinstance(e, ast.Name):
            if e.id in env:
                if isinstance(env[e.id], Unk):
                    raise _Unknown("%s (%s)" % (e.id, env[e.id].why), e)
                return env[e.id]
            b = self.prog.lookup(e.id, e)
            if b[0] == "builtin" and e.id in ("int", "float", "complex", "bool", "str"):
                return Builtin(e.id)
            raise _Unknown("name %s" % e.id, e)
        if isinstance(e, ast.Dict) and all(k is not None for k in e.keys):
            return {self._plain(self.ev(k, env), k): self.ev(v, env) for k, v in zip(e.keys, e.values)}
        if isinstance(e, (ast.Tuple, ast.List)) and isinstance(getattr(e, "ctx", None), ast.Load):
            vals = [self.ev(x, env) for x in e.elts]
            return tuple(vals) if isinstance(e, ast.Tuple) else vals
        if isinstance(e, ast.UnaryOp) and isinstance(e.op, (ast.USub, ast.UAdd)):
            v = self.ev(e.operand, env)
            if isinstance(v, (int, float)) and not isinstance(v, bool):
                return -v if isinstance(e.op, ast.USub) else v
            raise _Unknown("sign of %r" % (v,), e)
        if isinstance(e, ast.BinOp) and isinstance(e.op, (ast.Add, ast.Sub)):
            a, b = self.ev(e.left, env), self.ev(e.right, env)
            if all(isinstance(x, int) for x in (a, b)):
                return a + b if isinstance(e.op, ast.Add) else a - b
            if isinstance(e.op, ast.Add) and all(isinstance(x, (str, Text)) for x in (a, b)):
                return Text.of((a.rep if isinstance(a, Text) else a) + (b.rep if isinstance(b, Text) else b))
            raise _Unknown("arithmetic", e)
        if isinstance(e, ast.UnaryOp) and isinstance(e.op, ast.Not):
            return not self.truth(self.ev(e.operand, env), e.operand)
        if isinstance(e, ast.BoolOp):
            is_and = isinstance(e.op, ast.And)
            v = None
            for x in e.values:
                v = self.ev(x, env)
                if self.truth(v, x) is (not is_and):
                    return v
            return v
        if isinstance(e, ast.IfExp):
            return self.ev(e.body if self.truth(self.ev(e.test, env), e.test) else e.orelse, env)
        if isinstance(e, ast.Compare) and len(e.ops) > 1:
            parts, left = [], e.left
            for op, right in zip(e.ops, e.comparators):
                parts.append(ast.Compare(left=left, ops=[op], comparators=[right]))
                left = right
            for p_ in parts:
                ast.copy_location(p_, e)
                p_._parent = getattr(e, "_parent", None)
                if not self.truth(self.ev(p_, env), e):
                    return False
            return True
        if isinstance(e, ast.Compare) and len(e.ops) == 1:
            op, l, r = e.ops[0], e.left, e.comparators[0]
            if isinstance(op, (ast.Is, ast.IsNot)) and isinstance(r, ast.Constant) and r.value is None:
                v = self.ev(l, env)
                res = v is None
                return res if isinstance(op, ast.Is) else not res
            if isinstance(l, ast.Call) and isinstance(l.func, ast.Name) and l.func.id == "type" and len(l.args) == 1 and isinstance(op, (ast.In, ast.NotIn, ast.Is, ast.IsNot, ast.Eq, ast.NotEq)):
                v = self.ev(l.args[0], env)
                vt = "str" if isinstance(v, (Text, str)) else v.typ if isinstance(v, Val) else "NoneType" if v is None else None
                if vt is None:
                    raise _Unknown("type of %r" % (v,), e)
                names = {n.id for n in ast.walk(r) if isinstance(n, ast.Name)} | {n.attr for n in ast.walk(r) if isinstance(n, ast.Attribute)}
                res = vt in names
                return res if isinstance(op, (ast.In, ast.Is, ast.Eq)) else not res
            if isinstance(op, (ast.In, ast.NotIn)) and isinstance(self.folder.fold(r, {}, e), str):
                # membership in a string constant is a substring test
                hay = self.folder.fold(r, {}, e)
                v = self.ev(l, env)
                needle = v.rep if isinstance(v, Text) else v
                if not isinstance(needle, str):
                    raise _Exc("TypeError", e)
                res = needle in hay
                return res if isinstance(op, ast.In) else not res
            if isinstance(op, (ast.In, ast.NotIn)) and isinstance(r, ast.Name) and isinstance(env.get(r.id), (Text, str)):
                # a substring test on the text itself (`"." in default`)
                hay = env[r.id].rep if isinstance(env[r.id], Text) else env[r.id]
                v = self.ev(l, env)
                needle = v.rep if isinstance(v, Text) else v
                if not isinstance(needle, str):
                    raise _Exc("TypeError", e)
                res = needle in hay
                return res if isinstance(op, ast.In) else not res
            if isinstance(op, (ast.In, ast.NotIn)) and isinstance(r, ast.Name) and isinstance(env.get(r.id), (dict, list, tuple, set, frozenset)):
                v = self._plain(self.ev(l, env), l)
                res = v in env[r.id]
                return res if isinstance(op, ast.In) else not res
            if isinstance(op, (ast.In, ast.NotIn)):
                v = self.ev(l, env)
                cs = self.const_container(r, e)
                if cs is None:
                    raise _Unknown("membership in %s" % src(r, 30), e)
                if isinstance(v, Text):
                    res = v.rep in cs
                elif v is None or isinstance(v, (str, int, float, bool)):
                    res = v in cs
                else:
                    raise _Unknown("membership of %r" % (v,), e)
                return res if isinstance(op, ast.In) else not res
            if isinstance(op, (ast.Eq, ast.NotEq)):
                a, b = self.ev(l, env), self.ev(r, env)
                a = a.rep if isinstance(a, Text) else a
                b = b.rep if isinstance(b, Text) else b
                if isinstance(a, (Val, Truthy)) or isinstance(b, (Val, Truthy)):
                    raise _Unknown("comparison", e)
                res = a == b
                return res if isinstance(op, ast.Eq) else not res
            if isinstance(op, (ast.Lt, ast.LtE, ast.Gt, ast.GtE)):
                a, b = self.ev(l, env), self.ev(r, env)
                if isinstance(a, (int, float)) and isinstance(b, (int, float)) and not isinstance(a, bool) and not isinstance(b, bool):
                    return {ast.Lt: a < b, ast.LtE: a <= b, ast.Gt: a > b, ast.GtE: a >= b}[type(op)]
            raise _Unknown("comparison %s" % src(e, 30), e)
        if isinstance(e, ast.Subscript) and isinstance(e.value, ast.Name) and isinstance(env.get(e.value.id), dict):
            k = self._plain(self.ev(e.slice, env), e.slice)
            if k in env[e.value.id]:
                return env[e.value.id][k]
            raise _Exc("KeyError", e)
        if isinstance(e, ast.Subscript):
            d = e.value
            if isinstance(d, ast.Name) and d.id not in env:
                b = self.prog.lookup(d.id, e)
                if b[0] == "value" and isinstance(b[2], ast.Dict):
                    d = b[2]  # a dispatch table kept as a module constant
            if isinstance(d, ast.Dict):
                k = self.ev(e.slice, env)
                for kk, vv in zip(d.keys, d.values):
                    if isinstance(kk, ast.Constant) and kk.value == k:
                        return self.ev(vv, env)
                raise _Exc("KeyError", e)
        if isinstance(e, ast.Subscript):
            v = self.ev(e.value, env)
            if isinstance(v, (Text, str)):
                rep = v.rep if isinstance(v, Text) else v
                if isinstance(e.slice, ast.Slice):
                    bounds = [None if b is None else self.ev(b, env) for b in (e.slice.lower, e.slice.upper, e.slice.step)]
                    if any(b is not None and (isinstance(b, bool) or not isinstance(b, int)) for b in bounds):
                        raise _Unknown("slice bounds %r" % (bounds,), e)
                    return Text.of(rep[slice(*bounds)])
                i = self.ev(e.slice, env)
                if isinstance(i, int) and not isinstance(i, bool):
                    try:
                        return rep[i]
                    except IndexError:
                        raise _Exc("IndexError", e)
                raise _Unknown("index %r" % (i,), e)
            if isinstance(v, Val) or v is None:
                raise _Exc("TypeError", e)
            raise _Unknown("subscript of %r" % (v,), e)
        if isinstance(e, ast.Attribute):
            v = self.ev(e.value, env)
            if isinstance(v, (Val, Text)) or v is None:
                raise _Exc("AttributeError", e)  # the builtin value types have none of the attributes AST nodes have
            raise _Unknown("attribute of %r" % (v,), e)
        if isinstance(e, ast.Call):
            return self.call(e, env)
        raise _Unknown("expression %s" % src(e, 40), e)

    def truth(self, v, at):
        if isinstance(v, bool):
            return v
        if v is None:
            return False
        if isinstance(v, Text):
            return bool(v.rep)
        if isinstance(v, Val) and v.typ in ("float", "int", "complex"):
            raise _Unknown("truthiness of a number", at)
        if isinstance(v, (str, int)):
            return bool(v)
        if isinstance(v, Truthy):
            return True
        raise _Unknown("truthiness of %r" % (v,), at)

    def call(self, e, env):
        f = e.func
        if isinstance(f, ast.Attribute) and f.attr in ("match", "fullmatch", "search"):
            pat, flags, subject = None, 0, None
            base = f.value
            if isinstance(base, ast.Name) and self.prog.lookup(base.id, e)[0] == "ext" and self.prog.ext_name(base, e) == "re" and len(e.args) >= 2:
                pat, subject = self._const_str(e.args[0], e), self.ev(e.args[1], env)
                flags = self._re_flags(e.args[2:] + [k.value for k in e.keywords])
            elif isinstance(base, ast.Name) and base.id not in env:
                b = self.prog.lookup(base.id, e)
                if b[0] == "value" and isinstance(b[2], ast.Call) and isinstance(b[2].func, ast.Attribute) and b[2].func.attr == "compile" and b[2].args and e.args:
                    pat, subject = self._const_str(b[2].args[0], b[2]), self.ev(e.args[0], env)
                    flags = self._re_flags(b[2].args[1:] + [k.value for k in b[2].keywords])
            if pat is not None and isinstance(subject, (Text, str)):
                import re
                rep = subject.rep if isinstance(subject, Text) else subject
                return Truthy() if getattr(re, f.attr)(pat, rep, flags) else None
        # methods
        if isinstance(f, ast.Attribute) and not (isinstance(f.value, ast.Name) and self.prog.lookup(f.value.id, e)[0] in ("module", "ext")):
            recv = self.ev(f.value, env)
            if isinstance(recv, (Text, str)) and f.attr != "format":
                rep = recv.rep if isinstance(recv, Text) else recv
                args_ = [self.ev(a, env) for a in e.args]
                args_ = [a.rep if isinstance(a, Text) else a for a in args_]
                if e.keywords or not all(isinstance(a, (str, int, tuple)) and not isinstance(a, bool) for a in args_):
                    raise _Unknown("str.%s arguments" % f.attr, e)
                if f.attr in ("isdecimal", "isdigit", "isnumeric", "isalpha", "isalnum", "isspace", "islower", "isupper", "startswith", "endswith", "count", "find", "index"):
                    try:
                        return getattr(rep, f.attr)(*args_)
                    except ValueError:
                        raise _Exc("ValueError", e)
                    except TypeError:
                        raise _Unknown("str.%s" % f.attr, e)
                if f.attr in ("strip", "lstrip", "rstrip", "lower", "upper", "casefold", "title", "capitalize", "replace", "removeprefix", "removesuffix", "expandtabs"):
                    try:
                        return Text.of(getattr(rep, f.attr)(*args_))
                    except TypeError:
                        raise _Unknown("str.%s" % f.attr, e)
                raise _Unknown("str.%s" % f.attr, e)
            if isinstance(recv, Text) and f.attr == "format":
                return Val("str", recv.cls)
            if isinstance(recv, Val):
                if f.attr == "is_integer" and not e.args and recv.typ in ("float", "int"):
                    # decided on the representative of the class the value came from (1e+16 is a whole number, 1e-07 is not)
                    if recv.cls in NUMERIC:
                        return float(CLASSES[recv.cls][0]).is_integer()
                    raise _Unknown("is_integer of a value that came from %s" % recv.cls, e)
                raise _Unknown("%s.%s" % (recv.typ, f.attr), e)
            if isinstance(recv, str) and f.attr == "format":
                a_ = [self.ev(a, env) for a in e.args]
                k_ = {k.arg: self.ev(k.value, env) for k in e.keywords if k.arg}
                un = lambda x: x.rep if isinstance(x, Text) else x
                if all(isinstance(un(x), (str, int)) and not isinstance(x, bool) for x in list(a_) + list(k_.values())) and all(k.arg for k in e.keywords):
                    try:
                        return Text.of(recv.format(*[un(x) for x in a_], **{k: un(v) for k, v in k_.items()}))
                    except (IndexError, KeyError):
                        raise _Exc("IndexError", e)
                return Val("str", "bare")
            if isinstance(recv, dict) and f.attr in ("values", "keys", "items") and not e.args:
                return list(getattr(recv, f.attr)())
            if isinstance(recv, dict) and f.attr == "get" and e.args:
                k_ = self._plain(self.ev(e.args[0], env), e)
                return recv.get(k_, self.ev(e.args[1], env) if len(e.args) > 1 else None)
            raise _Unknown("method %s of %r" % (f.attr, recv), e)
        if isinstance(f, ast.Name) and f.id == "isinstance" and len(e.args) == 2 and self.prog.lookup("isinstance", e)[0] == "builtin":
            v = self.ev(e.args[0], env)
            vt = "str" if isinstance(v, (Text, str)) else v.typ if isinstance(v, Val) else "NoneType" if v is None else None
            if vt is None:
                raise _Unknown("isinstance of %r" % (v,), e)
            names = {n.id for n in ast.walk(e.args[1]) if isinstance(n, ast.Name)} | {n.attr for n in ast.walk(e.args[1]) if isinstance(n, ast.Attribute)}
            if vt == "NoneType":
                return "NoneType" in names or any(isinstance(c, ast.Call) and isinstance(c.func, ast.Name) and c.func.id == "type" and c.args and isinstance(c.args[0], ast.Constant)
                                                  and c.args[0].value is None for c in ast.walk(e.args[1]))
            return vt in names or (vt == "bool" and "int" in names) or "object" in names
        if isinstance(f, ast.Attribute) and f.attr in ("values", "keys", "items") and isinstance(f.value, ast.Name) and isinstance(env.get(f.value.id), dict) and not e.args:
            return list(getattr(env[f.value.id], f.attr)())
        args = [self.ev(a, env) for a in e.args]
        if isinstance(f, ast.Name) and f.id in ("sum", "any", "all", "min", "max") and len(args) == 1 and isinstance(args[0], (list, tuple)) \
                and all(isinstance(x, (int, bool)) for x in args[0]) and self.prog.lookup(f.id, e)[0] == "builtin":
            return {"sum": sum, "any": any, "all": all, "min": min, "max": max}[f.id](args[0])
        if isinstance(f, ast.Name) and f.id == "len" and len(args) == 1 and isinstance(args[0], (dict, list, tuple)):
            return len(args[0])
        if isinstance(f, ast.Name) and f.id == "len" and len(args) == 1 and self.prog.lookup("len", e)[0] == "builtin":
            if isinstance(args[0], Text):
                return len(args[0].rep)
            if isinstance(args[0], str):
                return len(args[0])
            if isinstance(args[0], Val) or args[0] is None:
                raise _Exc("TypeError", e)
        if isinstance(f, (ast.Name, ast.Attribute)):
            en = self.prog.ext_name(f, e)
            if en == "ast.literal_eval" and len(args) == 1:
                v = args[0]
                if isinstance(v, Text):
                    try:
                        r = ast.literal_eval(v.rep)
                    except ValueError:
                        raise _Exc("ValueError", e)
                    except SyntaxError:
                        raise _Exc("SyntaxError", e)
                    return None if r is None else Val(type(r).__name__, classify(v.rep.strip()))
                raise _Unknown("literal_eval of %r" % (v,), e)
        fv = None
        if isinstance(f, ast.Name) and f.id in env:
            fv = env[f.id]
        elif isinstance(f, (ast.Subscript, ast.IfExp, ast.Call)):
            fv = self.ev(f, env)
        elif isinstance(f, ast.Name) and self.prog.lookup(f.id, e)[0] == "builtin" and f.id in ("int", "float", "complex", "bool", "str"):
            fv = Builtin(f.id)
        if isinstance(fv, Builtin) and len(args) == 1:
            return _convert(fv.name, args[0], e)
        # a helper of the package: run its body
        if isinstance(f, (ast.Name, ast.Attribute)):
            tg = [t for t in self.prog.resolve_expr_fn(f, e) if isinstance(t, FunctionInfo) and isinstance(t.node, ast.FunctionDef)]
            if len(tg) == 1 and self.depth < 3 and not e.keywords:
                t = tg[0]
                pn = t.params()
                if len(args) <= len(pn):
                    a_ = t.node.args
                    env2 = {q: d.value for q, d in zip(pn[len(pn) - len(a_.defaults):], a_.defaults) if isinstance(d, ast.Constant)}
                    env2.update(zip(pn, args))
                    self.depth += 1
                    try:
                        self.block(t.node.body, env2)
                        return None
                    except _Return as r:
                        return r.value
                    finally:
                        self.depth -= 1
        raise _Unknown("call %s" % src(e, 40), e)

    # ------------------------------------------------------------------ statements
    def _catches(self, type_expr, name):
        if type_expr is None:
            return True
        names = {n.id for n in ast.walk(type_expr) if isinstance(n, ast.Name)} | {n.attr for n in ast.walk(type_expr) if isinstance(n, ast.Attribute)}
        return name in names or "Exception" in names or "BaseException" in names or (name in ("KeyError", "IndexError") and "LookupError" in names)

    def _plain(self, v, at):
        """a Python value for use as a key / element: the representative of a text"""
        if isinstance(v, Text):
            return v.rep
        if isinstance(v, (str, int, float, bool, type(None), tuple)):
            return v
        raise _Unknown("a plain value is needed, got %r" % (v,), at)

    def _const_str(self, e, at):
        v = self.folder.fold(e, {}, at)
        return v if isinstance(v, str) else None

    def _re_flags(self, nodes):
        import re
        fl = 0
        for n in nodes:
            for x in ast.walk(n):
                if isinstance(x, ast.Attribute) and x.attr in ("I", "IGNORECASE"):
                    fl |= re.I
                elif isinstance(x, ast.Attribute) and x.attr in ("X", "VERBOSE"):
                    fl |= re.X
        return fl

    def _add(self, a, b, minus, at):
        if all(isinstance(x, int) and not isinstance(x, bool) for x in (a, b)):
            return a - b if minus else a + b
        if not minus and all(isinstance(x, (str, Text)) for x in (a, b)):
            out = (a.rep if isinstance(a, Text) else a) + (b.rep if isinstance(b, Text) else b)
            return Text.of(out) if isinstance(a, Text) else out
        raise _Unknown("augmented assignment of %r and %r" % (a, b), at)

    def _string_iter(self, s, env):
        """(characters, with index?) when the loop runs over a text held in the environment: `for ch in text`, `for i, ch in enumerate(text)`"""
        it = s.iter
        with_index = False
        if isinstance(it, ast.Call) and isinstance(it.func, ast.Name) and it.func.id == "enumerate" and len(it.args) == 1 and isinstance(s.target, ast.Tuple) \
                and len(s.target.elts) == 2 and all(isinstance(t, ast.Name) for t in s.target.elts):
            it, with_index = it.args[0], True
        elif not isinstance(s.target, ast.Name):
            return None
        if isinstance(it, ast.Name) and isinstance(env.get(it.id), (str, Text)):
            v = env[it.id]
            return (v.rep if isinstance(v, Text) else v), with_index
        return None

    def _literal_seq(self, e, env):
        """the tuple / list display an iterable denotes: written in place, or a module constant"""
        if isinstance(e, ast.Name) and e.id not in env:
            b = self.prog.lookup(e.id, e)
            if b[0] == "value":
                return b[2]
        return e

    def block(self, stmts, env):
        for s in stmts:
            if isinstance(s, ast.Expr) and isinstance(s.value, ast.Constant):
                continue
            if isinstance(s, ast.Assign) and len(s.targets) == 1 and isinstance(s.targets[0], ast.Name):
                try:
                    env[s.targets[0].id] = self.ev(s.value, env)
                except _Unknown as u:
                    if s.targets[0].id == self.tracked:
                        raise
                    env[s.targets[0].id] = Unk(u.why)  # e.g. an offset computed from positions: only a later use of it matters
            elif isinstance(s, ast.AugAssign) and isinstance(s.op, (ast.Add, ast.Sub)):
                delta = self.ev(s.value, env)
                if isinstance(s.target, ast.Name):
                    cur = self.ev(ast.copy_location(ast.Name(id=s.target.id, ctx=ast.Load()), s.target), env)
                    env[s.target.id] = self._add(cur, delta, isinstance(s.op, ast.Sub), s)
                elif isinstance(s.target, ast.Subscript) and isinstance(s.target.value, ast.Name) and isinstance(env.get(s.target.value.id), dict):
                    k = self._plain(self.ev(s.target.slice, env), s)
                    d_ = env[s.target.value.id]
                    if k not in d_:
                        raise _Exc("KeyError", s)
                    d_[k] = self._add(d_[k], delta, isinstance(s.op, ast.Sub), s)
                else:
                    raise _Unknown("augmented assignment %s" % src(s, 40), s)
            elif isinstance(s, ast.Assign) and len(s.targets) == 1 and isinstance(s.targets[0], ast.Subscript) and isinstance(s.targets[0].value, ast.Name) \
                    and isinstance(env.get(s.targets[0].value.id), dict):
                env[s.targets[0].value.id][self._plain(self.ev(s.targets[0].slice, env), s)] = self.ev(s.value, env)
            elif isinstance(s, ast.For) and self._string_iter(s, env) is not None:
                # a scan over the characters of a text: followed character by character (bounded)
                seq, with_index = self._string_iter(s, env)
                if len(seq) > 400:
                    raise _Unknown("a text of %d characters" % len(seq), s)
                broke = False
                for i_, ch_ in enumerate(seq):
                    if with_index:
                        env[s.target.elts[0].id], env[s.target.elts[1].id] = i_, ch_
                    else:
                        env[s.target.id] = ch_
                    try:
                        self.block(s.body, env)
                    except _Continue:
                        continue
                    except _Break:
                        broke = True
                        break
                if not broke:
                    self.block(s.orelse, env)
            elif isinstance(s, ast.While):
                # an index-driven scan: followed while the condition is decided (bounded like the character loop)
                broke, turns = False, 0
                while self.truth(self.ev(s.test, env), s.test):
                    turns += 1
                    if turns > 400:
                        raise _Unknown("a loop of more than 400 turns", s)
                    try:
                        self.block(s.body, env)
                    except _Continue:
                        continue
                    except _Break:
                        broke = True
                        break
                if not broke:
                    self.block(s.orelse, env)
            elif isinstance(s, ast.If):
                self.block(s.body if self.truth(self.ev(s.test, env), s.test) else s.orelse, env)
            elif isinstance(s, ast.With) and len(s.items) == 1 and isinstance(s.items[0].context_expr, ast.Call) \
                    and self.prog.ext_name(s.items[0].context_expr.func, s) == "contextlib.suppress":
                try:
                    self.block(s.body, env)
                except _Exc as x:
                    if not any(self._catches(a, x.name) for a in s.items[0].context_expr.args):
                        raise
            elif isinstance(s, ast.Try) and not s.finalbody:
                try:
                    self.block(s.body, env)
                except _Exc as x:
                    for h in s.handlers:
                        if self._catches(h.type, x.name):
                            self.handling.append(x)
                            try:
                                self.block(h.body, env)
                            finally:
                                self.handling.pop()
                            break
                    else:
                        raise
                else:
                    self.block(s.orelse, env)
            elif isinstance(s, ast.Return):
                raise _Return(None if s.value is None else self.ev(s.value, env))
            elif isinstance(s, (ast.Pass, ast.Import, ast.ImportFrom)):
                continue
            elif isinstance(s, ast.Continue):
                raise _Continue()
            elif isinstance(s, ast.Break):
                raise _Break()
            elif isinstance(s, ast.For) and isinstance(self._literal_seq(s.iter, env), (ast.Tuple, ast.List)) and isinstance(s.target, (ast.Name, ast.Tuple)):
                # a loop over a literal sequence (candidate converters tried in order) is unrolled
                broke = False
                for item in self._literal_seq(s.iter, env).elts:
                    if isinstance(s.target, ast.Name):
                        env[s.target.id] = self.ev(item, env)
                    elif isinstance(item, (ast.Tuple, ast.List)) and len(item.elts) == len(s.target.elts) and all(isinstance(t, ast.Name) for t in s.target.elts):
                        for t, x in zip(s.target.elts, item.elts):
                            env[t.id] = self.ev(x, env) if not isinstance(x, ast.Lambda) else x
                    else:
                        raise _Unknown("loop target %s" % src(s.target, 30), s)
                    try:
                        self.block(s.body, env)
                    except _Continue:
                        continue
                    except _Break:
                        broke = True
                        break
                if not broke:
                    self.block(s.orelse, env)
            elif isinstance(s, ast.Raise) and s.exc is None and self.handling:
                raise self.handling[-1]
            elif isinstance(s, ast.Raise) and s.exc is not None:
                nm = s.exc.func if isinstance(s.exc, ast.Call) else s.exc
                raise _Exc(getattr(nm, "id", getattr(nm, "attr", "Exception")), s)
            else:
                raise _Unknown("statement %s" % src(s, 40), s)


PROG = [None]


def _find_ladder(fi):
    """(variable, statements): the top-level statements of fi, from the first conditional that converts the variable returned as the
    default (int / float / literal_eval / a helper applied to it) up to the statement before the function's first return"""
    rets = [r for r in fi.node.body if isinstance(r, (ast.Return, ast.If)) for x in ast.walk(r) if isinstance(x, ast.Return) and isinstance(x.value, ast.Tuple) and len(x.value.elts) == 2]
    var = None
    for r in ast.walk(fi.node):
        if isinstance(r, ast.Return) and isinstance(r.value, ast.Tuple) and len(r.value.elts) == 2 and isinstance(r.value.elts[1], ast.Name):
            var = r.value.elts[1].id
    if var is None:
        return None, [], []
    body = fi.node.body
    start = None
    for i, s in enumerate(body):
        if isinstance(s, (ast.If, ast.Try, ast.With)) and any(
                isinstance(c, ast.Call) and any(isinstance(a, ast.Name) and a.id == var for a in c.args) and isinstance(c.func, (ast.Name, ast.Attribute, ast.Subscript))
                and (getattr(c.func, "id", None) in ("int", "float", "complex") or getattr(c.func, "attr", None) == "literal_eval" or getattr(c.func, "id", None) == "literal_eval"
                     or isinstance(c.func, ast.Subscript))
                for c in ast.walk(s)) and any(isinstance(t, ast.Name) and t.id == var and isinstance(t.ctx, ast.Store) for t in ast.walk(s)):
            start = i
            break
    if start is None:
        # the ladder was extracted: `var = helper(var, ...)` with a package helper that converts
        def converts(fn):
            return any(isinstance(c, ast.Call) and (getattr(c.func, "id", None) in ("int", "float", "complex", "literal_eval") or getattr(c.func, "attr", None) == "literal_eval")
                       for f in PROG[0].reachable([fn]) for c in ast.walk(f.node))
        for i, s in enumerate(body):
            if isinstance(s, ast.Assign) and len(s.targets) == 1 and isinstance(s.targets[0], ast.Name) and s.targets[0].id == var and isinstance(s.value, ast.Call) \
                    and any(isinstance(a, ast.Name) and a.id == var for a in s.value.args) and isinstance(s.value.func, (ast.Name, ast.Attribute)):
                tg = [t for t in PROG[0].resolve_expr_fn(s.value.func, s.value) if isinstance(t, FunctionInfo)]
                if len(tg) == 1 and converts(tg[0]):
                    return var, [s], _pre(body, i, var)
        return var, [], []
    end = start + 1
    while end < len(body) and not any(isinstance(x, ast.Return) for x in ast.walk(body[end])) and var in names_in(body[end]) \
            and any(isinstance(t, ast.Name) and t.id == var and isinstance(t.ctx, ast.Store) for t in ast.walk(body[end])):
        end += 1
    return var, body[start:end], _pre(body, start, var)


def _pre(body, start, var):
    """the straight-line statements in front of the ladder that still shape the text (strip decoration, cut a trailing bracket,
    unquote): back to the loop that scanned the value"""
    i = start
    while i > 0 and not isinstance(body[i - 1], (ast.For, ast.While, ast.FunctionDef, ast.Return)) and not any(isinstance(x, ast.Return) for x in ast.walk(body[i - 1])):
        i -= 1
    pre = body[i:start]
    # only from the first statement that rewrites the variable
    for k, st in enumerate(pre):
        if any(isinstance(t, ast.Name) and t.id == var and isinstance(t.ctx, ast.Store) for t in ast.walk(st)):
            return pre[k:]
    return []


def rule_type_ladder(prog, rep, tier, anchor="defaults_utils.extract_default", typ_param="typ"):
    """TYPE-LADDER: every class of default text comes out of the conversion ladder with its own Python type, and no exception
    escapes it."""
    fi = prog.fn(anchor)
    PROG[0] = prog
    var, stmts, pre = _find_ladder(fi)
    if not stmts:
        raise AnalysisError("TYPE-LADDER: the conversion ladder (a conditional that applies int / float / literal_eval to the extracted default) was not found in %s" % anchor)
    folder = Folder(prog)
    typs = [None]
    if typ_param in fi.params():
        typs += ["int", "float", "bool", "str"]
    resolved = 0
    for typ in typs:
        for cls, (text, want) in CLASSES.items():
            if typ is not None and cls not in FITS[typ]:
                continue  # a declared type that does not fit the text: whatever happens is not this rule's business
            if typ is None and want is None:
                continue
            if cls == "empty":
                continue  # the reader never extracts an empty text; the class exists for the writer-side rules
            inst = "%s text %r%s" % (cls, text, "" if typ is None else " declared %s" % typ)
            raw = "```%s```" % text if cls == "code" else text  # as the scan hands it over: an expression still wears its ticks

            def fresh(rep_):
                env_ = {var: Text(cls, rep_)}
                if typ_param in fi.params():
                    env_[typ_param] = typ
                lad_ = Ladder(prog, folder)
                lad_.tracked = var
                return env_, lad_
            env, lad = fresh(raw)
            try:
                try:
                    lad.block(pre, env)
                    if not isinstance(env.get(var), Text):
                        raise _Unknown("the text is no text any more in front of the ladder")
                except (_Unknown, _Exc):
                    env, lad = fresh(text)  # what stands in front of the ladder is not followed: start at the ladder, with the bare text
                lad.block(stmts, env)
                v = env.get(var)
                got = "str" if isinstance(v, (Text, str)) else v.typ if isinstance(v, Val) else "NoneType" if v is None else type(v).__name__
                expect = want if (typ is None or cls in TEXT_STAYS) else typ
                resolved += 1
                if got == expect:
                    rep.holds("TYPE-LADDER", inst, loc(prog, stmts[0]), "comes out as %s" % got)
                else:
                    rep.violation(Finding(
                        "TYPE-LADDER", anchor, "%s:%s->%s" % ("untyped" if typ is None else "typed-%s" % typ, cls, got),
                        "a default written as %s (%s%s) comes out of the conversion ladder as %s, not %s: the value changes its Python type on the way through prose"
                        % (text, _CLS_WORDS[cls], "" if typ is None else ", declared type %s" % typ, got, expect), loc(prog, stmts[0])))
            except _Exc as x:
                resolved += 1
                rep.violation(Finding(
                    "TYPE-LADDER", anchor, "%s:%s->%s" % ("untyped" if typ is None else "typed-%s" % typ, cls, x.name),
                    "a default written as %s (%s%s) makes %s raise %s, which nothing catches: the whole docstring fails to parse"
                    % (text, _CLS_WORDS[cls], "" if typ is None else ", declared type %s" % typ, src(x.at, 40), x.name), loc(prog, x.at)))
            except _Return:
                rep.ob("TYPE-LADDER", inst, "unresolved", loc(prog, stmts[0]), "the ladder returns from the function")
            except _Unknown as u:
                rep.ob("TYPE-LADDER", inst, "unresolved", loc(prog, u.at or stmts[0]), "not interpreted: %s" % u.why)
    if resolved < 8:
        raise AnalysisError("TYPE-LADDER: only %d (class, declared type) pairs could be followed through the ladder of %s" % (resolved, anchor))


_CLS_WORDS = {"fexpp": "a float as Python writes large ones", "qnum": "a quoted string that looks like a number", "qbool": "a quoted string that looks like a boolean",
              "empty": "the empty string", "uint": "an unsigned integer", "sint": "a signed integer", "ffrac": "a float", "fwhole": "a whole-valued float", "fexp": "a float in exponent notation",
              "boolw": "a boolean", "nonew": "None", "bare": "an unquoted string", "quoted": "a quoted string", "code": "an expression, written back-tick quoted"}


def rule_quote_types(prog, rep, tier, anchor="pure_utils.quote"):
    """QUOTE-TYPES (C02, C06, C08): the quoting helper is applied to IR defaults whenever the declared type mentions `str`
    (`Union[int, str]`, `Optional[str]`), so it meets every kind of default value the domain has.  Its dispatch on the value's
    type is run abstractly for a str (unquoted, quoted, empty), an int, a float, a bool and None: no exception may escape, and a
    str must come back as a str."""
    fi = prog.fn(anchor)
    pn = fi.params()
    a = fi.node.args
    defaults = dict(zip(pn[len(pn) - len(a.defaults):], a.defaults))
    folder = Folder(prog)
    inputs = [("an unquoted str", Text("bare")), ("a quoted str", Text("quoted")), ("the empty str", Text("empty")), ("an int", Val("int", "uint")), ("a float", Val("float", "ffrac")),
              ("a bool", Val("bool", "boolw")), ("None", None)]
    resolved = 0
    for words, v in inputs:
        env = {pn[0]: v}
        for q, d in defaults.items():
            if isinstance(d, ast.Constant):
                env[q] = d.value
        lad = Ladder(prog, folder)
        inst = "%s(%s)" % (anchor, words)
        try:
            try:
                lad.block(fi.node.body, env)
                out = None
            except _Return as r:
                out = r.value
            resolved += 1
            rep.holds("QUOTE-TYPES", inst, loc(prog, fi.node), "returns %s" % ("a str" if isinstance(out, (Text, str)) or (isinstance(out, Val) and out.typ == "str") else repr(out)))
        except _Exc as x:
            resolved += 1
            rep.violation(Finding(
                "QUOTE-TYPES", anchor, "raises:%s:%s" % (v.typ if isinstance(v, Val) else "str" if isinstance(v, Text) else "None", x.name),
                "%s applied to %s raises %s at `%s`: the helper is called on every default whose declared type mentions str (`Union[int, str] = 3`), so emitting such a "
                "parameter as a class or a docstring fails" % (anchor, words, x.name, src(x.at, 40)), loc(prog, x.at)))
        except _Unknown as u:
            rep.ob("QUOTE-TYPES", inst, "unresolved", loc(prog, u.at or fi.node), "not interpreted: %s" % u.why)
    if resolved < 4:
        raise AnalysisError("QUOTE-TYPES: only %d kinds of argument could be followed through %s" % (resolved, anchor))


def rule_quote_pair(prog, rep, tier, writer="defaults_utils.set_default_doc", quoter="pure_utils.quote", unquoter="pure_utils.unquote", node_builder=None):
    """QUOTE-PAIR (C01, C03, C06, C08): what the writer does to a string default when it quotes it, the reader's `unquote` undoes,
    and `unquote` leaves alone what is not a quoted pair.  Run on representatives of the kinds of string a default can be
    (a word, text with an inner double quote, with an apostrophe, with inner blanks, padded with blanks, a lone blank, a line
    break, digits):  unquote(W(s)) == s for every way W the package quotes a default (the quoting helper, and the expression the
    default sentence is filled with);  W(W(s)) == W(s);  unquote(s) == s when s is not a quoted pair."""
    from sa.rules.hole import _announcement_holes, _name_alternatives, _passes_quoting
    from sa.rules.table import _announce_reader
    folder = Folder(prog)
    qf, uf = prog.fn(quoter), prog.fn(unquoter)

    def run_fn(fi, value):
        lad = Ladder(prog, folder)
        pn = fi.params()
        a = fi.node.args
        env = {pn[0]: value}
        for q, d in dict(zip(pn[len(pn) - len(a.defaults):], a.defaults)).items():
            if isinstance(d, ast.Constant):
                env[q] = d.value
        try:
            lad.block(fi.node.body, env)
            return None
        except _Return as r:
            return r.value

    def run_expr(expr, fn, value):
        lad = Ladder(prog, folder)
        env = {}
        for n in ast.walk(expr):
            if isinstance(n, ast.Subscript) and isinstance(n.value, ast.Name) and isinstance(n.slice, ast.Constant) and n.slice.value == "default":
                env[n.value.id] = {"default": value, "typ": "str", "doc": Text("bare")}
            elif isinstance(n, ast.Name) and n.id in fn.params() and n.id not in env:
                env[n.id] = value
        return lad.ev(expr, env)

    writers = [("%s" % quoter, lambda v: run_fn(qf, v), qf.node)]
    R, casefold, _ = _announce_reader(prog, folder)
    norm = (lambda s_: s_.casefold()) if casefold else (lambda s_: s_)
    for fi in prog.region(prog.fn(writer)):
        for c, hit, hole in _announcement_holes(fi, R, norm):
            exprs = _name_alternatives(fi, hole.id, c) if isinstance(hole, ast.Name) else [hole]
            for alt in [a for e_ in (exprs or [hole]) for a in _passes_quoting(prog, e_)]:
                writers.append(("the value written behind %r in %s (%s)" % (hit.strip(), prog.owner_name(fi), src(alt, 40)), (lambda v, alt=alt, fi=fi: run_expr(alt, fi, v)), alt))
    strings = ["mnist", 'say "hi"', "it's", "a b", " padded ", "5"]
    plain = strings + [" ", "\n", ""]
    resolved = 0

    def text_of(v):
        return v.rep if isinstance(v, Text) else v if isinstance(v, str) else None

    for wname, w, wnode in writers:
        for s_ in strings:
            inst = "unquote(W(%r)) with W = %s" % (s_, wname)
            try:
                q1 = w(Text.of(s_))
                t1 = text_of(q1)
                if t1 is None:
                    raise _Unknown("W gives %r" % (q1,))
                back = text_of(run_fn(uf, Text.of(t1)))
                twice = text_of(w(Text.of(t1)))
                resolved += 1
                if back != s_:
                    rep.violation(Finding(
                        "QUOTE-PAIR", prog.owner_name(enclosing_fn_of(prog, wnode)) if enclosing_fn_of(prog, wnode) else wname, "not-inverse:%s" % _kind_of(s_),
                        "%s writes the default %r as %r and %s reads that back as %r: the string changes on the way through its quotes (the writer escapes or alters something the "
                        "reader does not undo)" % (wname, s_, t1, unquoter, back), loc(prog, wnode)))
                elif twice is not None and twice != t1:
                    rep.violation(Finding(
                        "QUOTE-PAIR", prog.owner_name(enclosing_fn_of(prog, wnode)) if enclosing_fn_of(prog, wnode) else wname, "not-idempotent:%s" % _kind_of(s_),
                        "%s applied to its own result %r gives %r: every pass through the writer changes the text again" % (wname, t1, twice), loc(prog, wnode)))
                else:
                    rep.holds("QUOTE-PAIR", inst, loc(prog, wnode), "%r -> %r -> %r" % (s_, t1, back))
            except _Exc as x:
                resolved += 1
                rep.violation(Finding("QUOTE-PAIR", wname, "raises:%s:%s" % (_kind_of(s_), x.name), "%s raises %s for the string default %r at `%s`" % (wname, x.name, s_, src(x.at, 40)), loc(prog, x.at)))
            except (_Unknown, _Return) as u:
                rep.ob("QUOTE-PAIR", inst, "unresolved", loc(prog, wnode), "not interpreted: %s" % getattr(u, "why", "return"))
    for s_ in plain:
        inst = "%s(%r) leaves a text that is not a quoted pair alone" % (unquoter, s_)
        try:
            back = text_of(run_fn(uf, Text.of(s_)))
            resolved += 1
            if back != s_:
                rep.violation(Finding("QUOTE-PAIR", unquoter, "unquote-alters:%s" % _kind_of(s_),
                                      "%s(%r) gives %r although the text is not a quoted pair: a default such as sep=' ' or end='\\n' changes when it is read" % (unquoter, s_, back), loc(prog, uf.node)))
            else:
                rep.holds("QUOTE-PAIR", inst, loc(prog, uf.node), "")
        except _Exc as x:
            resolved += 1
            rep.violation(Finding("QUOTE-PAIR", unquoter, "raises:%s:%s" % (_kind_of(s_), x.name), "%s raises %s for %r at `%s`" % (unquoter, x.name, s_, src(x.at, 40)), loc(prog, x.at)))
        except _Unknown as u:
            rep.ob("QUOTE-PAIR", inst, "unresolved", loc(prog, uf.node), "not interpreted: %s" % u.why)
    # (node-builder clause) the class emitter hands `quote(default)` to the function that builds the Constant node, and relies on it to take
    # exactly the one layer of quotes back off that `quote` put on: a default that itself begins or ends with a quotation mark (`15"`,
    # `say "hi"`) keeps its own.  Followed: the statements of the node builder in front of its `return`, on quote(s).
    try:
        sv = prog.fn(node_builder) if node_builder else None
    except AnalysisError:
        sv = None
    if sv is not None and sv.params():
        front = [st for st in sv.node.body if not isinstance(st, ast.Return) and not (isinstance(st, ast.Expr) and isinstance(st.value, ast.Constant))]
        edge = ['say "hi"', '15"', '"Bob" Smith', "mnist", "it's"]
        for s_ in edge if front else []:
            inst = "%s(quote(%r)) holds the string itself" % (node_builder, s_)
            try:
                q1 = text_of(run_fn(qf, Text.of(s_)))
                if q1 is None:
                    raise _Unknown("quote gives no text")
                lad = Ladder(prog, folder)
                pn = sv.params()
                env = {pn[0]: Text.of(q1)}
                a = sv.node.args
                for q, d in dict(zip(pn[len(pn) - len(a.defaults):], a.defaults)).items():
                    if isinstance(d, ast.Constant):
                        env[q] = d.value
                lad.block(front, env)
                back = text_of(env.get(pn[0]))
                resolved += 1
                if back != s_:
                    rep.violation(Finding(
                        "QUOTE-PAIR", node_builder, "node-builder-not-one-layer:%s" % ("own-quote-at-an-end" if back is not None and len(back) < len(s_) else "altered"),
                        "the class emitter writes the string default %r as %s(quote(..)) = %s(%r), which holds %r: the builder takes off more (or less) than the one layer of "
                        "quotes that quote() put on, so the emitted class holds another value than the IR" % (s_, node_builder, node_builder, q1, back), loc(prog, sv.node)))
                else:
                    rep.holds("QUOTE-PAIR", inst, loc(prog, sv.node), "%r -> %r -> %r" % (s_, q1, back))
            except _Exc as x:
                resolved += 1
                rep.violation(Finding("QUOTE-PAIR", node_builder, "raises:%s:%s" % (_kind_of(s_), x.name), "%s raises %s for the quoted default %r at `%s`" % (node_builder, x.name, s_, src(x.at, 40)), loc(prog, x.at)))
            except (_Unknown, _Return) as u:
                rep.ob("QUOTE-PAIR", inst, "unresolved", loc(prog, sv.node), "not interpreted: %s" % getattr(u, "why", "return"))
    if resolved < 10:
        raise AnalysisError("QUOTE-PAIR: only %d of the quote / unquote cases could be followed" % resolved)


def _kind_of(s_):
    return {"mnist": "word", 'say "hi"': "inner-double-quote", "it's": "apostrophe", "a b": "inner-blank", " padded ": "padded", "5": "digits", " ": "blank", "\n": "newline", "": "empty"}.get(s_, "text")


def enclosing_fn_of(prog, node):
    from sa.model import enclosing_fn
    return enclosing_fn(node)


# ---------------------------------------------------------------------------- SCAN-END
SCAN_SAMPLES = [
    # (what follows the announcement, the text the scan must hand to the ladder, kind)
    ("5. Tail.", "5", "number-then-prose"),
    ("3.14. Tail.", "3.14", "decimal-then-prose"),
    ("mnist", "mnist", "word-at-end"),
    ("mnist.", "mnist", "word-with-full-stop"),
    ('"model.h5"', '"model.h5"', "quoted-with-dot"),
    ('"a.b". More prose.', '"a.b"', "quoted-with-dot-then-prose"),
    ("'v1.2.3'. Tail", "'v1.2.3'", "single-quoted-with-dots"),
    # the other quotation mark is content: only the mark that opened the string closes it
    ('"O\'Reilly Media, Inc.". Tail.', '"O\'Reilly Media, Inc."', "apostrophe-inside-double-quotes"),
    ("'say \"a.b\" twice'. Tail.", "'say \"a.b\" twice'", "double-quotes-inside-single-quotes"),
    ("(1, 2). Tail.", "(1, 2)", "bracketed-then-prose"),
    ("[1.5, 2]. Tail.", "[1.5, 2]", "bracketed-decimal-then-prose"),
    ("(np.empty(0), np.empty(0))", "(np.empty(0), np.empty(0))", "nested-brackets-at-end"),
    ("```len(xs)```. Tail.", "len(xs)", "expression-then-prose"),
    ("```np.float32```. Tail.", "np.float32", "fenced-dotted-name-then-prose"),
    ("```(a or b).shape```", "(a or b).shape", "fenced-attribute-after-bracket"),
    (("Number of units (defaults to ", "5)."), "5", "announcement-inside-parentheses"),
]


def rule_scan_end(prog, rep, tier, anchor="defaults_utils.extract_default"):
    """SCAN-END (C17, C01, C08): where the announced value stops.  The reader scans the text behind the announcement character by
    character; the scan loop and the straight-line statements between it and the conversion ladder are followed on sample texts -
    a number, a decimal, a word, a quoted string with a full stop in it, bracketed values, an expression, each with and without
    prose behind it - and the text handed to the ladder must be the value, nothing less (cut at a dot inside quotes or a decimal)
    and nothing more (prose behind a bracketed value)."""
    fi = prog.fn(anchor)
    PROG[0] = prog
    var, stmts, pre = _find_ladder(fi)
    if not stmts:
        raise AnalysisError("SCAN-END: the conversion ladder was not found in %s" % anchor)
    body = fi.node.body
    loop_i = next((i for i, s_ in enumerate(body) if isinstance(s_, (ast.For, ast.While)) and any(
        isinstance(t, ast.Name) and t.id == var and isinstance(t.ctx, ast.Store) for t in ast.walk(s_))), None)
    if loop_i is None:
        # the scan was extracted: `var = helper(text)` or `idx = helper(text)`: start at the statement after the search
        loop_i = None
    # the search that finds the announcement: `<start>, <end>, <found> = location_within(line, ...)`
    search_i, names = None, None
    for i, s_ in enumerate(body):
        if isinstance(s_, ast.Assign) and isinstance(s_.targets[0], ast.Tuple) and len(s_.targets[0].elts) == 3 and all(isinstance(t, ast.Name) for t in s_.targets[0].elts) \
                and isinstance(s_.value, ast.Call):
            search_i, names = i, [t.id for t in s_.targets[0].elts]
    ladder_i = next(i for i, s_ in enumerate(body) if s_ is stmts[0])
    if search_i is None:
        raise AnalysisError("SCAN-END: the announcement search (three results unpacked from one call) was not found in %s" % anchor)
    # statements between the search and the ladder, without the early `return` for "no announcement"
    between = [s_ for s_ in body[search_i + 1:ladder_i] if not (isinstance(s_, ast.If) and any(isinstance(x, ast.Return) for x in ast.walk(s_)))]
    line_param = fi.params()[0]
    folder = Folder(prog)
    resolved = 0
    # the same quoted value behind the reader's other announcements: one that does not end in a blank (`Default: "a.b"`), one that ends
    # in a line break (the value on the next, indented line), and a doubled blank - the value then does not start the scanned text
    samples = list(SCAN_SAMPLES)
    try:
        from sa.rules.table import _announce_reader
        R = _announce_reader(prog, folder)[0]
    except AnalysisError:
        R = ()
    tight = next((r for r in R if r and not r[-1].isspace()), None)
    broken = next((r for r in R if r.endswith("\n")), None)
    spaced = next((r for r in R if r.endswith(" ")), None)
    if tight:
        samples.append((("the x. " + tight, ' "model.h5". More prose.', tight), '"model.h5"', "quoted-behind-blank"))
    if broken:
        samples.append((("the x, " + broken, '    "a.b"', broken), '"a.b"', "quoted-on-next-line"))
    if spaced:
        samples.append((("the x. " + spaced[0].upper() + spaced[1:], ' "a.b". Tail', spaced), '"a.b"', "quoted-behind-two-blanks"))
    for tail, want, kind in samples:
        head, announce = "the x. Defaults to ", "defaults to "
        if isinstance(tail, tuple) and len(tail) == 3:
            head, tail, announce = tail
        elif isinstance(tail, tuple):
            head, tail = tail
        env = {line_param: head + tail, names[0]: len(head) - len(announce), names[1]: len(head), names[2]: announce}
        lad = Ladder(prog, folder)
        lad.tracked = var
        inst = "scan of %r" % tail
        try:
            lad.block(between, env)
            got = env.get(var)
            got = got.rep if isinstance(got, Text) else got
            if not isinstance(got, str):
                raise _Unknown("the scanned value is %r" % (got,))
            resolved += 1
            if got == want:
                rep.holds("SCAN-END", inst, loc(prog, body[search_i + 1]), "hands %r to the ladder" % got)
            else:
                how = "cut-short" if want.startswith(got) else "runs-on" if got.startswith(want) else "altered"
                rep.violation(Finding(
                    "SCAN-END", anchor, "scan:%s:%s" % (kind, how),
                    "behind the announcement stands %r; the scan hands %r to the conversion ladder instead of %r: %s" % (
                        tail, got, want, {"cut-short": "the value is cut short (something inside it ended the scan)",
                                          "runs-on": "what follows the value is taken for part of it (the scan does not stop at the full stop behind it)",
                                          "altered": "the text is changed on its way to the ladder (decoration that tells what kind of value it is - quotes, brackets - is "
                                                     "removed or something is added before the kind is decided)"}[how]), loc(prog, body[search_i + 1])))
        except _Exc as x:
            resolved += 1
            rep.violation(Finding("SCAN-END", anchor, "scan:%s:%s" % (kind, x.name), "scanning %r raises %s at `%s`" % (tail, x.name, src(x.at, 40)), loc(prog, x.at)))
        except (_Unknown, _Return) as u:
            rep.ob("SCAN-END", inst, "unresolved", loc(prog, getattr(u, "at", None) or body[search_i + 1]), "not interpreted: %s" % getattr(u, "why", "the scan returns"))
    if resolved < 6:
        raise AnalysisError("SCAN-END: only %d of %d sample texts could be followed through the scan of %s" % (resolved, len(samples), anchor))
