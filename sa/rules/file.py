"""
FILE family: who may write which file, in which order, under which guard (DESIGN.md section 3 "FILE").
"""
import ast

from sa.cfg import CFG, expr_guards, facts, path_facts
from sa.model import AnalysisError, Finding, FunctionInfo, dump, enclosing_fn, kwarg, loc, names_in, order_key, src

WRITE_EXT = {
    "os.remove", "os.unlink", "os.rename", "os.replace", "os.truncate", "os.rmdir", "os.removedirs",
    "shutil.rmtree", "shutil.move", "shutil.copy", "shutil.copyfile", "shutil.copy2", "os.ftruncate",
    "os.link", "os.symlink", "os.open", "os.mkdir", "os.makedirs", "os.chmod", "shutil.copymode", "shutil.copystat",
    "tempfile.mkstemp", "tempfile.NamedTemporaryFile", "tempfile.mkdtemp",
}
REPLACE_EXT = {"os.replace", "os.rename", "shutil.move"}


# ---------------------------------------------------------------------------- sink inventory
def open_mode(prog, call):
    """('read'|'write'|'append'|'var', mode_expr) for an `open(...)` call."""
    m = kwarg(call, "mode", 1)
    if m is None:
        return "read", None
    if isinstance(m, ast.Constant) and isinstance(m.value, str):
        v = m.value
        if "a" in v:
            return "append", m
        if any(c in v for c in "wx+"):
            return "write", m
        return "read", m
    return "var", m


def is_open(prog, call):
    """open(path, mode) / io.open(path, mode) / os.fdopen(fd, mode): a call that yields a file object"""
    return isinstance(call.func, (ast.Name, ast.Attribute)) and prog.ext_name(call.func, call) in ("builtins.open", "io.open", "os.fdopen")


def is_path_open(prog, call):
    """an open whose first argument is a path (not a descriptor)"""
    return isinstance(call.func, (ast.Name, ast.Attribute)) and prog.ext_name(call.func, call) in ("builtins.open", "io.open")


def sinks(prog):
    """All file-effect call sites: list of dict(fn, call, kind, path_expr)."""
    return prog.memo("file.sinks", lambda: _sinks(prog))


def _sinks(prog):
    out = []
    for m in prog.modules.values():
        for node in ast.walk(m.tree):
            if not isinstance(node, ast.Call):
                continue
            if is_open(prog, node):
                kind, _ = open_mode(prog, node)
                out.append({"fn": enclosing_fn(node), "call": node, "kind": "open-" + kind,
                            "path": node.args[0] if node.args else kwarg(node, "file")})
            else:
                en = prog.ext_name(node.func, node) if isinstance(node.func, (ast.Name, ast.Attribute)) else None
                if en in WRITE_EXT:
                    out.append({"fn": enclosing_fn(node), "call": node, "kind": en, "path": node.args[0] if node.args else None})
                elif isinstance(node.func, ast.Attribute) and node.func.attr in ("write_text", "write_bytes", "unlink", "touch"):
                    out.append({"fn": enclosing_fn(node), "call": node, "kind": "path." + node.func.attr, "path": node.func.value})
    return out


def write_sinks(prog):
    return [s for s in sinks(prog) if s["kind"] != "open-read"]


def sink_functions(prog):
    """FunctionInfo set that directly contain a write sink."""
    return {id(s["fn"]): s["fn"] for s in write_sinks(prog) if s["fn"] is not None}


def reaches_sink(prog):
    """ids of functions from which a write sink is reachable through the reference graph."""
    return prog.memo("file.reaches_sink", lambda: _reaches_sink(prog))


def _reaches_sink(prog):
    direct = sink_functions(prog)
    memo = {}

    def go(fi, stack):
        if id(fi) in memo:
            return memo[id(fi)]
        if id(fi) in direct:
            memo[id(fi)] = True
            return True
        if id(fi) in stack:
            return False
        stack = stack | {id(fi)}
        r = any(go(g, stack) for g in prog.references(fi))
        memo[id(fi)] = r
        return r

    return {id(f) for f in prog.all_functions() if go(f, frozenset())}


def rule_file0(prog, rep, tier, workers=("conformance.ground_truth", "sync_properties.sync_properties", "gen.gen")):
    """FILE-0 sink inventory + vacuity: every worker reaches >= 1 write sink; emit.file is a sink."""
    ss = sinks(prog)
    for s in ss:
        rep.ob("FILE-0", "%s in %s: %s" % (s["kind"], s["fn"].qualname if s["fn"] else "<module>", src(s["call"], 80)),
               "holds", loc(prog, s["call"]), "inventoried")
    rs = reaches_sink(prog)
    for w in workers:
        fi = prog.fn(w)
        if id(fi) not in rs:
            raise AnalysisError("FILE-0: worker %s reaches no write sink: the sink list is stale" % w)
    if not any(id(f_) in sink_functions(prog) for f_ in prog.region(prog.fn("emit.file"))):
        raise AnalysisError("FILE-0: neither emit.file nor a helper of it contains a write sink")
    # callers of emit.file with their modes
    ef = prog.fn("emit.file")
    for caller, call in prog.callers_of(ef):
        m = kwarg(call, "mode", 2)
        rep.ob("FILE-0", "emit.file caller %s mode=%s" % (caller.qualname if caller else "<module>", src(m) if m is not None else "<default>"),
               "holds", loc(prog, call), "inventoried")


# ---------------------------------------------------------------------------- derived names
def derived(fn_node, seeds):
    """Names of fn_node data-derived from `seeds` by assignments / with-as / for targets (flow-insensitive)."""
    d = set(seeds)
    changed = True
    while changed:
        changed = False
        for n in ast.walk(fn_node):
            tgt, val = None, None
            if isinstance(n, ast.Assign):
                tgt, val = n.targets, n.value
            elif isinstance(n, ast.AnnAssign) and n.value is not None:
                tgt, val = [n.target], n.value
            elif isinstance(n, ast.AugAssign):
                tgt, val = [n.target], n.value
            elif isinstance(n, ast.withitem) and n.optional_vars is not None:
                tgt, val = [n.optional_vars], n.context_expr
            elif isinstance(n, (ast.For, ast.comprehension)):
                tgt, val = [n.target], n.iter
            elif isinstance(n, ast.NamedExpr):
                tgt, val = [n.target], n.value
            if tgt is None:
                continue
            if names_in(val) & d:
                for t in tgt:
                    for nm in names_in(t):
                        if nm not in d:
                            d.add(nm)
                            changed = True
    return d


def call_arg_map(call, callee):
    """param name -> argument expr for a call to a repository function (positional + keywords; no * / **)."""
    a = callee.node.args
    names = [x.arg for x in a.posonlyargs + a.args]
    if callee.cls is not None and names and names[0] in ("self", "cls"):
        names = names[1:]
    out = {}
    for i, arg in enumerate(call.args):
        if isinstance(arg, ast.Starred):
            break
        if i < len(names):
            out[names[i]] = arg
    for k in call.keywords:
        if k.arg:
            out[k.arg] = k.value
    return out


# ---------------------------------------------------------------------------- FILE-1 taint (C14)
def rule_file1_input(prog, rep, tier, entry="sync_properties.sync_properties", source_param="input_filename"):
    """FILE-1: the input filename never reaches the path argument of a write sink."""
    start = prog.fn(entry)
    if source_param not in start.params():
        raise AnalysisError("FILE-1: %s has no parameter %s" % (entry, source_param))
    seen = set()
    n_sites = [0]

    def go(fi, tainted_params, chain):
        key = (id(fi), tuple(sorted(tainted_params)))
        if key in seen or len(chain) > 8:
            return
        seen.add(key)
        t = derived(fi.node, tainted_params)

        def hot(e):
            """names of e that carry the input filename *here*: a name re-bound by an enclosing `with .. as name` holds what that
            item opened (two handles in a row are both called `f`; the second is not the first)"""
            out = set()
            for nm in names_in(e) & t:
                p_, decided = getattr(e, "_parent", None), None
                while p_ is not None and p_ is not fi.node:
                    if isinstance(p_, (ast.With, ast.AsyncWith)):
                        for it in p_.items:
                            if it.optional_vars is not None and nm in names_in(it.optional_vars):
                                decided = bool(names_in(it.context_expr) & (t - {nm}))
                        if decided is not None:
                            break
                    p_ = getattr(p_, "_parent", None)
                if decided is None or decided:
                    out.add(nm)
            return out
        for node in ast.walk(fi.node):
            if not isinstance(node, ast.Call):
                continue
            if is_open(prog, node):
                kind, _ = open_mode(prog, node)
                p = node.args[0] if node.args else kwarg(node, "file")
                n_sites[0] += 1
                if kind != "read" and p is not None and hot(p):
                    rep.violation(Finding(
                        "FILE-1", fi.qualname, "input-path-to-write-open",
                        "a value derived from %s.%s reaches the path of a write-capable open(): %s (call chain: %s)"
                        % (entry, source_param, src(node), " -> ".join(chain + [fi.qualname])),
                        loc(prog, node)))
                else:
                    rep.holds("FILE-1", "open[%s] in %s path=%s" % (kind, fi.qualname, src(p) if p is not None else "?"),
                              loc(prog, node), "path not derived from %s or mode is read-only" % source_param)
                continue
            en = prog.ext_name(node.func, node) if isinstance(node.func, (ast.Name, ast.Attribute)) else None
            if en in WRITE_EXT:
                n_sites[0] += 1
                if any(hot(a) for a in node.args):
                    rep.violation(Finding("FILE-1", fi.qualname, "input-path-to-" + en,
                                          "a value derived from %s reaches %s: %s" % (source_param, en, src(node)), loc(prog, node)))
                continue
            for tgt in prog.resolve_expr_fn(node.func, node):
                if isinstance(tgt, FunctionInfo):
                    amap = call_arg_map(node, tgt)
                    tp = {p for p, a in amap.items() if hot(a)}
                    if tp:
                        go(tgt, tp, chain + [fi.qualname])

    go(start, {source_param}, [])
    if n_sites[0] == 0:
        raise AnalysisError("FILE-1: no file access reachable from %s with %s" % (entry, source_param))


# ---------------------------------------------------------------------------- FILE-1 truth guard (C10)
def _cmp_guard_ok(test, pol, truth_names, file_names):
    """Is (test evaluates to pol) a fact 'this file is not the truth file'?"""
    for atom, p in facts(test, pol):
        if isinstance(atom, ast.Compare) and len(atom.ops) == 1:
            l, r = atom.left, atom.comparators[0]
            sides = [names_in(l), names_in(r)]
            mentions = (sides[0] & truth_names and sides[1] & file_names) or (sides[1] & truth_names and sides[0] & file_names)
            if not mentions:
                continue
            op = atom.ops[0]
            if (isinstance(op, (ast.Eq, ast.Is)) and p is False) or (isinstance(op, (ast.NotEq, ast.IsNot)) and p is True):
                return True
            if isinstance(op, ast.In) and p is False or isinstance(op, ast.NotIn) and p is True:
                return True
        elif isinstance(atom, ast.Call) and isinstance(atom.func, (ast.Attribute, ast.Name)):
            nm = atom.func.attr if isinstance(atom.func, ast.Attribute) else atom.func.id
            if nm == "samefile" and p is False and len(atom.args) == 2:
                a, b = names_in(atom.args[0]), names_in(atom.args[1])
                if (a & truth_names and b & file_names) or (b & truth_names and a & file_names):
                    return True
    return False


def _iterable_guards(fn_node, call, truth_names):
    """If `call` sits in `lambda x: ...` applied by map(...) over an iterable / in a for-loop over an iterable,
    return [(test, True, file_names)] for filter/comprehension conditions on that iterable, following one local name."""
    out = []
    p = getattr(call, "_parent", None)
    lam = None
    while p is not None and p is not fn_node:
        if isinstance(p, ast.Lambda):
            lam = p
            break
        p = getattr(p, "_parent", None)
    iters = []
    if lam is not None:
        mp = getattr(lam, "_parent", None)
        if isinstance(mp, ast.Call) and mp.args and mp.args[0] is lam and len(mp.args) >= 2:
            iters.append((mp.args[1], {a.arg for a in lam.args.args}))
    q = getattr(call, "_parent", None)
    while q is not None and q is not fn_node:
        if isinstance(q, ast.For):
            iters.append((q.iter, names_in(q.target)))
        q = getattr(q, "_parent", None)

    def conds(it, depth=0):
        if isinstance(it, ast.Call) and isinstance(it.func, ast.Name) and it.func.id == "filter" and len(it.args) == 2:
            f = it.args[0]
            if isinstance(f, ast.Lambda):
                out.append((f.body, True, {a.arg for a in f.args.args}))
            conds(it.args[1], depth)
        elif isinstance(it, (ast.ListComp, ast.GeneratorExp, ast.SetComp)):
            for g in it.generators:
                for c in g.ifs:
                    out.append((c, True, names_in(g.target)))
        elif isinstance(it, ast.Call) and isinstance(it.func, ast.Name) and it.func.id in ("list", "tuple", "sorted", "iter") and it.args:
            conds(it.args[0], depth)
        elif isinstance(it, ast.Name) and depth < 2:
            defs = [n for n in ast.walk(fn_node) if isinstance(n, ast.Assign) and any(isinstance(t, ast.Name) and t.id == it.id for t in n.targets)]
            defs = [d for d in defs if order_key(d) < order_key(call)]
            # the latest definition that is sure to have run: a (re)definition under a condition the call site is not
            # under may have been skipped, so its filter proves nothing - look at what it refined instead
            call_guards = {id(t) for t, _ in expr_guards(call, stop=fn_node)}
            for d in sorted(defs, key=lambda d: order_key(d), reverse=True):
                own = [t for t, _ in expr_guards(d, stop=fn_node) if id(t) not in call_guards]
                if own:
                    continue
                conds(d.value, depth + 1)
                break

    for it, _names in iters:
        conds(it)
    return out


def rule_file1_truth(prog, rep, tier, entry="conformance.ground_truth", truth_param="truth_file"):
    """FILE-1 (truth): every call from the sync worker that can reach a write sink with a target filename is
    guarded by a comparison between that filename and the truth file (here or in the callee)."""
    start = prog.fn(entry)
    if truth_param not in start.params():
        raise AnalysisError("FILE-1: %s has no parameter %s" % (entry, truth_param))
    rs = reaches_sink(prog)
    examined = [0]

    def path_arg(call, tgt):
        if tgt is None:
            return call.args[0] if call.args else None
        amap = call_arg_map(call, tgt)
        for nm in ("filename", "file", "path", "output_filename"):
            if nm in amap:
                return amap[nm]
        return None

    def unguarded(fi, truth_params, depth):
        """list of (call, why) for sink-reaching calls in fi that are not truth-guarded."""
        bad = []
        truth_names = derived(fi.node, truth_params)
        for node in ast.walk(fi.node):
            if not isinstance(node, ast.Call):
                continue
            tgt = None
            if is_open(prog, node):
                if open_mode(prog, node)[0] == "read":
                    continue
            else:
                tl = [t for t in prog.resolve_expr_fn(node.func, node) if isinstance(t, FunctionInfo) and id(t) in rs]
                if not tl:
                    en = prog.ext_name(node.func, node) if isinstance(node.func, (ast.Name, ast.Attribute)) else None
                    if en not in WRITE_EXT:
                        continue
                else:
                    tgt = tl[0]
            if tgt is not None and tgt.qualname.startswith(("emit.",)) and tgt.qualname != "emit.file":
                continue
            pa = path_arg(node, tgt)
            if pa is None:
                continue
            examined[0] += 1
            fnames = names_in(pa)
            file_names = derived(fi.node, fnames) | fnames
            gs = [(t, p, file_names) for t, p in expr_guards(node, stop=fi.node)]
            gs += [(t, p, file_names | extra) for t, p, extra in _iterable_guards(fi.node, node, truth_names)]
            if any(_cmp_guard_ok(t, p, truth_names, fn_) for t, p, fn_ in gs):
                rep.holds("FILE-1", "truth-guard %s -> %s" % (fi.qualname, tgt.qualname if tgt else "open"), loc(prog, node),
                          "guarded by a comparison of the target filename with the truth file")
                continue
            if tgt is not None and depth < 3:
                amap = call_arg_map(node, tgt)
                tp = {p for p, a in amap.items() if names_in(a) & truth_names}
                if tgt.parent_fn is fi:
                    tp |= truth_names  # a closure reads the truth file's name from the enclosing scope
                if tp:
                    inner = unguarded(tgt, tp, depth + 1)
                    if not inner:
                        rep.holds("FILE-1", "truth-guard inside %s" % tgt.qualname, loc(prog, node), "callee compares with the truth file before every write")
                        continue
            bad.append(node)
        return bad

    for node in unguarded(start, {truth_param}, 0):
        tl = [t for t in prog.resolve_expr_fn(node.func, node) if isinstance(t, FunctionInfo)]
        rep.violation(Finding(
            "FILE-1", entry, "unguarded-write:%s" % (tl[0].qualname if tl else src(node.func)),
            "the call %s can rewrite any target file, the truth file included: no enclosing condition (if / conditional "
            "expression / filter / comprehension condition / early continue) compares the filename with %s"
            % (src(node, 90), truth_param), loc(prog, node)))
    if examined[0] == 0:
        raise AnalysisError("FILE-1: no sink-reaching call found in %s" % entry)


def _resolve_locals(e, path, upto=None):
    """replace a local Name by the (non-constant) value last assigned to it on the path (before index `upto`)"""
    if not isinstance(e, ast.Name):
        return e
    val = None
    for i, (node, _) in enumerate(path):
        if upto is not None and i >= upto:
            break
        st = node.stmt
        if isinstance(st, ast.Assign) and any(isinstance(t, ast.Name) and t.id == e.id for t in st.targets):
            val = st.value
    return val if val is not None else e


def _path_facts_resolved(path):
    out = []
    for i, (node, label) in enumerate(path):
        if label is not None and label[0] not in ("iter", "except"):
            for a, p in facts(label[0], label[1]):
                out.append((_resolve_locals(a, path, i + 1), p))
    return out


# ---------------------------------------------------------------------------- FILE-2 flag <=> write
def _contains_sink_call(prog, stmt, rs, header_only=True):
    """Does the statement (its own expressions, not nested blocks) contain a call reaching a write sink?"""
    nodes = []
    if isinstance(stmt, (ast.If, ast.While)):
        nodes = [stmt.test]
    elif isinstance(stmt, (ast.For,)):
        nodes = [stmt.iter]
    elif isinstance(stmt, (ast.With,)):
        nodes = [i.context_expr for i in stmt.items]
    elif isinstance(stmt, ast.Try):
        nodes = []
    else:
        nodes = [stmt]
    for root in nodes:
        for n in ast.walk(root):
            if isinstance(n, ast.Call):
                if is_open(prog, n) and open_mode(prog, n)[0] != "read":
                    return n
                for t in prog.resolve_expr_fn(n.func, n):
                    if isinstance(t, FunctionInfo) and id(t) in rs and t.qualname == "emit.file":
                        return n
    return None


def rule_file2(prog, rep, tier, anchor="conformance._conform_filename"):
    """FILE-2: on every path of _conform_filename the returned changed-flag is true iff a write lies on the path."""
    fi = prog.inl(prog.fn_role(anchor, "conform_file") if anchor == "conformance._conform_filename" else prog.fn(anchor))
    rs = reaches_sink(prog)
    cfg = CFG(fi.node)
    paths = [p for p in cfg.paths() if p[-1][0].kind == "RETURN"]
    if not paths:
        raise AnalysisError("FILE-2: %s has no returning path" % anchor)
    n_ret = 0
    for path in paths:
        ret = None
        for node, _ in path:
            if node.kind == "return":
                ret = node.stmt
        if ret is None or not isinstance(ret.value, ast.Tuple) or len(ret.value.elts) != 2:
            # fall-through / differently shaped return: cannot pair -> report
            rep.violation(Finding("FILE-2", anchor, "return-shape", "a path returns something other than (filename, flag)",
                                  loc(prog, ret) if ret is not None else anchor))
            continue
        n_ret += 1
        flag = ret.value.elts[1]
        writes = [(_contains_sink_call(prog, node.stmt, rs), i) for i, (node, _) in enumerate(path) if node.stmt is not None]
        writes = [(w, i) for w, i in writes if w is not None]
        W = bool(writes)
        flag_expr = flag
        hops = 0
        while isinstance(flag_expr, ast.Name) and hops < 5:
            # last assignment to the name on the path (copies of copies are followed)
            hops += 1
            nxt = None
            for node, _ in path:
                s = node.stmt
                if isinstance(s, ast.Assign) and any(isinstance(t, ast.Name) and t.id == flag_expr.id for t in s.targets):
                    nxt = s.value
            if nxt is None or nxt is flag_expr:
                break
            flag_expr = nxt
        desc = "path[%s] -> return %s" % (
            ",".join("%s%s" % ("" if l[1] else "!", src(l[0], 40)) for n, l in path if l is not None and l[0] not in ("iter", "except")),
            src(flag_expr, 40))
        where = loc(prog, ret)
        if isinstance(flag_expr, ast.Constant) and isinstance(flag_expr.value, bool):
            if flag_expr.value != W:
                rep.violation(Finding(
                    "FILE-2", anchor, "flag-%s-%s" % (flag_expr.value, "write" if W else "nowrite"),
                    "a path returns changed=%s but %s file write lies on it: %s" % (flag_expr.value, "a" if W else "no", desc), where))
            else:
                rep.holds("FILE-2", desc, where, "constant flag %s, write on path: %s" % (flag_expr.value, W))
            continue
        # expression flag: must be tied to a branch on a structurally equal test
        fd = dump(flag_expr)
        pol = None
        for a, p in _path_facts_resolved(path):
            if dump(a) == fd:
                pol = p
        if pol is None:
            if W:
                rep.violation(Finding("FILE-2", anchor, "flag-expr-untied",
                                      "a path writes the file but returns the flag %s, which no branch on the path tests: %s"
                                      % (src(flag_expr), desc), where))
            else:
                rep.violation(Finding("FILE-2", anchor, "flag-expr-untied-nowrite",
                                      "a path writes nothing but returns %s, which may be true: %s" % (src(flag_expr), desc), where))
        elif pol != W:
            rep.violation(Finding("FILE-2", anchor, "flag-expr-%s-%s" % (pol, "write" if W else "nowrite"),
                                  "on a path where %s is %s the file is %swritten: %s" % (src(flag_expr), pol, "" if W else "not ", desc), where))
        else:
            rep.holds("FILE-2", desc, where, "flag expression is the branch condition of the write")
    # truthfulness of the printed word
    for node in ast.walk(fi.node):
        if isinstance(node, ast.IfExp) and isinstance(node.body, ast.Constant) and isinstance(node.orelse, ast.Constant) \
                and {node.body.value, node.orelse.value} == {"modified", "unchanged"}:
            flags = set()
            for s in ast.walk(fi.node):
                if isinstance(s, ast.Assign) and any(isinstance(t, ast.Name) for t in s.targets) and not isinstance(s.value, ast.Constant):
                    if any(isinstance(r, ast.Return) and isinstance(r.value, ast.Tuple) and len(r.value.elts) == 2 and isinstance(r.value.elts[1], ast.Name)
                           and r.value.elts[1].id in [t.id for t in s.targets if isinstance(t, ast.Name)] for r in ast.walk(fi.node)):
                        v = s.value
                        for _ in range(4):
                            if not isinstance(v, ast.Name):
                                break
                            ds = [s2.value for s2 in ast.walk(fi.node) if isinstance(s2, ast.Assign) and any(isinstance(x, ast.Name) and x.id == v.id for x in s2.targets)
                                  and not isinstance(s2.value, ast.Constant)]
                            if len(ds) != 1:
                                break
                            v = ds[0]
                        flags.add(dump(v))
            t = node.test
            pos = node.body.value == "modified"
            if isinstance(t, ast.UnaryOp) and isinstance(t.op, ast.Not):
                t, pos = t.operand, not pos
            if isinstance(t, ast.Name):
                defs = [s2.value for s2 in ast.walk(fi.node) if isinstance(s2, ast.Assign) and any(isinstance(x, ast.Name) and x.id == t.id for x in s2.targets) and not isinstance(s2.value, ast.Constant)]
                if len(defs) == 1:
                    t = defs[0]
            if flags and (dump(t) not in flags or not pos):
                rep.violation(Finding("FILE-2", anchor, "printed-word", "the printed modified/unchanged word is not decided by the returned flag expression", loc(prog, node)))
            else:
                rep.holds("FILE-2", "printed word decided by %s" % src(t), loc(prog, node), "same expression as the returned flag")
    if n_ret < 3:
        raise AnalysisError("FILE-2: only %d returning paths with a (filename, flag) pair in %s" % (n_ret, anchor))


def rule_file2b(prog, rep, tier, anchor="conformance._conform_filename"):
    """FILE-2b: rewriting an existing file is control-dependent on an AST inequality test."""
    fi = prog.inl(prog.fn_role(anchor, "conform_file"))
    rs = reaches_sink(prog)
    n = 0
    for node in ast.walk(fi.node):
        if not isinstance(node, ast.Call):
            continue
        tl = [t for t in prog.resolve_expr_fn(node.func, node) if isinstance(t, FunctionInfo) and t.qualname == "emit.file"]
        if not tl:
            continue
        m = kwarg(node, "mode", 2)
        if not (isinstance(m, ast.Constant) and isinstance(m.value, str) and "w" in m.value):
            continue
        gs = expr_guards(node, stop=fi.node)
        fs = [f for t, p in gs for f in facts(t, p)]
        # create branch: file did not exist
        if any(isinstance(a, ast.Call) and prog.ext_name(a.func, a) in ("os.path.isfile", "os.path.exists") and p is False for a, p in fs):
            rep.holds("FILE-2b", "create branch (file absent)", loc(prog, node), "not a rewrite")
            continue
        n += 1
        ok = False
        for a, p in fs:
            if isinstance(a, ast.Call):
                nm = a.func.id if isinstance(a.func, ast.Name) else getattr(a.func, "attr", "")
                if nm in ("cmp_ast", "compare_ast", "ast_equal") and p is False and len(a.args) >= 2 and dump(a.args[0]) != dump(a.args[1]):
                    ok = True
            elif isinstance(a, ast.Compare) and len(a.ops) == 1 and isinstance(a.left, ast.Call) and isinstance(a.comparators[0], ast.Call):
                l, r = a.left, a.comparators[0]
                same_fn = dump(l.func) == dump(r.func) and (l.func.id if isinstance(l.func, ast.Name) else getattr(l.func, "attr", "")) in ("dump", "to_code", "unparse", "_to_code")
                differ = (isinstance(a.ops[0], ast.NotEq) and p) or (isinstance(a.ops[0], ast.Eq) and not p)
                if same_fn and differ and l.args and r.args and dump(l.args[0]) != dump(r.args[0]):
                    ok = True
        if ok:
            rep.holds("FILE-2b", "rewrite guarded by AST inequality", loc(prog, node), "guard found among %d enclosing conditions" % len(gs))
            # ZIP-EQ: when the comparison is a repository function, an element-wise comparison of two sequences must also
            # compare their lengths (zip / map over two iterables stops at the shorter one)
            for a, p in fs:
                if isinstance(a, ast.Call):
                    for t in prog.resolve_expr_fn(a.func, a):
                        if isinstance(t, FunctionInfo):
                            for f_ in prog.region(t):
                                for c in ast.walk(f_.node):
                                    pairwise = (isinstance(c, ast.Call) and isinstance(c.func, ast.Name) and c.func.id == "map" and len(c.args) == 3) or \
                                               (isinstance(c, ast.Call) and isinstance(c.func, ast.Name) and c.func.id == "zip" and len(c.args) == 2)
                                    if not pairwise:
                                        continue
                                    seqs = [dump(x) for x in c.args[-2:]]
                                    has_len = any(isinstance(k, ast.Compare) and isinstance(k.left, ast.Call) and getattr(k.left.func, "id", "") == "len"
                                                  and isinstance(k.comparators[0], ast.Call) and getattr(k.comparators[0].func, "id", "") == "len" for k in ast.walk(f_.node))
                                    if has_len:
                                        rep.holds("FILE-2b", "%s compares sequence lengths before pairing elements" % f_.qualname, loc(prog, c), "")
                                    else:
                                        rep.violation(Finding("FILE-2b", f_.qualname, "zip-truncation:%s" % src(c, 50),
                                                              "the equality function used to decide whether a target needs rewriting pairs two sequences with %s and never compares "
                                                              "their lengths: a stale definition that is a proper prefix of the truth compares equal and is left stale" % src(c, 50), loc(prog, c)))
        else:
            rep.violation(Finding("FILE-2b", anchor, "rewrite-unguarded",
                                  "the in-place rewrite %s is not control-dependent on an inequality test between the found node and its "
                                  "replacement: a second run rewrites/reports although nothing differs" % src(node, 80), loc(prog, node)))
    # the modes the worker hands to emit.file: create/rewrite truncates ("w"), append appends ("a"); an update mode ("r+",
    # "w+", "a+") rewrites from the start without truncating, or reads through the write handle
    for node in ast.walk(fi.node):
        if isinstance(node, ast.Call) and any(isinstance(t, FunctionInfo) and t.qualname == "emit.file" for t in prog.resolve_expr_fn(node.func, node)):
            m = kwarg(node, "mode", 2)
            if isinstance(m, ast.Constant) and isinstance(m.value, str) and ("r" in m.value or "+" in m.value):
                n += 1
                rep.violation(Finding("FILE-2b", anchor, "update-mode:%s" % m.value,
                                      "%s writes the re-emitted module with mode %r: the file is overwritten from the start without being truncated, so when the new text is "
                                      "shorter the tail of the old text stays behind" % (src(node, 60), m.value), loc(prog, node)))
    if n == 0:
        raise AnalysisError("FILE-2b: no in-place rewrite (emit.file mode 'w') found in %s" % anchor)


# ---------------------------------------------------------------------------- FILE-3 / FILE-4 / FILE-5 on sink functions
def _with_opens(prog, fi):
    for node in ast.walk(fi.node):
        if isinstance(node, ast.With):
            for it in node.items:
                if isinstance(it.context_expr, ast.Call) and is_open(prog, it.context_expr):
                    yield node, it


SAME_PATH_FUNCS = {"os.path.realpath", "os.path.abspath", "os.path.expanduser", "os.path.normpath", "os.fspath", "builtins.str", "os.path.expandvars",
                   "os.fsdecode", "os.path.normcase"}


def same_path_aliases(prog, fn_node, seeds):
    """names that denote the same file as one of `seeds`: copies and realpath/abspath/expanduser/fspath/str wrappers
    (a directory/basename split or a join yields a different path and is not an alias)"""
    al = set(seeds)

    def is_alias_expr(e):
        if isinstance(e, ast.Name):
            return e.id in al
        if isinstance(e, ast.Call) and isinstance(e.func, (ast.Name, ast.Attribute)) and prog.ext_name(e.func, e) in SAME_PATH_FUNCS and e.args:
            return is_alias_expr(e.args[0])
        return False
    changed = True
    while changed:
        changed = False
        for st in ast.walk(fn_node):
            if isinstance(st, ast.Assign) and len(st.targets) == 1 and isinstance(st.targets[0], ast.Name) and st.targets[0].id not in al and is_alias_expr(st.value):
                al.add(st.targets[0].id)
                changed = True
    return al, is_alias_expr


def only_non_regular(prog, node, fn_node, is_alias_expr):
    """is `node` reached only when the target path is known not to be a regular file (os.path.isfile(<alias>) false)?"""
    fs = [f for t, pol in expr_guards(node, stop=fn_node) for f in facts(t, pol)]
    return any(isinstance(a, ast.Call) and isinstance(a.func, (ast.Name, ast.Attribute)) and prog.ext_name(a.func, a) == "os.path.isfile"
               and a.args and is_alias_expr(a.args[0]) and pol is False for a, pol in fs)


def atomic_replaces(prog, fn_node, is_alias_expr):
    """calls that move a finished file onto the target path: os.replace/os.rename/shutil.move(tmp, <target alias>),
    os.link(tmp, <target alias>) - directly or in a helper that is handed the alias"""
    out = []
    for c in ast.walk(fn_node):
        if isinstance(c, ast.Call) and isinstance(c.func, (ast.Name, ast.Attribute)):
            en = prog.ext_name(c.func, c)
            if en in REPLACE_EXT | {"os.link"} and len(c.args) >= 2 and is_alias_expr(c.args[1]) and not is_alias_expr(c.args[0]):
                out.append(c)
    return out


def rule_file3(prog, rep, tier, armed=("emit.file",), informational=("gen.gen",)):
    """FILE-3: the text is fully rendered before the file is opened for writing."""
    n = 0
    for q in armed + informational:
        fi = prog.inl(prog.fn(q))
        params = [p_ for p_ in fi.params() if "file" in p_ or "path" in p_] or fi.params()[1:2]
        aliases, is_alias_expr = same_path_aliases(prog, fi.node, params)
        atomic = atomic_replaces(prog, fi.node, is_alias_expr)
        for w, it in _with_opens(prog, fi):
            kind, _ = open_mode(prog, it.context_expr)
            if kind == "read":
                continue
            n += 1
            opened = it.context_expr.args[0] if it.context_expr.args else None
            if atomic and only_non_regular(prog, w, fi.node, is_alias_expr):
                rep.holds("FILE-3", "%s: direct open only of a path that is not a regular file" % q, loc(prog, w), "a device / FIFO has no content to lose")
                continue
            if atomic and not (is_path_open(prog, it.context_expr) and is_alias_expr(opened)):
                rep.holds("FILE-3", "%s: the file written is a temporary one, moved onto the target afterwards (%s)" % (q, src(atomic[0], 50)), loc(prog, w),
                          "an error while it is open leaves the target untouched")
                continue
            fvar = it.optional_vars.id if isinstance(it.optional_vars, ast.Name) else None
            bad = []
            for s in w.body:
                ok = (isinstance(s, ast.Expr) and isinstance(s.value, ast.Call) and isinstance(s.value.func, ast.Attribute)
                      and isinstance(s.value.func.value, ast.Name) and s.value.func.value.id == fvar and s.value.func.attr == "write"
                      and len(s.value.args) == 1 and _is_plain_concatenation(s.value.args[0]))
                if ok:
                    for nm in names_in(s.value.args[0]):
                        # every assignment to nm precedes the with statement
                        for a in ast.walk(fi.node):
                            if isinstance(a, ast.Name) and a.id == nm and isinstance(a.ctx, ast.Store) and order_key(a) >= order_key(w):
                                ok = False
                if not ok:
                    bad.append(s)
            if bad and q in armed:
                rep.violation(Finding("FILE-3", q, "work-inside-open",
                                      "a conversion/formatting step runs after the file was opened for writing (%s): an error there leaves the "
                                      "file truncated" % src(bad[0], 80), loc(prog, bad[0])))
            elif bad:
                rep.note("FILE-3", "%s renders inside `with open(...)`: %s (informational: the path cannot pre-exist on the CLI path)"
                         % (q, src(bad[0], 80)), loc(prog, bad[0]))
                rep.ob("FILE-3", "%s: render inside open" % q, "accepted", loc(prog, bad[0]),
                       "output file cannot pre-exist on the CLI path (FILE-6 guard) and no raising input is known")
            else:
                rep.holds("FILE-3", "%s: with open(...) body only writes a pre-rendered value" % q, loc(prog, w), "")
    # FILE-3b: the rendering / formatting steps are what parses the text before it is written: an exception raised there
    # must abort the write - a handler that swallows it (body of pass / continue only) lets an unparseable module through
    for q in armed:
        fi = prog.inl(prog.fn(q))
        for tr in ast.walk(fi.node):
            if not isinstance(tr, ast.Try):
                continue
            renders = [c for b in tr.body for c in ast.walk(b) if isinstance(c, ast.Call) and isinstance(c.func, (ast.Name, ast.Attribute))
                       and ((prog.ext_name(c.func, c) or "").startswith("black.") or any(isinstance(t, FunctionInfo) and t.qualname in ("source_transformer.to_code",) for t in prog.resolve_expr_fn(c.func, c)))]
            if not renders:
                continue
            for h in tr.handlers:
                if all(isinstance(s_, (ast.Pass, ast.Continue)) or (isinstance(s_, ast.Expr) and isinstance(s_.value, ast.Constant)) for s_ in h.body):
                    n += 1
                    rep.violation(Finding("FILE-3", q, "render-error-swallowed:%s" % (src(h.type, 30) if h.type is not None else "bare"),
                                          "an error raised by %s is caught and ignored (except %s: pass): the formatter is the step that parses the rendered text, so an "
                                          "unparseable module is now written and the run reports success" % (src(renders[0].func, 30), src(h.type, 30) if h.type is not None else ""),
                                          loc(prog, h)))
    if n == 0:
        raise AnalysisError("FILE-3: no write-capable `with open` found in %s" % (armed + informational,))


def rule_file4(prog, rep, tier, anchors=("emit.file",)):
    """FILE-4: a file that may already exist is replaced atomically (temp file + os.replace), never opened directly:
    every write-mode open of the caller's path (or of an alias of it) is a violation unless the path is known not to be a
    regular file there (devices / FIFOs have no content to protect), and some call moves a finished file onto the path."""
    for q in anchors:
        fi = prog.inl(prog.fn(q))
        params = [p_ for p_ in fi.params() if "file" in p_ or "path" in p_] or fi.params()[1:2]
        aliases, is_alias_expr = same_path_aliases(prog, fi.node, params)
        atomic = atomic_replaces(prog, fi.node, is_alias_expr)
        found = False
        for node in ast.walk(fi.node):
            if isinstance(node, ast.Call) and is_open(prog, node) and open_mode(prog, node)[0] != "read":
                found = True
                p = node.args[0] if node.args else kwarg(node, "file")
                direct = is_path_open(prog, node) and p is not None and is_alias_expr(p)
                if direct:
                    # accepted: the branch is taken only when the path is not a regular file
                    fs = [f for t, pol in expr_guards(node, stop=fi.node) for f in facts(t, pol)]
                    not_regular = any(isinstance(a, ast.Call) and isinstance(a.func, (ast.Name, ast.Attribute)) and prog.ext_name(a.func, a) == "os.path.isfile"
                                      and a.args and is_alias_expr(a.args[0]) and pol is False for a, pol in fs)
                    if not_regular and atomic:
                        rep.holds("FILE-4", "%s opens %s directly only when it is not a regular file" % (q, src(p)), loc(prog, node), "nothing to protect in a device / FIFO")
                        continue
                    rep.violation(Finding(
                        "FILE-4", q, "direct-open:%s" % (src(p) if p is not None else "?"),
                        "%s opens the caller's path directly with a truncating/appending mode (%s); an I/O error between open and the end "
                        "of write leaves a truncated or half-written file. Accepted idiom: write a temp file in the same directory, "
                        "then os.replace(tmp, path)." % (q, src(node)), loc(prog, node)))
                elif not atomic:
                    rep.violation(Finding(
                        "FILE-4", q, "no-replace:%s" % (src(p) if p is not None else "?"),
                        "%s writes %s but nothing moves the finished file onto the caller's path" % (q, src(p) if p is not None else "a file"), loc(prog, node)))
                else:
                    rep.holds("FILE-4", "%s writes a temporary file and moves it onto the target (%s)" % (q, src(atomic[0], 50)), loc(prog, node), "")
        if not found:
            if atomic:
                rep.holds("FILE-4", "%s replaces atomically" % q, loc(prog, atomic[0]), "")
            else:
                raise AnalysisError("FILE-4: no write in %s" % q)


def rule_file5(prog, rep, tier, anchor="emit.file"):
    """FILE-5: data appended to an existing file starts on a new line (depends on the existing tail or begins with '\\n')."""
    fi0 = prog.fn(anchor)
    fi = prog.inl(fi0)
    # which callers append?
    modes = []
    for caller, call in prog.callers_of(fi0):
        m = kwarg(call, "mode", 2)
        modes.append((caller, call, m))
    default_mode = None
    a = fi.node.args
    names = [x.arg for x in a.args]
    if "mode" in names:
        i = names.index("mode") - (len(names) - len(a.defaults))
        if i >= 0:
            default_mode = a.defaults[i]
    appenders = [(c, call) for c, call, m in modes
                 if (m is None and isinstance(default_mode, ast.Constant) and "a" in str(default_mode.value))
                 or (isinstance(m, ast.Constant) and isinstance(m.value, str) and "a" in m.value) or (m is not None and not isinstance(m, ast.Constant))]
    if not appenders:
        rep.holds("FILE-5", "no caller of %s appends" % anchor, "", "nothing to check")
        return
    # find the write(s) and the written variable
    ok_all = True
    n = 0
    params5 = [p_ for p_ in fi.params() if "file" in p_ or "path" in p_] or fi.params()[1:2]
    _, is_alias5 = same_path_aliases(prog, fi.node, params5)
    # data read back from the target itself (the rewrite-append idiom: new content = old content + text)
    old_content = set()
    for w0, it0 in _with_opens(prog, fi):
        c0 = it0.context_expr
        if open_mode(prog, c0)[0] == "read" and is_path_open(prog, c0) and c0.args and is_alias5(c0.args[0]) and isinstance(it0.optional_vars, ast.Name):
            old_content |= derived(w0, {it0.optional_vars.id}) - {it0.optional_vars.id}
    old_content = derived(fi.node, old_content) if old_content else set()
    for w, it in _with_opens(prog, fi):
        kind, mexpr = open_mode(prog, it.context_expr)
        all_written = [s.value.args[0] for s in ast.walk(w) if isinstance(s, ast.Expr) and isinstance(s.value, ast.Call)
                       and isinstance(s.value.func, ast.Attribute) and s.value.func.attr == "write" and s.value.args]
        rewrite_append = kind == "write" and any(isinstance(x, ast.Name) and x.id in old_content for x in all_written)
        if kind == "read" or (kind == "write" and not rewrite_append):
            continue
        if only_non_regular(prog, w, fi.node, is_alias5):
            continue  # a device / FIFO has no existing last line to be glued to
        n += 1
        fvar = it.optional_vars.id if isinstance(it.optional_vars, ast.Name) else None
        written = [x for x in all_written if not (rewrite_append and isinstance(x, ast.Name) and x.id in old_content)]
        good = False
        for wx in written:
            if _starts_with_newline(wx):
                good = True
            if isinstance(wx, ast.Name):
                # a (re)definition of the written name that prefixes a newline, guarded by a test that depends on data read from the same path
                for s in ast.walk(fi.node):
                    if isinstance(s, ast.Assign) and any(isinstance(t, ast.Name) and t.id == wx.id for t in s.targets) and order_key(s) < order_key(w):
                        if _starts_with_newline(s.value) and wx.id in names_in(s.value):
                            gs = expr_guards(s, stop=fi.node)
                            gnames = set()
                            for t, p in gs:
                                gnames |= names_in(t)
                            read_names = _names_read_from_path(prog, fi, it.context_expr) | old_content
                            unconditional = not gs
                            if unconditional or (gnames & read_names) or any(_guard_reads_path(prog, t, it.context_expr) for t, p in gs):
                                good = True
        if not good:
            # the separator is chosen by an expression: some alternative begins with a newline, and which alternative is written
            # depends on what the same path holds (data read from it, or a helper that reads it)
            read_names = _names_read_from_path(prog, fi, it.context_expr) | old_content
            for wx in written:
                for kind_, gs in _prefix_alternatives(prog, fi, wx, w):
                    if kind_ != "nl":
                        continue
                    gnames = set()
                    for t, p in gs:
                        gnames |= names_in(t)
                    if not gs or (gnames & read_names) or any(_guard_reads_path(prog, t, it.context_expr) for t, p in gs):
                        good = True
        late = None
        if good:
            # FILE-5b: the prefix must be applied to the final text: no later re-assignment of the written name (e.g. a
            # formatter that strips leading blank lines) between the prefixing assignment and the write
            for wx in written:
                if isinstance(wx, ast.Name):
                    assigns = sorted((s2 for s2 in ast.walk(fi.node) if isinstance(s2, ast.Assign) and any(isinstance(t, ast.Name) and t.id == wx.id for t in s2.targets) and order_key(s2) < order_key(w)),
                                     key=lambda s2: order_key(s2))
                    pref = [s2 for s2 in assigns if _starts_with_newline(s2.value) and wx.id in names_in(s2.value)]
                    if pref:
                        after = [s2 for s2 in assigns if order_key(s2) > order_key(pref[-1]) and not (_starts_with_newline(s2.value) and wx.id in names_in(s2.value))]
                        if after:
                            late = after[0]
        if good and late is not None:
            ok_all = False
            rep.violation(Finding("FILE-5", anchor, "prefix-before-transform",
                                  "the separating newline is prefixed before the text is transformed again (%s): a formatter that drops leading blank lines removes it and the "
                                  "appended definition is glued to the last line" % src(late, 70), loc(prog, late)))
        elif good:
            rep.holds("FILE-5", "%s: appended text is separated from the existing last line" % anchor, loc(prog, w),
                      "the written value is prefixed with a newline under a test on the existing content (or unconditionally), after every other transformation")
        else:
            ok_all = False
            rep.violation(Finding(
                "FILE-5", anchor, "append-verbatim",
                "%s can be opened in append mode (callers: %s) and writes its text verbatim: appended to a file whose last line has no "
                "newline the definition is glued to it and the file no longer parses"
                % (anchor, ", ".join(sorted({c.qualname for c, _ in appenders if c}))), loc(prog, w)))
    # FILE-5c: what is already in the file cannot be read through the handle that appends: a stream opened with "a" / "a+"
    # is positioned at the end, so read() returns "" unless seek(0) came first - the newline test would never fire
    for w, it in _with_opens(prog, fi):
        kind, mexpr = open_mode(prog, it.context_expr)
        mode_text = mexpr.value if isinstance(mexpr, ast.Constant) and isinstance(mexpr.value, str) else None
        may_append = kind == "append" or (kind == "var" and any(isinstance(x, ast.Constant) and isinstance(x.value, str) and x.value.startswith("a")
                                                               for x in ast.walk(mexpr))) or (kind == "var" and mode_text is None)
        hv = it.optional_vars.id if isinstance(it.optional_vars, ast.Name) else None
        if not may_append or hv is None:
            continue
        reads = [c for c in ast.walk(w) if isinstance(c, ast.Call) and isinstance(c.func, ast.Attribute) and c.func.attr in ("read", "readline", "readlines")
                 and isinstance(c.func.value, ast.Name) and c.func.value.id == hv]
        for r in reads:
            seeks = [c for c in ast.walk(w) if isinstance(c, ast.Call) and isinstance(c.func, ast.Attribute) and c.func.attr == "seek" and isinstance(c.func.value, ast.Name)
                     and c.func.value.id == hv and order_key(c) < order_key(r)]
            n += 1
            if seeks:
                rep.holds("FILE-5", "%s: %s after seek" % (anchor, src(r, 30)), loc(prog, r), "")
            else:
                ok_all = False
                rep.violation(Finding("FILE-5", anchor, "read-through-append-handle",
                                      "%s reads the existing content through a handle that may be opened for appending (%s): such a stream starts at the end of the file, the "
                                      "read returns nothing, and the test that decides whether a separating newline is needed never fires"
                                      % (src(r, 30), src(it.context_expr, 50)), loc(prog, r)))
    if n == 0:
        raise AnalysisError("FILE-5: %s has append callers but no append-capable open was found" % anchor)


def _guard_reads_path(prog, test, open_call):
    """the test calls a repository function with the same path expression, and that function reads its parameter's file"""
    p = open_call.args[0] if open_call.args else None
    if p is None:
        return False
    for c in ast.walk(test):
        if isinstance(c, ast.Call) and any(dump(a) == dump(p) for a in c.args):
            for t in prog.resolve_expr_fn(c.func, c):
                if isinstance(t, FunctionInfo):
                    idx = next(i for i, a in enumerate(c.args) if dump(a) == dump(p))
                    pn = t.params()[idx] if idx < len(t.params()) else None
                    for f in prog.region(t):
                        for oc in ast.walk(f.node):
                            if isinstance(oc, ast.Call) and is_open(prog, oc) and open_mode(prog, oc)[0] == "read" and oc.args and isinstance(oc.args[0], ast.Name) and oc.args[0].id == pn:
                                return True
    return False


def _is_plain_concatenation(e):
    """a name, a constant, or strings put end to end (`a + b`, f"{a}{b}"): nothing that renders or formats, nothing that can fail on a str"""
    if isinstance(e, (ast.Name, ast.Constant)):
        return True
    if isinstance(e, ast.BinOp) and isinstance(e.op, ast.Add):
        return _is_plain_concatenation(e.left) and _is_plain_concatenation(e.right)
    if isinstance(e, ast.JoinedStr):
        return all(isinstance(v, ast.Constant) or (isinstance(v, ast.FormattedValue) and isinstance(v.value, ast.Name) and v.format_spec is None and v.conversion == -1)
                   for v in e.values)
    return False


def _prefix_alternatives(prog, fi, e, before, seen=()):
    """How the written text may begin: list of (kind, guards), kind in 'nl' (a newline), 'empty' (nothing), 'other';
    guards = the (test, polarity) pairs under which that alternative is the one written.  Follows `a + b` (an empty
    first operand defers to the second), conditional expressions and the definitions of local names that precede `before`."""
    if isinstance(e, ast.Constant) and isinstance(e.value, str):
        return [("nl" if e.value.startswith("\n") else "empty" if e.value == "" else "other", [])]
    if isinstance(e, ast.BinOp) and isinstance(e.op, ast.Add):
        out = []
        for k, g in _prefix_alternatives(prog, fi, e.left, before, seen):
            if k == "empty":
                out += [(k2, g + g2) for k2, g2 in _prefix_alternatives(prog, fi, e.right, before, seen)]
            else:
                out.append((k, g))
        return out
    if isinstance(e, ast.IfExp):
        return [(k, [(e.test, True)] + g) for k, g in _prefix_alternatives(prog, fi, e.body, before, seen)] + \
               [(k, [(e.test, False)] + g) for k, g in _prefix_alternatives(prog, fi, e.orelse, before, seen)]
    if isinstance(e, ast.Name) and e.id not in seen:
        out = []
        for s in ast.walk(fi.node):
            if isinstance(s, ast.Assign) and any(isinstance(t, ast.Name) and t.id == e.id for t in s.targets) and order_key(s) < order_key(before) \
                    and e.id not in names_in(s.value):
                out += [(k, list(expr_guards(s, stop=fi.node)) + g) for k, g in _prefix_alternatives(prog, fi, s.value, before, seen + (e.id,))]
        return out or [("other", [])]
    if _starts_with_newline(e):
        return [("nl", [])]
    return [("other", [])]


def _starts_with_newline(e):
    if isinstance(e, ast.Constant) and isinstance(e.value, str):
        return e.value.startswith("\n")
    if isinstance(e, ast.BinOp) and isinstance(e.op, ast.Add):
        return _starts_with_newline(e.left)
    if isinstance(e, ast.JoinedStr) and e.values:
        return _starts_with_newline(e.values[0])
    if isinstance(e, ast.Call) and isinstance(e.func, ast.Attribute) and e.func.attr == "format":
        return _starts_with_newline(e.func.value)
    if isinstance(e, ast.Call) and isinstance(e.func, ast.Attribute) and e.func.attr == "join" and e.args and isinstance(e.args[0], (ast.Tuple, ast.List)) and e.args[0].elts:
        return _starts_with_newline(e.args[0].elts[0])
    if isinstance(e, ast.IfExp):
        return False
    return False


def _names_read_from_path(prog, fi, open_call):
    """Local names holding data read from the same path expression as `open_call` (via a read-mode open)."""
    p = open_call.args[0] if open_call.args else None
    if p is None:
        return set()
    out = set()
    for w, it in _with_opens(prog, fi):
        c = it.context_expr
        if open_mode(prog, c)[0] == "read" and c.args and dump(c.args[0]) == dump(p) and isinstance(it.optional_vars, ast.Name):
            out |= derived(w, {it.optional_vars.id})
    return out


# ---------------------------------------------------------------------------- FILE-6 validations dominate the workers
def _is_parser_error(call):
    return isinstance(call.func, ast.Attribute) and call.func.attr in ("error", "exit") and isinstance(call.func.value, ast.Name) \
        and "parser" in call.func.value.id or (isinstance(call.func, ast.Attribute) and call.func.attr == "exit" and isinstance(call.func.value, ast.Name) and call.func.value.id == "sys")


def _isfile_fact(prog, atom):
    """(subject_names, attr_names) if atom is os.path.isfile/exists(X)"""
    if isinstance(atom, ast.Call) and isinstance(atom.func, (ast.Attribute, ast.Name)):
        en = prog.ext_name(atom.func, atom)
        if en in ("os.path.isfile", "os.path.exists") and atom.args:
            x = atom.args[0]
            attrs = {n.attr for n in ast.walk(x) if isinstance(n, ast.Attribute)} | {n.value for n in ast.walk(x) if isinstance(n, ast.Constant) and isinstance(n.value, str)}
            return names_in(x), attrs
    return None


def rule_file6(prog, rep, tier, anchor="__main__.main"):
    """FILE-6: every path of main() that reaches a worker call has passed that worker's validations, each with a
    no-return failing branch (ArgumentParser.error / raise)."""
    fi = prog.inl(prog.fn(anchor))
    cfg = CFG(fi.node, noreturn=_is_parser_error)
    workers = {"conformance.ground_truth": "sync", "sync_properties.sync_properties": "sync_properties", "gen.gen": "gen"}
    found = {}
    for node in ast.walk(fi.node):
        if isinstance(node, ast.Call):
            for t in prog.resolve_expr_fn(node.func, node):
                if isinstance(t, FunctionInfo) and t.qualname in workers:
                    found[t.qualname] = node
    for w in workers:
        if w not in found:
            raise AnalysisError("FILE-6: main() no longer calls %s" % w)

    def check(worker, name, pred):
        call = found[worker]
        st = call
        while not isinstance(st, ast.stmt):
            st = st._parent
        paths = cfg.paths_to(st)
        if not paths:
            raise AnalysisError("FILE-6: the call of %s is unreachable in the CFG of main" % worker)
        bad = 0
        for p in paths:
            fs = path_facts(p)
            # an IfExp around the call (return args if return_args else worker(...)) does not matter here
            if not any(pred(a, pol) for a, pol in fs):
                bad += 1
        inst = "%s: %s" % (workers[worker], name)
        if bad:
            rep.violation(Finding("FILE-6", anchor, "validation:%s:%s" % (workers[worker], name),
                                  "%d of %d paths of main() reach %s(...) without having established `%s` (the failing branch must not "
                                  "return: ArgumentParser.error / raise)" % (bad, len(paths), worker, name), loc(prog, call)))
        else:
            rep.holds("FILE-6", inst, loc(prog, call), "established on all %d paths reaching the call" % len(paths))

    def isfile_of(attr_or_name, want):
        def pred(a, pol):
            r = _isfile_fact(prog, a)
            return r is not None and pol is want and (attr_or_name in r[0] or attr_or_name in r[1])
        return pred

    def count_ge2(a, pol):
        if isinstance(a, ast.Compare) and len(a.ops) == 1 and isinstance(a.comparators[0], ast.Constant) and isinstance(a.comparators[0].value, int):
            op, v = a.ops[0], a.comparators[0].value
            if isinstance(op, ast.Lt) and v == 2 and pol is False:
                return True
            if isinstance(op, ast.LtE) and v == 1 and pol is False:
                return True
            if isinstance(op, ast.GtE) and v == 2 and pol is True:
                return True
            if isinstance(op, ast.Gt) and v == 1 and pol is True:
                return True
        return False

    check("conformance.ground_truth", "truth file is an existing file", isfile_of("truth_file", True))
    check("conformance.ground_truth", "at least two files given", count_ge2)
    check("sync_properties.sync_properties", "input file exists", isfile_of("input_filename", True))
    check("sync_properties.sync_properties", "output file exists", isfile_of("output_filename", True))
    check("gen.gen", "output file does not exist", isfile_of("output_filename", False))


# ---------------------------------------------------------------------------- FILE-7
def rule_file7(prog, rep, tier, worker="sync_properties.sync_properties", per_pair="sync_properties.sync_property"):
    """FILE-7: one write, after all pairs; an unresolved address raises before the write."""
    fi = prog.fn(worker)
    rs = reaches_sink(prog)
    sink_stmts = []
    for s in ast.walk(fi.node):
        if isinstance(s, ast.stmt) and not isinstance(s, (ast.FunctionDef, ast.If, ast.For, ast.While, ast.With, ast.Try)):
            c = _contains_sink_call(prog, s, rs)
            if c is not None:
                sink_stmts.append((s, c))
    for s in ast.walk(fi.node):
        if isinstance(s, (ast.With,)):
            for it in s.items:
                if isinstance(it.context_expr, ast.Call) and is_open(prog, it.context_expr) and open_mode(prog, it.context_expr)[0] != "read":
                    sink_stmts.append((s, it.context_expr))
    if not sink_stmts:
        raise AnalysisError("FILE-7: %s contains no write" % worker)
    loops = [s for s in fi.node.body if isinstance(s, (ast.For, ast.While))]
    pair_calls = [n for n in ast.walk(fi.node) if isinstance(n, ast.Call) and prog.is_fn(n.func, per_pair, n)]
    if not pair_calls:
        raise AnalysisError("FILE-7: %s no longer calls %s" % (worker, per_pair))
    for s, c in sink_stmts:
        top = s in fi.node.body
        after = all(s.lineno > getattr(l, "end_lineno", l.lineno) for l in loops) and all(s.lineno > pc.lineno for pc in pair_calls)
        last = top and all(isinstance(x, (ast.Return, ast.Pass)) for x in fi.node.body[fi.node.body.index(s) + 1:])
        if top and after and last:
            rep.holds("FILE-7", "single write after the pair loop: %s" % src(c, 60), loc(prog, c), "top-level, after every pair, last effect")
        else:
            rep.violation(Finding("FILE-7", worker, "write-not-after-all-pairs",
                                  "the write %s is %s: a failing pair can leave the output file partly updated"
                                  % (src(c, 60), "inside a loop/branch" if not top else "not after every sync_property call / not the last effect"), loc(prog, c)))
    if len(sink_stmts) > 1:
        rep.violation(Finding("FILE-7", worker, "multiple-writes", "%d write statements in %s" % (len(sink_stmts), worker), loc(prog, sink_stmts[1][1])))
    # raise-before-return in sync_property
    pf = prog.fn(per_pair)
    cfg = CFG(pf.node)
    visit_stmt = None
    for s in ast.walk(pf.node):
        if isinstance(s, ast.stmt) and not isinstance(s, (ast.If, ast.For, ast.While, ast.With, ast.Try, ast.FunctionDef)):
            for n in ast.walk(s):
                if isinstance(n, ast.Call) and isinstance(n.func, ast.Attribute) and n.func.attr == "visit":
                    visit_stmt = s
    if visit_stmt is None:
        raise AnalysisError("FILE-7: no transformer .visit(...) call in %s" % per_pair)
    bad = 0
    total = 0
    for p in cfg.paths():
        if p[-1][0].kind != "RETURN":
            continue
        idx = next((i for i, (n, l) in enumerate(p) if n.stmt is visit_stmt), None)
        if idx is None:
            continue
        total += 1
        fs = path_facts(p[idx:])
        ok = False
        for a, pol in fs:
            attrs = {n.attr for n in ast.walk(a) if isinstance(n, ast.Attribute)}
            if "replaced" in attrs:
                # `x.replaced` true, `x.replaced is True` true, `not x.replaced` false
                if isinstance(a, ast.Compare) and len(a.ops) == 1 and isinstance(a.comparators[0], ast.Constant):
                    v, op = a.comparators[0].value, a.ops[0]
                    truth = (pol if isinstance(op, (ast.Is, ast.Eq)) else not pol) if v is True else ((not pol) if isinstance(op, (ast.Is, ast.Eq)) else pol) if v is False else None
                    ok = ok or truth is True
                elif isinstance(a, ast.Attribute):
                    ok = ok or pol is True
        if not ok:
            bad += 1
    if total == 0:
        raise AnalysisError("FILE-7: no returning path through the visit call in %s" % per_pair)
    if bad:
        rep.violation(Finding("FILE-7", per_pair, "unresolved-address-not-raised",
                              "%d of %d returning paths after the transformer ran do not test `.replaced` with a raising failing branch: an address "
                              "that does not resolve is silently ignored" % (bad, total), loc(prog, visit_stmt)))
    else:
        rep.holds("FILE-7", "every returning path after .visit() asserts .replaced", loc(prog, visit_stmt), "%d paths" % total)


def rule_file2d(prog, rep, tier, anchor="conformance._conform_filename"):
    """FILE-2d: the existence test that decides between creating a target and editing it looks at the same canonical form
    of the path that is then written: `isfile(P)` guarding a write to `Q` needs the same os.path normalisations on P and Q
    (a `~` or symlinked spelling otherwise takes the create branch for a file that exists, and overwrites it)."""
    fi = prog.inl(prog.fn_role(anchor, "conform_file"))
    n = 0
    for node in ast.walk(fi.node):
        if not (isinstance(node, ast.Call) and any(isinstance(t, FunctionInfo) and t.qualname == "emit.file" for t in prog.resolve_expr_fn(node.func, node))):
            continue
        q = kwarg(node, "filename", 1)
        if q is None:
            continue
        tests = []
        for t, pol in expr_guards(node, stop=fi.node):
            for a, p in _resolved_facts(fi, t, pol):
                if isinstance(a, ast.Call) and isinstance(a.func, (ast.Name, ast.Attribute)) and prog.ext_name(a.func, a) in ("os.path.isfile", "os.path.exists") and a.args:
                    tests.append(a)
        for a in tests:
            n += 1
            g_nf, w_nf = _closure(path_nf(prog, a.args[0], fi, follow_callers=False)), _closure(path_nf(prog, q, fi, follow_callers=False))
            if g_nf == w_nf:
                rep.holds("FILE-2d", "%s tested and written in the same canonical form (%s)" % (src(q, 30), sorted(w_nf) or "as given"), loc(prog, node), "")
            else:
                rep.violation(Finding("FILE-2d", anchor, "existence-test-on-other-spelling",
                                      "%s decides the branch, but the path written, %s, has gone through %s while the tested one has gone through %s: for a `~` or "
                                      "symlinked spelling the test looks at a different file than the one written"
                                      % (src(a, 50), src(q, 30), sorted(w_nf) or "nothing", sorted(g_nf) or "nothing"), loc(prog, a)))
    if n == 0:
        raise AnalysisError("FILE-2d: no write of %s is guarded by an existence test" % anchor)


def _resolved_facts(fi, test, pol):
    """facts of a guard with local names standing for a test replaced by their (single, earlier) definition"""
    out = []
    for a, p in facts(test, pol):
        if isinstance(a, ast.Name):
            ds = _defs_reaching(fi, a)
            if len(ds) == 1:
                out.extend(facts(ds[0], p))
                continue
        out.append((a, p))
    return out


def rule_file2c(prog, rep, tier, anchor="conformance._conform_filename"):
    """FILE-2c (C09): a target that exists and whose definition was found is left unwritten only because its syntax tree
    equals the replacement (or the transformer reported no replacement); any other reason to skip leaves a stale target."""
    fi = prog.inl(prog.fn_role(anchor, "conform_file") if anchor == "conformance._conform_filename" else prog.fn(anchor))
    rs = reaches_sink(prog)
    cfg = CFG(fi.node)
    n = 0
    for path in cfg.paths():
        if path[-1][0].kind != "RETURN":
            continue
        writes = [1 for node, _ in path if node.stmt is not None and _contains_sink_call(prog, node.stmt, rs) is not None]
        if writes:
            continue
        n += 1
        fs = _path_facts_resolved(path)
        reason = None
        for a, p in fs:
            if isinstance(a, ast.Call):
                nm = a.func.id if isinstance(a.func, ast.Name) else getattr(a.func, "attr", "")
                if nm in ("cmp_ast", "compare_ast", "ast_equal") and p is True:
                    reason = "syntax trees equal (%s)" % src(a, 50)
            elif isinstance(a, ast.Compare) and len(a.ops) == 1 and isinstance(a.left, ast.Call) and isinstance(a.comparators[0], ast.Call):
                l, r = a.left, a.comparators[0]
                fnm = l.func.id if isinstance(l.func, ast.Name) else getattr(l.func, "attr", "")
                if dump(l.func) == dump(r.func) and fnm in ("dump", "to_code", "unparse", "_to_code") and ((isinstance(a.ops[0], ast.Eq) and p) or (isinstance(a.ops[0], ast.NotEq) and not p)):
                    reason = "rendered trees equal (%s)" % src(a, 50)
            elif isinstance(a, ast.Attribute) and a.attr == "replaced" and p is False:
                reason = reason or "the transformer reported no replacement"
        if reason is None:
            # a package predicate decided the skip: acceptable when each way it can come out true passes an AST-equality
            # test (cmp_ast(..) true on that path of the predicate)
            for a, p in fs:
                if isinstance(a, ast.Call) and p is True:
                    alts = prog.pred_paths(a, True)
                    if alts and all(any(isinstance(x, ast.Call) and (x.func.id if isinstance(x.func, ast.Name) else getattr(x.func, "attr", "")) in ("cmp_ast", "compare_ast", "ast_equal") and px is True
                                        for x, px in alt) for alt in alts):
                        reason = "every way %s comes out true passes a syntax-tree equality test" % src(a.func)
        desc = ",".join("%s%s" % ("" if l[1] else "!", src(l[0], 40)) for nd, l in path if l is not None and l[0] not in ("iter", "except"))
        if reason:
            rep.holds("FILE-2c", "unwritten path [%s]" % desc, loc(prog, path[-2][0].stmt) if path[-2][0].stmt is not None else anchor, reason)
        else:
            ret = next((nd.stmt for nd, _ in reversed(path) if nd.kind == "return"), None)
            rep.violation(Finding(
                "FILE-2c", anchor, "skip-without-ast-equality",
                "a path of %s leaves an existing target unwritten although no condition on it establishes that the found definition equals the replacement "
                "(conditions on the path: %s): a stale definition that satisfies the weaker condition is never brought into agreement with the truth"
                % (anchor, desc), loc(prog, ret) if ret is not None else anchor))
    if n == 0:
        raise AnalysisError("FILE-2c: no unwritten returning path in %s" % anchor)


# ---------------------------------------------------------------------------- path normal forms (FILE-1b, FILE-6b)
PATH_FUNCS = {"os.path.realpath": "realpath", "os.path.abspath": "abspath", "os.path.expanduser": "expanduser", "os.path.normpath": "normpath",
              "os.path.normcase": "normcase", "os.path.expandvars": "expandvars"}


def _closure(nf):
    nf = set(nf)
    if "realpath" in nf:
        nf |= {"abspath", "normpath"}
    if "abspath" in nf:
        nf |= {"normpath"}
    return nf


def _defs_reaching(fi, use):
    """value expressions of the assignments to the name `use` that precede it in execution order: plain and tuple
    assignments (element-wise); an assignment whose right-hand side contains the use itself does not count (the
    right-hand side is evaluated before the name is rebound)"""
    out = []
    has_pos = hasattr(use, "lineno")
    for st in ast.walk(fi.node):
        if not isinstance(st, ast.Assign):
            continue
        if has_pos and (order_key(st) > order_key(use) or any(x is use for x in ast.walk(st.value))):
            continue
        for t in st.targets:
            if isinstance(t, ast.Name) and t.id == use.id:
                out.append(st.value)
            elif isinstance(t, (ast.Tuple, ast.List)) and isinstance(st.value, (ast.Tuple, ast.List)) and len(t.elts) == len(st.value.elts):
                for te, ve in zip(t.elts, st.value.elts):
                    if isinstance(te, ast.Name) and te.id == use.id:
                        out.append(ve)
    return out


def path_nf(prog, e, fi, depth=0, follow_callers=True):
    """set of os.path canonicalisation functions applied to reach the value of expression e in function fi"""
    if depth > 6 or e is None:
        return set()
    if isinstance(e, ast.Call):
        en = prog.ext_name(e.func, e) if isinstance(e.func, (ast.Name, ast.Attribute)) else None
        if en in PATH_FUNCS and e.args:
            return {PATH_FUNCS[en]} | path_nf(prog, e.args[0], fi, depth + 1, follow_callers)
        for t in prog.resolve_expr_fn(e.func, e):
            if isinstance(t, FunctionInfo) and e.args:
                rets = [r.value for r in ast.walk(t.node) if isinstance(r, ast.Return) and enclosing_fn(r) is t and r.value is not None]
                out = set()
                for r in rets:
                    out |= path_nf(prog, r, t, depth + 1, follow_callers=False)
                return out | path_nf(prog, e.args[0], fi, depth + 1, follow_callers)
        return set()
    if isinstance(e, ast.Name) and fi is not None:
        defs = _defs_reaching(fi, e)
        out = set()
        for d in defs:
            # a rebinding `x = f(x)` contributes f and keeps following the previous value of x
            out |= path_nf(prog, d, fi, depth + 1, follow_callers) if not (isinstance(d, ast.Name) and d.id == e.id) else set()
        if e.id in fi.params() and follow_callers:
            for caller, call in prog.callers_of(fi):
                amap = call_arg_map(call, fi)
                if e.id in amap and caller is not None:
                    out |= path_nf(prog, amap[e.id], caller, depth + 1, follow_callers=False)
        return out
    if isinstance(e, ast.IfExp):
        return path_nf(prog, e.body, fi, depth + 1, follow_callers) | path_nf(prog, e.orelse, fi, depth + 1, follow_callers)
    return set()


def rule_file1b(prog, rep, tier, entry="conformance.ground_truth", truth_param="truth_file"):
    """FILE-1b: both sides of the "is this the truth file" comparison are canonicalised by the same path functions
    (counting what the caller already applied to the truth path): otherwise a symlinked / relative spelling of the truth
    file compares unequal to itself and the truth is rewritten."""
    fi = prog.fn(entry)
    n = 0
    for f in prog.region(fi):
        truth_names = derived(f.node, {truth_param}) if truth_param in f.params() or f is fi else set()
        if not truth_names:
            continue
        for c in ast.walk(f.node):
            if not (isinstance(c, ast.Compare) and len(c.ops) == 1 and isinstance(c.ops[0], (ast.Eq, ast.NotEq))):
                continue
            l, r = c.left, c.comparators[0]
            lt, rt = bool(names_in(l) & truth_names), bool(names_in(r) & truth_names)
            if lt == rt:
                continue
            tside, fside = (l, r) if lt else (r, l)
            if not (isinstance(tside, (ast.Call, ast.Name)) and isinstance(fside, (ast.Call, ast.Name))):
                continue
            n += 1
            owner = enclosing_fn(c) or f
            nf_t = _closure(path_nf(prog, tside, owner))
            nf_f = _closure(path_nf(prog, fside, owner))
            if nf_t == nf_f:
                rep.holds("FILE-1b", "truth comparison %s: both sides canonicalised by %s" % (src(c, 70), sorted(nf_f)), loc(prog, c), "")
            else:
                rep.violation(Finding("FILE-1b", entry, "truth-compare-canonicalisation",
                                      "the truth side of %s is canonicalised by %s, the target side by %s: a symlinked or differently spelled path of the truth file "
                                      "compares unequal to itself, so the truth file is rewritten" % (src(c, 70), sorted(nf_t), sorted(nf_f)), loc(prog, c)))
    if n == 0:
        rep.ob("FILE-1b", "truth comparison", "unresolved", loc(prog, fi.node), "no equality comparison between the truth path and a target path found (guard by another idiom)")


def rule_file6b(prog, rep, tier, anchor="gen.gen", main="__main__.main", param="output_filename"):
    """FILE-6b: the path the existing-output guard tests is the path that is opened for writing: the worker applies no
    further canonicalisation to it (or the guard applies the same)."""
    fi = prog.fn(anchor)
    mi = prog.inl(prog.fn(main))
    guard_nf = set()
    for c in ast.walk(mi.node):
        if isinstance(c, ast.Call) and isinstance(c.func, (ast.Attribute, ast.Name)) and prog.ext_name(c.func, c) in ("os.path.isfile", "os.path.exists") and c.args \
                and any(isinstance(x, ast.Attribute) and x.attr == param for x in ast.walk(c.args[0])):
            st = c
            while not isinstance(st, ast.stmt):
                st = st._parent
            # only the guard of this worker: the enclosing branch calls it
            blk = st
            while blk is not None and not (isinstance(blk, ast.If) and any(isinstance(x, ast.Call) and prog.is_fn(x.func, anchor, x) for x in ast.walk(blk))):
                blk = getattr(blk, "_parent", None)
            if blk is not None:
                guard_nf |= path_nf(prog, c.args[0], mi)
    n = 0
    for c in ast.walk(fi.node):
        if isinstance(c, ast.Call) and is_open(prog, c) and open_mode(prog, c)[0] != "read":
            p = c.args[0] if c.args else None
            if p is None or param not in names_in(p):
                continue
            n += 1
            sink_nf = path_nf(prog, p, fi, follow_callers=False)
            if _closure(sink_nf) == _closure(guard_nf):
                rep.holds("FILE-6b", "%s opens %s as tested by the guard (canonicalisation %s)" % (anchor, src(p, 40), sorted(sink_nf) or "none"), loc(prog, c), "")
            else:
                rep.violation(Finding("FILE-6b", anchor, "guard-sink-path-mismatch",
                                      "%s opens %s after applying %s, but the existing-file guard in main tests the path with %s: for `~` or symlinked spellings the guard "
                                      "looks at a different file than the one written" % (anchor, src(p, 40), sorted(sink_nf) or "nothing", sorted(guard_nf) or "nothing"), loc(prog, c)))
    if n == 0:
        raise AnalysisError("FILE-6b: %s no longer opens %s for writing" % (anchor, param))


def rule_file6c(prog, rep, tier, anchor="__main__.main"):
    """FILE-6c: a usage error is raised only before any worker has started: no ArgumentParser.error in an exception
    handler around (or in a statement after) a worker call."""
    fi = prog.inl(prog.fn(anchor))
    workers = ("conformance.ground_truth", "sync_properties.sync_properties", "gen.gen")

    def has_worker(nodes):
        return any(isinstance(x, ast.Call) and any(prog.is_fn(x.func, w, x) for w in workers) for nd in nodes for x in ast.walk(nd))

    n = 0
    for c in ast.walk(fi.node):
        if isinstance(c, ast.Call) and _is_parser_error(c):
            n += 1
            bad = None
            p, child = c._parent, c
            while p is not None and p is not fi.node:
                if isinstance(p, ast.ExceptHandler):
                    t = p._parent
                    if isinstance(t, ast.Try) and has_worker(t.body):
                        bad = "in an exception handler around a worker call"
                for fld in ("body", "orelse", "finalbody"):
                    blk = getattr(p, fld, None)
                    if isinstance(blk, list) and any(child is s2 for s2 in blk):
                        idx = next(i for i, s2 in enumerate(blk) if s2 is child)
                        if has_worker(blk[:idx]):
                            bad = "after a worker call in the same block"
                child, p = p, p._parent
            if bad:
                rep.violation(Finding("FILE-6c", anchor, "usage-error-after-work",
                                      "%s is reachable %s: the invocation is rejected with a usage error after files may already have been written" % (src(c, 60), bad), loc(prog, c)))
            else:
                rep.holds("FILE-6c", "usage error %s precedes all work" % src(c, 50), loc(prog, c), "")
    if n == 0:
        raise AnalysisError("FILE-6c: main() raises no usage error at all")


# ---------------------------------------------------------------------------- ARGS-ORDER (C09)
def rule_args_order(prog, rep, tier, entry="__main__.main", worker="conformance.ground_truth"):
    """ARGS-ORDER (C09): the order in which the user gave the files of a kind carries meaning - the first file of the truth's kind
    *is* the truth, and the i-th name belongs to the i-th file.  Between `parse_args` and the call of the sync worker no store into
    the namespace (a rebuilt `Namespace(..)`, `setattr(args, ..)`, `args.x = ..`) passes the lists through something that reorders
    or de-duplicates them (`sorted`, `set`, `frozenset`, `reversed`, a negative-step slice, `.sort()` / `.reverse()` in place)."""
    fi = prog.fn(entry)
    region = prog.region(fi)   # the branch of a command may live in a private helper (`_run_sync(parser, args, ..)`)
    calls = [c for f_ in region for c in ast.walk(f_.node) if isinstance(c, ast.Call) and isinstance(c.func, (ast.Name, ast.Attribute)) and prog.is_fn(c.func, worker, c)]
    if not calls:
        # reached through a table of runners (`_COMMAND_RUNNERS[args.command](..)`): every function of the entry's module counts
        region = [f_ for f_ in fi.module.functions.values()]
        calls = [c for f_ in region for c in ast.walk(f_.node) if isinstance(c, ast.Call) and isinstance(c.func, (ast.Name, ast.Attribute)) and prog.is_fn(c.func, worker, c)]
    if not calls:
        raise AnalysisError("ARGS-ORDER: %s (with its module) no longer calls %s" % (entry, worker))
    ns_names = {n.id for c in calls for a in c.args[:1] for n in ast.walk(a) if isinstance(n, ast.Name)}
    for f_ in region:
        for st in ast.walk(f_.node):
            if isinstance(st, ast.Assign) and len(st.targets) == 1 and isinstance(st.targets[0], ast.Name) and isinstance(st.value, ast.Call) \
                    and getattr(st.value.func, "attr", getattr(st.value.func, "id", "")) in ("parse_args", "parse_known_args", "Namespace"):
                ns_names.add(st.targets[0].id)
    if not ns_names:
        raise AnalysisError("ARGS-ORDER: the namespace handed to %s is not a name" % worker)
    REORDER = ("sorted", "set", "frozenset", "reversed")
    n = 0

    def reorders(e):
        for x in ast.walk(e):
            if isinstance(x, ast.Call) and isinstance(x.func, ast.Name) and x.func.id in REORDER and prog.lookup(x.func.id, x)[0] == "builtin":
                return x
            if isinstance(x, ast.Subscript) and isinstance(x.slice, ast.Slice) and isinstance(x.slice.step, ast.UnaryOp):
                return x
            if isinstance(x, (ast.Set, ast.SetComp)):
                return x
        return None
    for st in [x for f_ in region for x in ast.walk(f_.node)]:
        val, what = None, None
        if isinstance(st, ast.Assign) and any((isinstance(t, ast.Name) and t.id in ns_names) or (isinstance(t, ast.Attribute) and isinstance(t.value, ast.Name) and t.value.id in ns_names)
                                              for t in st.targets):
            val, what = st.value, src(st, 50)
        elif isinstance(st, ast.Call) and isinstance(st.func, ast.Name) and st.func.id == "setattr" and len(st.args) == 3 and isinstance(st.args[0], ast.Name) \
                and st.args[0].id in ns_names:
            val, what = st.args[2], src(st, 50)
        elif isinstance(st, ast.Call) and isinstance(st.func, ast.Attribute) and st.func.attr in ("sort", "reverse") and any(
                isinstance(x, ast.Name) and x.id in ns_names for x in ast.walk(st.func.value)):
            n += 1
            rep.violation(Finding("ARGS-ORDER", entry, "namespace-list-reordered:%s" % st.func.attr,
                                  "%s reorders a list of the namespace in place: the first file of the truth's kind is the truth, and names pair with files by position" % src(st, 60),
                                  loc(prog, st)))
            continue
        if val is None:
            continue
        n += 1
        r = reorders(val)
        if r is not None:
            rep.violation(Finding(
                "ARGS-ORDER", entry, "namespace-list-reordered:%s" % (r.func.id if isinstance(r, ast.Call) else "set" if isinstance(r, (ast.Set, ast.SetComp)) else "reversed-slice"),
                "%s stores lists into the namespace that went through %s: the order the user gave is lost - with two files of the truth's kind another file than the first "
                "given becomes the truth (and is then the one every target, the real truth included, is conformed to), and the i-th name no longer belongs to the i-th file"
                % (what, src(r, 40)), loc(prog, st)))
        else:
            rep.holds("ARGS-ORDER", "%s: %s" % (entry, what), loc(prog, st), "the lists keep the order in which they were given")
    if n == 0:
        rep.holds("ARGS-ORDER", "%s: the namespace reaches %s as parse_args built it" % (entry, worker), loc(prog, fi.node), "")


# ---------------------------------------------------------------------------- TARGET-COVER (C09)
def rule_target_cover(prog, rep, tier, entry="conformance.ground_truth", truth_param="truth_file"):
    """TARGET-COVER (C09): every file the caller listed for a kind is handed to the per-file worker - the only file that may be
    left out is the one that *is* the truth file (a comparison of the two names).  The sequence the worker is mapped over is the
    list read from the namespace, whole: not a slice or an index of it, not filtered, not shortened in place; and the call of the
    worker stands under no condition on the file (or its position) other than that comparison."""
    fi = prog.fn(entry)
    rs = reaches_sink(prog)
    truth_names = derived(fi.node, {truth_param})
    n = 0
    for node in ast.walk(fi.node):
        if not isinstance(node, ast.Call) or not isinstance(node.func, (ast.Name, ast.Attribute)):
            continue
        tl = [t for t in prog.resolve_expr_fn(node.func, node) if isinstance(t, FunctionInfo) and id(t) in rs and not t.qualname.startswith("emit.")]
        if not tl:
            continue
        amap = call_arg_map(node, tl[0])
        pa = next((amap[k] for k in ("filename", "file", "path", "output_filename") if k in amap), None)
        if pa is None:
            continue
        # the loop the call runs in
        loops, p, child = [], getattr(node, "_parent", None), node
        while p is not None and p is not fi.node:
            if isinstance(p, ast.Lambda):
                mp = getattr(p, "_parent", None)
                if isinstance(mp, ast.Call) and mp.args and mp.args[0] is p and len(mp.args) >= 2 and isinstance(mp.func, ast.Name) and mp.func.id == "map":
                    loops.append((mp.args[1], {a.arg for a in p.args.args}, mp))
            elif isinstance(p, (ast.For, ast.AsyncFor)):
                loops.append((p.iter, names_in(p.target), p))
            elif isinstance(p, (ast.ListComp, ast.GeneratorExp, ast.SetComp, ast.DictComp)):
                for g in p.generators:
                    loops.append((g.iter, names_in(g.target), p))
            child, p = p, getattr(p, "_parent", None)
        floop = [l for l in loops if names_in(pa) & l[1]]
        if not floop:
            continue
        n += 1
        it, loop_vars, holder = floop[0]
        inst = "%s: %s over %s" % (fi.qualname, src(node.func, 30), src(it, 40))
        probs = []

        def whole(e, depth=0):
            """None when e denotes the namespace's list as it was given, else what is done to it"""
            if isinstance(e, ast.Call) and isinstance(e.func, ast.Name) and e.func.id in ("list", "tuple", "iter", "sorted", "reversed") and len(e.args) == 1:
                return whole(e.args[0], depth)
            if isinstance(e, ast.Call) and isinstance(e.func, ast.Name) and e.func.id == "enumerate" and e.args:
                return whole(e.args[0], depth)
            if isinstance(e, ast.Call) and isinstance(e.func, ast.Name) and e.func.id == "getattr":
                return None
            if isinstance(e, ast.Attribute):
                return None
            if isinstance(e, ast.BoolOp) and isinstance(e.op, ast.Or):
                return whole(e.values[0], depth)
            if isinstance(e, ast.IfExp):
                return whole(e.body, depth) or whole(e.orelse, depth)
            if isinstance(e, ast.Subscript):
                return "only a part of the list is used (%s)" % src(e, 40)
            if isinstance(e, ast.Call) and isinstance(e.func, ast.Name) and e.func.id in ("filter", "islice", "takewhile", "dropwhile"):
                f = e.args[0] if e.args else None
                if e.func.id == "filter" and isinstance(f, ast.Lambda) and any(_cmp_guard_ok(f.body, True, truth_names, {a.arg for a in f.args.args}) for _ in (0,)):
                    return whole(e.args[1], depth)
                return "files are dropped from the list (%s)" % src(e, 50)
            if isinstance(e, (ast.ListComp, ast.GeneratorExp)):
                for g in e.generators:
                    for c in g.ifs:
                        if not _cmp_guard_ok(c, True, truth_names, names_in(g.target)):
                            return "files are dropped from the list (`if %s`)" % src(c, 40)
                return whole(e.generators[0].iter, depth)
            if isinstance(e, ast.Name) and depth < 4:
                if e.id in fi.params():
                    return None
                defs = [st for st in ast.walk(fi.node) if isinstance(st, ast.Assign) and any(isinstance(t, ast.Name) and t.id == e.id for t in st.targets)]
                for d in defs:
                    # every (re)definition counts: `files = files[1:]` under a condition still drops a file when it runs
                    if isinstance(d.value, ast.Name) and d.value.id == e.id:
                        continue
                    w = whole(d.value, depth + 1)
                    if w is not None:
                        return w
                # shortened in place
                for c in ast.walk(fi.node):
                    if isinstance(c, ast.Call) and isinstance(c.func, ast.Attribute) and isinstance(c.func.value, ast.Name) and c.func.value.id == e.id \
                            and c.func.attr in ("pop", "remove", "clear"):
                        return "the list is shortened in place (%s)" % src(c, 40)
                    if isinstance(c, ast.Delete) and any(isinstance(t, ast.Subscript) and isinstance(t.value, ast.Name) and t.value.id == e.id for t in c.targets):
                        return "the list is shortened in place (%s)" % src(c, 40)
                return None
            return None
        w = whole(it)
        if w is not None:
            probs.append(("part-of-list", w))
        for t, pol in expr_guards(node, stop=fi.node):
            if _cmp_guard_ok(t, pol, truth_names, derived(fi.node, names_in(pa)) | names_in(pa)):
                continue
            mentioned = names_in(t) & (loop_vars | derived(fi.node, loop_vars))
            if mentioned:
                probs.append(("conditional", "the call stands under `%s`, a condition on the file other than being the truth file" % src(t, 50)))
        if probs:
            for kind, why in probs[:1]:
                rep.violation(Finding("TARGET-COVER", fi.qualname, "target-skipped:%s" % kind,
                                      "%s: a file the caller listed is not conformed (and, absent, not created) although it is not the truth file - "
                                      "only the comparison with %s may leave a file out" % (why, truth_param), loc(prog, node)))
        else:
            rep.holds("TARGET-COVER", inst, loc(prog, node), "mapped over the whole list from the namespace; the only condition is the comparison with the truth file")
    if n == 0:
        raise AnalysisError("TARGET-COVER: no per-file call of a writing worker found in %s" % entry)
