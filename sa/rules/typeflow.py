"""
TYPEFLOW (C18): a string read from the environment must pass a numeric conversion before it reaches a numeric sink
(`width=` of textwrap, ordering comparisons against lengths/ints, arithmetic, range/slice bounds).
WRAP-LAST (C18): word-wrapping is the last transformation of a text: no wrapped string flows into a reader.
"""
import ast

from sa.model import AnalysisError, Finding, FunctionInfo, enclosing_fn, loc, names_in, src

ENV_READS = {"os.environ.get", "os.getenv"}
SANITISERS = {"int", "float"}
WRAPPERS_EXT = {"textwrap.fill", "textwrap.wrap", "textwrap.shorten"}


def _is_env_read(prog, e):
    if isinstance(e, ast.Call) and isinstance(e.func, (ast.Name, ast.Attribute)) and prog.ext_name(e.func, e) in ENV_READS:
        return True
    if isinstance(e, ast.Subscript) and isinstance(e.value, (ast.Name, ast.Attribute)) and prog.ext_name(e.value, e) == "os.environ":
        return True
    return False


def _unsanitised_env(prog, value):
    """env reads inside `value` that are not under int(...)/float(...)"""
    out = []
    for n in ast.walk(value):
        if _is_env_read(prog, n):
            p = n._parent
            ok = False
            while p is not None and p is not value._parent:
                if isinstance(p, ast.Call) and isinstance(p.func, ast.Name) and p.func.id in SANITISERS and n in list(ast.walk(p)):
                    ok = True
                    break
                p = getattr(p, "_parent", None)
            if not ok:
                out.append(n)
    return out


def _numeric_sink(prog, use):
    """Is the Name node `use` at a numeric sink?  Returns a description or None."""
    p = use._parent
    if isinstance(p, ast.keyword) and p.arg in ("width", "line_length", "maxlen", "n") and p.value is use:
        return "keyword %s=" % p.arg
    if isinstance(p, ast.Dict):
        for k, v in zip(p.keys, p.values):
            if v is use and isinstance(k, ast.Constant) and k.value in ("width", "line_length", "maxlen"):
                return "keyword %s= (through an options dict)" % k.value
    if isinstance(p, ast.Compare):
        ops = p.ops
        if any(isinstance(o, (ast.Lt, ast.LtE, ast.Gt, ast.GtE)) for o in ops):
            return "ordering comparison %s" % src(p, 50)
    if isinstance(p, ast.BinOp) and isinstance(p.op, (ast.Add, ast.Sub, ast.Mult, ast.FloorDiv, ast.Div, ast.Mod)):
        other = p.right if p.left is use else p.left
        if isinstance(other, ast.Constant) and isinstance(other.value, (int, float)) or isinstance(other, ast.Call) and isinstance(other.func, ast.Name) and other.func.id == "len":
            return "arithmetic %s" % src(p, 50)
    if isinstance(p, ast.Call) and isinstance(p.func, ast.Name) and p.func.id in ("range",) and use in p.args:
        return "range bound"
    if isinstance(p, ast.Slice):
        return "slice bound"
    return None


def rule_typeflow(prog, rep, tier):
    """TYPEFLOW: every environment read that configures a width is converted with int()/float() before any numeric use."""
    n_reads = 0
    n_sinks = 0
    for m in prog.modules.values():
        for st in ast.walk(m.tree):
            if not isinstance(st, (ast.Assign, ast.AnnAssign)) or st.value is None:
                continue
            reads = [x for x in ast.walk(st.value) if _is_env_read(prog, x)]
            if not reads:
                continue
            n_reads += len(reads)
            tainted = _unsanitised_env(prog, st.value)
            tgts = st.targets if isinstance(st, ast.Assign) else [st.target]
            names = {t.id for t in tgts if isinstance(t, ast.Name)}
            fn = enclosing_fn(st)
            # all uses of the configured name: same module (module-level name) and importers
            uses = []
            for m2 in prog.modules.values():
                for u in ast.walk(m2.tree):
                    if isinstance(u, ast.Name) and isinstance(u.ctx, ast.Load) and u.id in names:
                        b = prog.lookup(u.id, u)
                        if fn is None and ((m2 is m and b[0] == "value") or (b[0] == "value" and b[1] is m)):
                            uses.append(u)
                        elif fn is not None and enclosing_fn(u) is fn:
                            uses.append(u)
            # propagate through partial(..., width=name) aliases: the keyword itself is the sink
            for u in uses:
                sink = _numeric_sink(prog, u)
                if sink is None:
                    continue
                n_sinks += 1
                inst = "%s.%s -> %s (%s)" % (m.name, "/".join(sorted(names)), sink, loc(prog, u))
                if tainted:
                    rep.violation(Finding(
                        "TYPEFLOW", "%s.%s" % (m.name, "/".join(sorted(names))), "env-str-to:%s" % sink.split(" ")[0] + ":" + (enclosing_fn(u).qualname if enclosing_fn(u) else prog.module_of(u).name),
                        "the value of %s comes from the environment (%s) without int()/float(): when the variable is set it is a str and reaches the "
                        "numeric sink `%s`, so every emitter raises TypeError for any explicit setting" % ("/".join(sorted(names)), src(tainted[0], 60), sink), loc(prog, u)))
                else:
                    rep.holds("TYPEFLOW", inst, loc(prog, u), "environment value converted before use: %s" % src(st.value, 60))
    # an environment read used in place at a numeric sink (e.g. Mode(line_length=environ.get(...)))
    for m in prog.modules.values():
        for e in ast.walk(m.tree):
            if not _is_env_read(prog, e):
                continue
            p = e._parent
            sanitised = False
            q = p
            while q is not None and not isinstance(q, ast.stmt):
                if isinstance(q, ast.Call) and isinstance(q.func, ast.Name) and q.func.id in SANITISERS:
                    sanitised = True
                q = getattr(q, "_parent", None)
            sink = None
            if isinstance(p, ast.keyword) and p.arg in ("width", "line_length", "maxlen", "n"):
                sink = "keyword %s=" % p.arg
            elif isinstance(p, ast.Compare) and any(isinstance(o, (ast.Lt, ast.LtE, ast.Gt, ast.GtE)) for o in p.ops):
                sink = "ordering comparison %s" % src(p, 50)
            if sink and not sanitised:
                n_sinks += 1
                fn_ = enclosing_fn(e)
                rep.violation(Finding("TYPEFLOW", fn_.qualname if fn_ else m.name, "env-str-direct:%s" % sink.split(" ")[0],
                                      "%s is read from the environment and used unconverted at the numeric sink `%s`: a str when the variable is set" % (src(e, 60), sink), loc(prog, e)))
    if n_reads == 0:
        raise AnalysisError("TYPEFLOW: no environment read found (the line-length configuration is expected in pure_utils)")
    if n_sinks < 2:
        raise AnalysisError("TYPEFLOW: the configured width reaches only %d numeric sink(s); `fill` and the wrap decision in to_docstring are expected" % n_sinks)


def _wrapped_names(prog, fi):
    """local names of fi holding the result of a wrapping call (fill/_fill/indent_all_but_first(fill(...)))"""
    wrappers = set()

    def is_wrap_call(e):
        if not isinstance(e, ast.Call):
            return False
        if isinstance(e.func, (ast.Name, ast.Attribute)):
            en = prog.ext_name(e.func, e)
            if en in WRAPPERS_EXT:
                return True
            for t in prog.resolve_expr_fn(e.func, e):
                if isinstance(t, tuple) and t[0] == "ext" and t[1] in WRAPPERS_EXT:
                    return True
            if isinstance(e.func, ast.Name) and e.func.id in ("fill", "_fill"):
                b = prog.lookup(e.func.id, e)
                if b[0] in ("value", "ext", "func", "local"):
                    return True
        if isinstance(e.func, ast.IfExp):
            # (fill if word_wrap else identity)(x)
            return any(isinstance(x, ast.Name) and x.id in ("fill", "_fill") for x in (e.func.body, e.func.orelse))
        return False

    return is_wrap_call


def rule_wrap_last(prog, rep, tier, readers=("defaults_utils.extract_default", "pure_utils.location_within", "defaults_utils.set_default_doc")):
    """WRAP-LAST: no reader of prose (default-sentence scanner) is applied to an already word-wrapped string: wrapping can
    split the announcement phrase across lines, so a scan after the wrap loses the default."""
    n = 0
    for fi in prog.all_functions():
        is_wrap = _wrapped_names(prog, fi)
        wrapped_locals = set()
        for st in ast.walk(fi.node):
            if isinstance(st, ast.Assign) and any(is_wrap(x) for x in ast.walk(st.value)):
                wrapped_locals |= {t.id for t in st.targets if isinstance(t, ast.Name)}
        for c in ast.walk(fi.node):
            if not isinstance(c, ast.Call):
                continue
            if not any(isinstance(t, FunctionInfo) and t.qualname in readers for t in prog.resolve_expr_fn(c.func, c)):
                continue
            n += 1
            arg = c.args[0] if c.args else None
            bad = None
            if arg is not None:
                if any(is_wrap(x) for x in ast.walk(arg)):
                    bad = "its argument is wrapped in place: %s" % src(arg, 60)
                elif names_in(arg) & wrapped_locals:
                    bad = "its argument %s holds a wrapped string" % src(arg, 40)
            if bad:
                rep.violation(Finding("WRAP-LAST", fi.qualname, "reader-after-wrap:%s" % src(c.func, 30),
                                      "%s is applied after word-wrapping (%s): a line break inside 'Defaults to' hides the announcement" % (src(c.func, 30), bad), loc(prog, c)))
            else:
                rep.holds("WRAP-LAST", "%s: %s" % (fi.qualname, src(c, 60)), loc(prog, c), "argument not derived from a wrapping call")
    if n < 5:
        raise AnalysisError("WRAP-LAST: only %d reader call sites found" % n)
