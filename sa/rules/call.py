"""
CALL family: every call whose callee set is resolved and definite must bind to the callee's signature.
Only must-fail bindings are reported (missing required parameter with no */** of unknown content, unknown keyword
without **kwargs, too many positionals without *args).  Dynamic sites are enumerated over their finite domain:
rows of a dispatch table (dict literal of tuples of function references) and `getattr(<module>, <folded name>)`.
"""
import ast

from sa.consteval import NT, NTClass, UNKNOWN, FnVal, Folder, Lam, ModAttr
from sa.model import AnalysisError, ClassInfo, Finding, FunctionInfo, enclosing_fn, loc, src
from sa.rules.cli import cli_model


class Sig(object):
    def __init__(self, fi, skip_first=False):
        a = fi.node.args
        pos = [x.arg for x in a.posonlyargs + a.args]
        ndef = len(a.defaults)
        self.required_pos = pos[: len(pos) - ndef] if ndef else list(pos)
        self.pos = pos
        if skip_first and self.pos:
            self.pos = self.pos[1:]
            self.required_pos = self.required_pos[1:] if self.required_pos and self.required_pos[0] == pos[0] else self.required_pos
        self.posonly = {x.arg for x in a.posonlyargs}
        self.kwonly = [x.arg for x in a.kwonlyargs]
        self.required_kwonly = [x.arg for x, d in zip(a.kwonlyargs, a.kw_defaults) if d is None]
        self.vararg = a.vararg is not None
        self.kwarg = a.kwarg is not None
        self.name = fi.qualname

    def must_fail(self, n_pos, kw_names, star_unknown=False, starstar_unknown=False):
        reasons = []
        if n_pos > len(self.pos) and not self.vararg:
            reasons.append("%d positional arguments for %d positional parameters" % (n_pos, len(self.pos)))
        bound = set(self.pos[:n_pos])
        for k in kw_names:
            if k in bound and k not in self.posonly:
                reasons.append("multiple values for parameter %r" % k)
            elif k not in self.pos and k not in self.kwonly and not self.kwarg:
                reasons.append("unexpected keyword argument %r" % k)
            bound.add(k)
        if not star_unknown and not starstar_unknown:
            miss = [p for p in self.required_pos if p not in bound] + [p for p in self.required_kwonly if p not in bound]
            if miss:
                reasons.append("missing required parameter(s) %s" % ", ".join(repr(m) for m in miss))
        elif star_unknown and not starstar_unknown:
            pass
        return reasons


def sig_of(target, via_instance=False):
    if isinstance(target, ClassInfo):
        init = target.methods.get("__init__")
        return Sig(init, skip_first=True) if init is not None else None
    if isinstance(target, FunctionInfo):
        if target.cls is not None:
            decos = {d.id for d in target.node.decorator_list if isinstance(d, ast.Name)}
            if "classmethod" in decos:
                return Sig(target, skip_first=True)  # cls is bound whether called on the class or on an instance
            return Sig(target, skip_first=via_instance and "staticmethod" not in decos)
        return Sig(target)
    return None


def _call_shape(prog, folder, call, env, skip_args=0):
    """(n_pos, kw_names, star_unknown, starstar_unknown, unresolved_note)"""
    n_pos, star = 0, False
    for a in call.args[skip_args:]:
        if isinstance(a, ast.Starred):
            v = folder.fold(a.value, env, call)
            if v is UNKNOWN or not isinstance(v, (list, tuple)):
                star = True
            else:
                n_pos += len(v)
        else:
            n_pos += 1
    kws, sstar, note = [], False, None
    for k in call.keywords:
        if k.arg is not None:
            kws.append(k.arg)
        else:
            v = folder.fold(k.value, env, call)
            if not isinstance(v, dict) and isinstance(k.value, ast.Name):
                # a local assigned in several branches: pick the definition whose guards hold in this environment
                from sa.cfg import expr_guards
                fn = enclosing_fn(call)
                if fn is not None:
                    picks = []
                    for st in ast.walk(fn.node):
                        if isinstance(st, ast.Assign) and any(isinstance(t, ast.Name) and t.id == k.value.id for t in st.targets):
                            ok = True
                            for t, pol in expr_guards(st, stop=fn.node):
                                tv = folder.fold(t, env, t)
                                if tv is UNKNOWN or bool(tv) != pol:
                                    ok = False
                            if ok:
                                picks.append(st.value)
                    if len(picks) == 1:
                        v = folder.fold(picks[0], env, picks[0])
            if isinstance(v, dict) and all(isinstance(x, str) for x in v):
                kws.extend(v.keys())
            else:
                sstar = True
                note = "** of unknown content: %s" % src(k.value, 60)
    return n_pos, kws, star, sstar, note


def rule_call_direct(prog, rep, tier):
    """CALL (direct): all directly resolved calls of repository functions/classes, including partial(...) and
    map(f, iterables...).  Expected to be silent; it is the no-noise baseline for the dispatch findings."""
    folder = Folder(prog)
    n = bad = 0
    for call in prog.all_calls():
        fn = enclosing_fn(call)
        where = fn.qualname if fn else prog.module_of(call).name
        f = call.func
        # partial(f, ...)
        en = prog.ext_name(f, call) if isinstance(f, (ast.Name, ast.Attribute)) else None
        if en == "functools.partial" and call.args:
            tg = [t for t in prog.resolve_expr_fn(call.args[0], call) if isinstance(t, (FunctionInfo, ClassInfo))]
            if len(tg) == 1:
                sg = sig_of(tg[0])
                if sg is None:
                    continue
                n_pos, kws, star, sstar, _ = _call_shape(prog, folder, call, {}, skip_args=1)
                rs = [r for r in sg.must_fail(n_pos, kws, True, True)]
                n += 1
                if rs:
                    bad += 1
                    rep.violation(Finding("CALL", where, "partial->%s" % sg.name, "partial(%s, ...) cannot bind: %s" % (sg.name, "; ".join(rs)), loc(prog, call)))
            continue
        if en == "builtins.map" and len(call.args) >= 2:
            fe = call.args[0]
            extra_pos, extra_kw = 0, []
            if isinstance(fe, ast.Call) and prog.ext_name(fe.func, fe) == "functools.partial" and fe.args:
                extra_pos, extra_kw, _s, _ss, _ = _call_shape(prog, folder, fe, {}, skip_args=1)
                if _s or _ss:
                    continue
                fe = fe.args[0]
            if isinstance(fe, ast.Name) and prog.lookup(fe.id, call)[0] in ("local", "param"):
                # a local alias: definite only when bound once to partial(f, ...) (its bound arguments are added)
                b = prog.lookup(fe.id, call)
                defs = [n2 for n2 in ast.walk(b[1]) if isinstance(n2, ast.Assign) and any(isinstance(t, ast.Name) and t.id == fe.id for t in n2.targets)] if b[0] == "local" else []
                if len(defs) == 1 and isinstance(defs[0].value, ast.Call) and prog.ext_name(defs[0].value.func, defs[0].value) == "functools.partial" and defs[0].value.args:
                    pc = defs[0].value
                    extra_pos, extra_kw, _s, _ss, _ = _call_shape(prog, folder, pc, {}, skip_args=1)
                    if _s or _ss:
                        continue
                    fe = pc.args[0]
                else:
                    continue
            if isinstance(fe, (ast.Name, ast.Attribute)):
                tg = [t for t in prog.resolve_expr_fn(fe, call) if isinstance(t, (FunctionInfo, ClassInfo))]
                if len(tg) == 1:
                    via_inst = isinstance(fe, ast.Attribute) and isinstance(tg[0], FunctionInfo) and tg[0].cls is not None
                    sg = sig_of(tg[0], via_instance=via_inst)
                    if sg is None:
                        continue
                    n += 1
                    rs = sg.must_fail(extra_pos + len(call.args) - 1, extra_kw)
                    if rs:
                        bad += 1
                        rep.violation(Finding("CALL", where, "map->%s" % sg.name, "map(%s, ...) cannot bind: %s" % (sg.name, "; ".join(rs)), loc(prog, call)))
            continue
        if not isinstance(f, (ast.Name, ast.Attribute)):
            continue
        tg = [t for t in prog.resolve_expr_fn(f, call) if isinstance(t, (FunctionInfo, ClassInfo))]
        if len(tg) != 1:
            continue
        b = prog.lookup(f.id, call) if isinstance(f, ast.Name) else None
        if b is not None and b[0] in ("param", "local"):
            continue  # a variable, not a definite callee
        pre_pos, pre_kw = 0, []
        if b is not None and b[0] == "value":
            # module-level alias: `g = partial(f, k=v)` contributes its bound arguments; anything else is not definite
            v = b[2]
            if isinstance(v, ast.Call) and prog.ext_name(v.func, v) == "functools.partial" and v.args:
                pre_pos, pre_kw, _s, _ss, _ = _call_shape(prog, folder, v, {}, skip_args=1)
                if _s or _ss:
                    continue
            elif not isinstance(v, (ast.Name, ast.Attribute)):
                continue
        via_inst = False
        if isinstance(tg[0], FunctionInfo) and tg[0].cls is not None and isinstance(f, ast.Attribute):
            # Class.method(self, ...) through the class name is not via instance
            via_inst = not (isinstance(f.value, ast.Name) and prog.lookup(f.value.id, call)[0] == "class")
        sg = sig_of(tg[0], via_instance=via_inst)
        if sg is None:
            continue
        n_pos, kws, star, sstar, note = _call_shape(prog, folder, call, {})
        n_pos, kws = n_pos + pre_pos, kws + pre_kw
        n += 1
        rs = sg.must_fail(n_pos, kws, star, sstar)
        if rs:
            bad += 1
            rep.violation(Finding("CALL", where, "direct->%s" % sg.name, "%s cannot bind to %s: %s" % (src(call, 70), sg.name, "; ".join(rs)), loc(prog, call)))
    rep.ob("CALL", "direct/partial/map call sites bound against resolved signatures: %d" % n, "holds" if not bad else "violation", "", "%d must-fail" % bad)
    if n < 100:
        raise AnalysisError("CALL: only %d directly resolved call sites; the resolver is evidently incomplete" % n)


# ---------------------------------------------------------------------------- dispatch tables
class Row(object):
    """one row of a dispatch table: positional values and, for namedtuple rows, the field names"""
    def __init__(self, vals, fields=None):
        self.vals, self.fields = list(vals), (list(fields) if fields else None)

    def __len__(self):
        return len(self.vals)

    def get(self, key):
        if isinstance(key, int):
            return self.vals[key] if -len(self.vals) <= key < len(self.vals) else None
        if self.fields and key in self.fields:
            return self.vals[self.fields.index(key)]
        return None


def _row_of(prog, folder, v):
    """a row expression: a tuple of references, or <namedtuple class>(refs..., field=ref...)"""
    if isinstance(v, ast.Tuple):
        return [e for e in v.elts], None
    if isinstance(v, ast.Call) and isinstance(v.func, ast.Name):
        cls = folder.fold(v.func, {}, v)
        if isinstance(cls, NTClass):
            flds = list(cls.fields)
            elts = [None] * len(flds)
            for i, a in enumerate(v.args):
                if i < len(flds):
                    elts[i] = a
            for k in v.keywords:
                if k.arg in flds:
                    elts[flds.index(k.arg)] = k.value
            if all(e is not None for e in elts):
                return elts, flds
    return None, None


def _table_rows(prog, value, folder=None):
    """rows of a dispatch table expression: {const: row} or OrderedDict/dict(((const, row), ...)); a row is a tuple of
    references or a namedtuple of references"""
    folder = folder or Folder(prog)
    pairs = None
    if isinstance(value, ast.Dict) and value.keys:
        pairs = list(zip(value.keys, value.values))
    elif isinstance(value, ast.Call) and (value.func.id if isinstance(value.func, ast.Name) else "") in ("OrderedDict", "dict") and len(value.args) == 1 \
            and isinstance(value.args[0], (ast.Tuple, ast.List)) and value.args[0].elts \
            and all(isinstance(e, ast.Tuple) and len(e.elts) == 2 for e in value.args[0].elts):
        pairs = [(e.elts[0], e.elts[1]) for e in value.args[0].elts]
    if not pairs:
        return None
    rows = []
    for k, v in pairs:
        if not isinstance(k, ast.Constant):
            return None
        elts, flds = _row_of(prog, folder, v)
        if elts is None:
            return None
        vals = []
        for e in elts:
            tg = prog.resolve_expr_fn(e, e)
            vals.append(tg[0] if tg else None)
        rows.append((k.value, Row(vals, flds)))
    return rows if any(isinstance(x, FunctionInfo) for _, r in rows for x in r.vals) else None


def _tables(prog, fi):
    """dispatch tables defined in fi or at module level of fi's module: name -> list of (key, [row values])"""
    out = {}
    for n in list(ast.walk(fi.node)) + list(fi.module.tree.body):
        if isinstance(n, ast.Assign):
            rows = _table_rows(prog, n.value)
            if rows:
                for t in n.targets:
                    if isinstance(t, ast.Name):
                        out[t.id] = rows
    return out


def _py_value(v):
    if isinstance(v, tuple) and v[0] == "ext" and v[1].startswith("ast.") and hasattr(ast, v[1][4:]):
        return getattr(ast, v[1][4:])
    return UNKNOWN


def rule_call_dispatch(prog, rep, tier, anchor="conformance.ground_truth"):
    """CALL (dispatch table): per table row, every call through a row variable binds, in the anchor and in the
    repository functions the row variables are passed to."""
    folder = Folder(prog)
    fi = prog.fn(anchor)
    tables = _tables(prog, fi)
    if not tables:
        raise AnalysisError("CALL: no dispatch table (dict literal of tuples of function references) in %s" % anchor)
    n_sites = [0]
    reported = set()
    effective = {}  # (fn qualname, var, callee, rowkey, option) -> {site ordinal: value}
    OPTION_FLAGS = ("emit_default_doc", "word_wrap", "docstring_format", "inline_types", "emit_as_kwonlyargs", "emit_call", "wrap_description")

    def analyse(fn, env, rowkey, depth, chain):
        """env: name -> row value for names bound in fn."""
        ordinal = {}
        calls = sorted((c for c in ast.walk(fn.node) if isinstance(c, ast.Call)), key=lambda c: (c.lineno, c.col_offset))
        fenv = {k: _py_value(v) for k, v in env.items() if not k.startswith("**") and not isinstance(v, Row) and _py_value(v) is not UNKNOWN}
        for k, v in env.items():
            if isinstance(v, Row) and v.fields:
                fenv[k] = NT(v.fields, [_py_value(x) for x in v.vals])

        def val_of(e):
            """(label, value) of an expression that denotes a row value: a row variable's field/element or an unpacked name"""
            if isinstance(e, ast.Name) and e.id in env:
                return e.id, env[e.id]
            if isinstance(e, ast.Attribute) and isinstance(e.value, ast.Name) and isinstance(env.get(e.value.id), Row):
                return e.attr, env[e.value.id].get(e.attr)
            if isinstance(e, ast.Subscript) and isinstance(e.value, ast.Name) and isinstance(env.get(e.value.id), Row) and isinstance(e.slice, ast.Constant) \
                    and isinstance(e.slice.value, int):
                return "%s[%d]" % (e.value.id, e.slice.value), env[e.value.id].get(e.slice.value)
            return None, None

        for c in calls:
            var, callee = val_of(c.func)
            if var is not None and not isinstance(callee, Row):
                ordinal[var] = ordinal.get(var, 0) + 1
                if not isinstance(callee, (FunctionInfo, ClassInfo)):
                    continue
                sg = sig_of(callee)
                n_pos, kws, star, sstar, note = _call_shape(prog, folder, c, fenv)
                n_sites[0] += 1
                inst = "%s: %s(...)#%d -> %s [row %r]" % (fn.qualname, var, ordinal[var], sg.name, rowkey)
                # effective value of each option flag at this site (explicit constant, else the callee's default)
                fenv2 = dict(fenv)
                fenv2.update({k_: FnVal(v_, {}) for k_, v_ in env.items() if isinstance(v_, FunctionInfo)})
                for k_, v_ in env.items():
                    if isinstance(v_, Row) and v_.fields:
                        fenv2[k_] = NT(v_.fields, [FnVal(x, {}) if isinstance(x, FunctionInfo) else _py_value(x) for x in v_.vals])
                defaults = {}
                a_ = callee.node.args if isinstance(callee, FunctionInfo) else None
                if a_ is not None:
                    pn_ = [x.arg for x in a_.args]
                    for nm_, d_ in zip(pn_[len(pn_) - len(a_.defaults):], a_.defaults):
                        defaults[nm_] = folder.fold(d_, {}, d_)
                for opt in OPTION_FLAGS:
                    if opt not in defaults:
                        continue
                    kwv = next((k.value for k in c.keywords if k.arg == opt), None)
                    val = folder.fold(kwv, fenv2, kwv) if kwv is not None else defaults[opt]
                    effective.setdefault((var, sg.name, rowkey, opt), {})[(fn.qualname, ordinal[var])] = (val, c)
                rs = sg.must_fail(n_pos, kws, star, sstar)
                if rs:
                    key = (fn.qualname, var, ordinal[var], sg.name)
                    if key not in reported:
                        reported.add(key)
                        rep.violation(Finding(
                            "CALL", fn.qualname, "%s(...)#%d->%s" % (var, ordinal[var], sg.name),
                            "for table row %r the call %s resolves to %s and cannot bind: %s (keywords supplied: %s)"
                            % (rowkey, src(c, 80), sg.name, "; ".join(rs), sorted(kws)), loc(prog, c)))
                elif sstar:
                    rep.ob("CALL", inst, "unresolved", loc(prog, c), note or "")
                else:
                    rep.holds("CALL", inst, loc(prog, c), "binds: %d positional, keywords %s" % (n_pos, sorted(kws)))
                continue
            if depth < 3:
                for t in prog.resolve_expr_fn(c.func, c):
                    if isinstance(t, FunctionInfo) and t is not fn:
                        a = t.node.args
                        names = [x.arg for x in a.posonlyargs + a.args + a.kwonlyargs]
                        sub = {}
                        # arguments already bound by functools.partial (directly or through a local bound once to it)
                        pe = c.func
                        if isinstance(pe, ast.Name):
                            pdefs = [n_.value for n_ in ast.walk(fn.node) if isinstance(n_, ast.Assign) and any(isinstance(t_, ast.Name) and t_.id == pe.id for t_ in n_.targets)]
                            pe = pdefs[0] if len(pdefs) == 1 else None
                        if isinstance(pe, ast.Call) and isinstance(pe.func, (ast.Name, ast.Attribute)) and prog.ext_name(pe.func, pe) == "functools.partial":
                            for i, arg in enumerate(pe.args[1:]):
                                lab, v_ = val_of(arg)
                                if lab is not None and v_ is not None and i < len(names):
                                    sub[names[i]] = v_
                            for k in pe.keywords:
                                lab, v_ = val_of(k.value) if k.arg else (None, None)
                                if k.arg and lab is not None and v_ is not None and k.arg in names:
                                    sub[k.arg] = v_
                        for i, arg in enumerate(c.args):
                            lab, v_ = val_of(arg)
                            if lab is not None and v_ is not None and i < len(names):
                                sub[names[i]] = v_
                        for k in c.keywords:
                            lab, v_ = val_of(k.value) if k.arg else (None, None)
                            if k.arg and lab is not None and v_ is not None:
                                if k.arg in names:
                                    sub[k.arg] = v_
                                elif a.kwarg is not None:
                                    sub.setdefault("**" + a.kwarg.arg, {})[k.arg] = v_
                            elif k.arg is None and isinstance(k.value, ast.Name) and ("**" + k.value.id) in env:
                                # f(**kwargs) forwarding a captured **kwargs
                                for kk, vv in env["**" + k.value.id].items():
                                    if kk in names:
                                        sub[kk] = vv
                        if sub:
                            analyse(t, sub, rowkey, depth + 1, chain + [fn.qualname])

    for tname, rows in tables.items():
        # every function of the module that unpacks a row of the table into variables is analysed with those variables
        n_unpack = 0
        for f in [x for x in fi.module.functions.values()]:
            bind_names = None
            row_vars = set()
            for n in ast.walk(f.node):
                if enclosing_fn(n) is not f:
                    continue
                tgt = None
                if isinstance(n, ast.Assign) and isinstance(n.value, ast.Subscript) and isinstance(n.value.value, ast.Name) and n.value.value.id == tname:
                    tgt = n.targets[0]
                elif isinstance(n, (ast.For, ast.comprehension)) and isinstance(n.iter, ast.Call) and isinstance(n.iter.func, ast.Attribute) and n.iter.func.attr == "items" \
                        and isinstance(n.iter.func.value, ast.Name) and n.iter.func.value.id == tname and isinstance(n.target, ast.Tuple) and len(n.target.elts) == 2:
                    tgt = n.target.elts[1]
                elif isinstance(n, (ast.For, ast.comprehension)) and isinstance(n.iter, ast.Call) and isinstance(n.iter.func, ast.Attribute) and n.iter.func.attr == "values" \
                        and isinstance(n.iter.func.value, ast.Name) and n.iter.func.value.id == tname:
                    tgt = n.target
                if isinstance(tgt, ast.Tuple) and all(isinstance(e, ast.Name) for e in tgt.elts):
                    names_ = [e.id for e in tgt.elts]
                    bind_names = names_ if bind_names is None else [a if a != "_" else b for a, b in zip(bind_names, names_)]
                elif isinstance(tgt, ast.Name):
                    row_vars.add(tgt.id)
            if bind_names is None and not row_vars:
                continue
            n_unpack += 1
            for key, row in rows:
                env0 = {rv: row for rv in row_vars}
                if bind_names is not None and len(row) == len(bind_names):
                    env0.update({nm: v for nm, v in zip(bind_names, row.vals) if nm != "_"})
                elif bind_names is not None and not row_vars:
                    continue
                analyse(f, env0, key, 0, [])
        if n_unpack == 0:
            raise AnalysisError("CALL: table %s in %s is never unpacked into variables" % (tname, anchor))
    # CALL-SIB: the sibling sites that emit the same row (create / append / replace branch) use the same option values
    seen_sib = set()
    for (var, callee_name, rowkey, opt), sites in sorted(effective.items(), key=lambda kv: str(kv[0])):
        vals = {repr(v) for v, _ in sites.values() if v is not UNKNOWN}
        if len(sites) < 2:
            continue
        fns_ = sorted({f_ for f_, _ in sites})
        fq = fns_[0] if len(fns_) == 1 else prog.owner_name(prog.fn(fns_[0])) if prog.has_fn(fns_[0]) else fns_[0]
        if len(vals) > 1:
            k_ = (var, callee_name, opt)
            if k_ in seen_sib:
                continue
            seen_sib.add(k_)
            c0 = sorted(sites.items())[0][1][1]
            rep.violation(Finding("CALL-SIB", fq, "option-disagreement:%s:%s" % (callee_name, opt),
                                  "for table row %r the %d call sites of %s (in %s) pass different values of %s (%s): a target created by one branch is rewritten by the "
                                  "other on the next run" % (rowkey, len(sites), callee_name, ", ".join(fns_), opt,
                                                             ", ".join("%s#%d=%s" % (o[0].split(".")[-1], o[1], v[0]) for o, v in sorted(sites.items()))), loc(prog, c0)))
        else:
            rep.holds("CALL-SIB", "%s: %s sites of %s agree on %s [row %r]" % (fq, len(sites), callee_name, opt, rowkey), "", "value %s" % (vals.pop() if vals else "unknown"))
    if n_sites[0] < 3:
        raise AnalysisError("CALL: only %d dispatch call sites found from %s" % (n_sites[0], anchor))


# ---------------------------------------------------------------------------- getattr(module, name)(...)
def rule_call_getattr(prog, rep, tier, anchors=("gen.gen",)):
    """CALL (getattr): `getattr(<repo module>, <name expr>)(...)` with the name folded over the finite domain of its
    free variables: CLI `choices=` of the parameter's option and booleans for lambda parameters."""
    folder = Folder(prog)
    model = cli_model(prog)
    choices = {}
    for sub, opts in model.items():
        for o in opts:
            if o.choices:
                choices.setdefault(o.dest, set()).update(o.choices)
    n = 0
    for q in anchors:
        fi0 = prog.fn(q)
        ordinal = 0
        for fi, c in sorted(((f_, c_) for f_ in prog.region(fi0) if f_.parent_fn is None for c_ in ast.walk(f_.node) if isinstance(c_, ast.Call)), key=lambda fc: (fc[1].lineno, fc[1].col_offset)):
            g = c.func
            if isinstance(g, ast.Name) and prog.lookup(g.id, c)[0] == "local":
                defs = [n2 for n2 in ast.walk(fi.node) if isinstance(n2, ast.Assign) and any(isinstance(t, ast.Name) and t.id == g.id for t in n2.targets)]
                if len(defs) == 1:
                    g = defs[0].value
            if not (isinstance(g, ast.Call) and isinstance(g.func, ast.Name) and g.func.id == "getattr" and len(g.args) >= 2):
                continue
            b = prog.lookup(g.args[0].id, g) if isinstance(g.args[0], ast.Name) else None
            if not b or b[0] != "module":
                continue
            ordinal += 1
            free = {nm.id for nm in ast.walk(c) if isinstance(nm, ast.Name)} | {nm.id for nm in ast.walk(g) if isinstance(nm, ast.Name)}
            for nm in list(free):
                if prog.lookup(nm, c)[0] == "local":
                    for d in [n2 for n2 in ast.walk(fi.node) if isinstance(n2, ast.Assign) and any(isinstance(t, ast.Name) and t.id == nm for t in n2.targets)]:
                        free |= {x.id for x in ast.walk(d.value) if isinstance(x, ast.Name)}
            dom = {}
            for v in sorted(free):
                bb = prog.lookup(v, c)
                if bb[0] == "param" and isinstance(bb[1], (ast.FunctionDef, ast.AsyncFunctionDef)) and v in choices:
                    dom[v] = sorted(choices[v])
                elif bb[0] == "local" and v in {x.id for x in ast.walk(g.args[1]) if isinstance(x, ast.Name)} | {x.id for x in ast.walk(c) if isinstance(x, ast.Name)} and _is_bool_switch(fi.node, v):
                    dom[v] = [True, False]
                elif bb[0] == "param" and isinstance(bb[1], ast.Lambda) and v in {x.id for x in ast.walk(g.args[1]) if isinstance(x, ast.Name)} | \
                        {x.id for k in c.keywords if k.arg is None for t in ast.walk(k.value) if isinstance(t, ast.IfExp) for x in ast.walk(t.test) if isinstance(x, ast.Name)}:
                    # a lambda parameter used as a switch in the name / kwargs expression
                    if _used_only_as_test(c, v):
                        dom[v] = [True, False]
            envs = [{}]
            for v, vals in dom.items():
                envs = [dict(e, **{v: x}) for e in envs for x in vals]
            for env in envs:
                tgt = folder.fold(g, env, c)
                n += 1
                inst = "%s getattr-call#%d %s" % (q, ordinal, env)
                if not isinstance(tgt, ModAttr):
                    rep.ob("CALL", inst, "unresolved", loc(prog, c), "name does not fold: %s" % src(g.args[1], 60))
                    continue
                m = prog.modules[tgt.module]
                bnd = m.env.get(tgt.attr)
                if bnd is None or bnd[0] != "func":
                    rep.violation(Finding("CALL", q, "getattr#%d:%s.%s" % (ordinal, tgt.module, tgt.attr),
                                          "for %s the name folds to %s.%s, which is not a function of that module" % (env, tgt.module, tgt.attr), loc(prog, c)))
                    continue
                sg = Sig(bnd[1])
                n_pos, kws, star, sstar, note = _call_shape(prog, folder, c, env)
                rs = sg.must_fail(n_pos, kws, star, sstar)
                if rs:
                    rep.violation(Finding(
                        "CALL", q, "getattr#%d->%s" % (ordinal, sg.name),
                        "for %s the call resolves to %s and cannot bind: %s (keywords supplied: %s)" % (env, sg.name, "; ".join(rs), sorted(kws)), loc(prog, c)))
                elif sstar:
                    rep.ob("CALL", inst, "unresolved", loc(prog, c), note or "")
                else:
                    rep.holds("CALL", inst + " -> " + sg.name, loc(prog, c), "binds: %d positional, keywords %s" % (n_pos, sorted(kws)))
    if n < 3:
        raise AnalysisError("CALL: only %d getattr-dispatch instances found in %s" % (n, anchors))


def _is_bool_switch(fn_node, name):
    """a local assigned once from a boolean expression (isinstance/or/and/comparison) and used only as a test"""
    defs = [n for n in ast.walk(fn_node) if isinstance(n, ast.Assign) and any(isinstance(t, ast.Name) and t.id == name for t in n.targets)]
    if len(defs) != 1:
        return False
    v = defs[0].value
    booly = isinstance(v, (ast.BoolOp, ast.Compare)) or (isinstance(v, ast.Call) and isinstance(v.func, ast.Name) and v.func.id in ("isinstance", "isfunction", "callable", "bool", "hasattr"))
    return booly and _used_only_as_test(fn_node, name)


def _used_only_as_test(root, name):
    for n in ast.walk(root):
        if isinstance(n, ast.Name) and n.id == name and isinstance(n.ctx, ast.Load):
            p = n._parent
            if not ((isinstance(p, (ast.IfExp, ast.If)) and p.test is n) or (isinstance(p, ast.UnaryOp) and isinstance(p.op, ast.Not))):
                return False
    return True
