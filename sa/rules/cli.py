"""
CLI model extracted from `__main__._build_parser` and the CLI-1 rule (dest <-> worker signature).
"""
import ast

from sa.consteval import UNKNOWN, Folder
from sa.model import AnalysisError, Finding, FunctionInfo, kwarg, loc, src


class Option(object):
    def __init__(self, sub, flags, dest, action, required, default, choices, call):
        self.sub, self.flags, self.dest, self.action = sub, flags, dest, action
        self.required, self.default, self.choices, self.call = required, default, choices, call

    @property
    def nullable(self):
        return (not self.required) and self.default is None and self.action in (None, "store", "append")

    def __repr__(self):
        return "<opt %s.%s%s>" % (self.sub, self.dest, "?" if self.nullable else "")


def cli_model(prog):
    return prog.memo("cli.model", lambda: _cli_model(prog))


def _cli_model(prog):
    fi = prog.fn_role("__main__._build_parser", "build_parser")
    folder = Folder(prog)
    subs = {}  # var name -> sub-command name
    nodes = [n_ for f_ in prog.region(fi) for n_ in ast.walk(f_.node)]
    for n in nodes:
        if isinstance(n, ast.Assign) and isinstance(n.value, ast.Call) and isinstance(n.value.func, ast.Attribute) \
                and n.value.func.attr == "add_parser" and n.value.args:
            nm = folder.fold(n.value.args[0], {}, n.value)
            if isinstance(nm, str):
                for t in n.targets:
                    if isinstance(t, ast.Name):
                        subs[t.id] = nm
    model = {nm: [] for nm in subs.values()}
    for n in nodes:
        if isinstance(n, ast.Call) and isinstance(n.func, ast.Attribute) and n.func.attr == "add_argument" \
                and isinstance(n.func.value, ast.Name) and n.func.value.id in subs:
            sub = subs[n.func.value.id]
            flags = [folder.fold(a, {}, n) for a in n.args]
            flags = [f for f in flags if isinstance(f, str)]
            if not flags:
                raise AnalysisError("CLI model: add_argument without constant flags: %s" % src(n))
            kw = {k.arg: k.value for k in n.keywords if k.arg}

            def cv(name):
                if name not in kw:
                    return None
                v = folder.fold(kw[name], {}, n)
                return None if v is UNKNOWN else v

            dest = cv("dest")
            if dest is None:
                longs = [f for f in flags if f.startswith("--")]
                base = longs[0] if longs else flags[0]
                dest = base.lstrip("-").replace("-", "_")
            action = cv("action")
            required = bool(cv("required"))
            if not flags[0].startswith("-"):
                required = True
            default = cv("default")
            if action == "store_true":
                default = False
            if action == "store_false":
                default = True
            model[sub].append(Option(sub, flags, dest, action, required, default, cv("choices"), n))
    if len(model) < 3 or any(len(v) == 0 for v in model.values()):
        raise AnalysisError("CLI model: expected three sub-commands with options, found %r" % {k: len(v) for k, v in model.items()})
    return model


def rule_cli1(prog, rep, tier, anchor="__main__.main"):
    """CLI-1: where main() calls a worker with **<all dests>, dests(sub) are parameters of the worker and every
    required parameter of the worker is a dest."""
    model = cli_model(prog)
    fi = prog.inl(prog.fn(anchor))
    n = 0
    for call in ast.walk(fi.node):
        if not isinstance(call, ast.Call):
            continue
        if not any(k.arg is None for k in call.keywords):
            continue
        tgts = [t for t in prog.resolve_expr_fn(call.func, call) if isinstance(t, FunctionInfo)]
        if not tgts or tgts[0].module.name == "__main__":
            continue
        worker = tgts[0]
        # which sub-command?  the enclosing `if command == "<sub>"`
        sub = None
        p = call
        while getattr(p, "_parent", None) is not None:
            par = p._parent
            if isinstance(par, ast.If) and isinstance(par.test, ast.Compare) and len(par.test.ops) == 1 and isinstance(par.test.ops[0], ast.Eq) \
                    and isinstance(par.test.comparators[0], ast.Constant) and par.test.comparators[0].value in model and any(p is s for s in par.body):
                sub = par.test.comparators[0].value
                break
            p = par
        if sub is None:
            continue
        n += 1
        dests = {o.dest for o in model[sub]}
        a = worker.node.args
        names = [x.arg for x in a.args + a.kwonlyargs]
        n_def = len(a.defaults)
        required = set(names[: len(a.args) - n_def]) | {x.arg for x, d in zip(a.kwonlyargs, a.kw_defaults) if d is None}
        extra = dests - set(names) if a.kwarg is None else set()
        missing = required - dests - {k.arg for k in call.keywords if k.arg}
        if extra or missing:
            rep.violation(Finding(
                "CLI-1", anchor, "dests-vs-%s" % worker.qualname,
                "sub-command %s: %s(**args) cannot bind: options without a parameter %s; required parameters without an option %s"
                % (sub, worker.qualname, sorted(extra), sorted(missing)), loc(prog, call)))
        else:
            rep.holds("CLI-1", "%s: %d dests bind to %s%s" % (sub, len(dests), worker.qualname, tuple(names)), loc(prog, call), "")
    if n == 0:
        raise AnalysisError("CLI-1: main() calls no worker with **args")
