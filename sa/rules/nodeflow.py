"""
NODEFLOW: a small abstract interpreter that answers one question about a function that post-processes a parameter record:
"can the value stored under the key 'default' still be a syntax node (`ast.AST`) when the function returns?"

Abstract state.  The *holders* of a value are the record's key (`X["default"]` / `X.get("default")`, written KEY) and local names.
Holders that were assigned from one another hold the same value: they share a *group*; each group has one bit, may-be-node.
Branch conditions refine the bit of the group of the holder they test (`isinstance(h, str)`, `isinstance(h, AST)` false,
`h in none_types`, `h == NoneStr`, a package predicate whose body says one of these); assignments move a holder to another
group (`h = other`), or to a fresh group whose bit depends on what is assigned: a conversion (`get_value`, `literal_eval`,
`to_code`, formatting, `str`), a constant, any computed expression -> not a node; a call of a package function -> that function
is interpreted with its parameters bound to the groups of the arguments (depth-bounded), the result is whatever it returns on
each of its paths; a call of an unknown function with a may-be-node argument -> may be a node.

Control flow is interpreted structurally (if / try / with / for / while / break / continue / return, short-circuit `and`/`or`/`not`,
conditional expressions); a loop over a constant table of functions (`for applies, convert in TABLE`) is unrolled with the loop
names bound to the table's entries; other loops run to a fixpoint (the state space is finite).  States are sets, so the analysis is
path-sensitive where it matters: the handler of `try: d = literal_eval(d)` starts from the state before the assignment.
"""
import ast

from sa.model import FunctionInfo, src

KEY = "\0default"
PLAIN_TYPES = {"str", "int", "float", "bool", "complex", "bytes", "NoneType", "dict", "list", "tuple", "set", "frozenset"}
AST_KIND_NAMES = {"AST", "expr", "UnaryOp", "BinOp", "Call", "Name", "Attribute", "Tuple", "List", "Dict", "Set", "Subscript", "Lambda", "Str", "Num", "Constant", "NameConstant",
                  "Bytes", "JoinedStr", "stmt", "Expr"}
CONVERTERS = {"get_value", "literal_eval", "to_code", "parse_to_scalar", "format", "str", "repr", "unparse", "int", "float", "bool", "len", "type", "complex", "hash", "id",
              "isinstance", "hasattr", "join", "strip", "lstrip", "rstrip", "replace", "lower", "upper", "dump"}
MAX_DEPTH = 4
MAX_STATES = 4000


def is_key_read(e):
    if isinstance(e, ast.Subscript) and isinstance(e.slice, ast.Constant) and e.slice.value == "default":
        return True
    if isinstance(e, ast.Call) and isinstance(e.func, ast.Attribute) and e.func.attr == "get" and e.args and isinstance(e.args[0], ast.Constant) and e.args[0].value == "default":
        return True
    return False


class State(object):
    """holders: name -> group id; bits: group id -> may be a node; conds: name -> (expr, env) of a condition stored in a local;
    why: statement that last let a node through"""
    __slots__ = ("holders", "bits", "conds", "left_at", "trail")

    def __init__(self, holders, bits, conds=None, left_at=None, trail=()):
        self.holders, self.bits, self.conds, self.left_at, self.trail = dict(holders), dict(bits), dict(conds or {}), left_at, trail

    def copy(self):
        return State(self.holders, self.bits, self.conds, self.left_at, self.trail)

    def key(self):
        # canonical form: groups renamed by order of first holder
        ren, out = {}, []
        for h in sorted(self.holders):
            g = self.holders[h]
            ren.setdefault(g, len(ren))
            out.append((h, ren[g], self.bits[g]))
        return (tuple(out), tuple(sorted((k, id(v[0])) for k, v in self.conds.items())), self.trail)

    def fresh(self, bit):
        g = max(self.bits, default=0) + 1
        self.bits[g] = bit
        return g

    def may(self, holder):
        return self.bits[self.holders[holder]] if holder in self.holders else False

    def took(self, text):
        s = self.copy()
        if len(s.trail) < 8:
            s.trail = s.trail + (text,)
        return s


def dedupe(states):
    seen, out = set(), []
    for s in states:
        k = s.key()
        if k not in seen:
            seen.add(k)
            out.append(s)
    if len(out) > MAX_STATES:
        raise TooComplex("more than %d abstract states" % MAX_STATES)
    return out


class TooComplex(Exception):
    pass


class Outcome(object):
    def __init__(self):
        self.fall, self.brk, self.cont, self.ret = [], [], [], []  # ret: list of (state, value) where value = ("group", g) | ("plain",)


class Interp(object):
    def __init__(self, prog):
        self.prog = prog
        self.notes = []          # (kind, text): what was inlined / unrolled, for the evidence
        self.unknown = []        # constructs that were skipped conservatively

    # ------------------------------------------------------------------ values
    def holder_of(self, e, env):
        """the holder an expression denotes, or None"""
        if is_key_read(e):
            return KEY
        if isinstance(e, ast.Subscript) and isinstance(e.value, ast.Name) and isinstance(e.slice, ast.Constant) and isinstance(e.slice.value, int):
            return "%s[%d]" % (e.value.id, e.slice.value)  # an element of a `*args` tuple
        if isinstance(e, ast.Name):
            b = env.get(e.id)
            if isinstance(b, tuple) and b[0] == "holder":
                return b[1]
            if b is None:
                return e.id
        return None

    def value(self, e, st, env, depth):
        """list of (state, val): val = ("group", g) the value of that group; ("plain",) certainly no node; ("maybe",) unknown, may be a node"""
        h = self.holder_of(e, env)
        if h is not None and h in st.holders:
            return [(st, ("group", st.holders[h]))]
        if isinstance(e, (ast.Constant, ast.JoinedStr)):
            return [(st, ("plain",))]
        if isinstance(e, ast.IfExp):
            t, f = self.cond(e.test, st, env, depth)
            return [x for s in t for x in self.value(e.body, s, env, depth)] + [x for s in f for x in self.value(e.orelse, s, env, depth)]
        if isinstance(e, ast.BoolOp):
            out, cur = [], [st]
            for i, v in enumerate(e.values):
                last = i == len(e.values) - 1
                nxt = []
                for s in cur:
                    if last:
                        out += self.value(v, s, env, depth)
                        continue
                    t, f = self.cond(v, s, env, depth)
                    stop, go = (f, t) if isinstance(e.op, ast.And) else (t, f)
                    for s2 in stop:
                        out += self.value(v, s2, env, depth)
                    nxt += go
                cur = nxt
            return out
        if isinstance(e, ast.NamedExpr) and isinstance(e.target, ast.Name):
            out = []
            for s, v in self.value(e.value, st, env, depth):
                s = s.copy()
                self.bind(s, e.target.id, v, e)
                out.append((s, v))
            return out
        if isinstance(e, ast.Call):
            return self.call(e, st, env, depth)
        if isinstance(e, ast.Name) and e.id in env and isinstance(env[e.id], tuple) and env[e.id][0] == "expr":
            return self.value(env[e.id][1], st, {}, depth)
        # anything computed (subscripts, arithmetic, attribute reads, displays, comprehensions) is a new value, no syntax node handed through
        return [(st, ("plain",))]

    def call(self, c, st, env, depth):
        fname = getattr(c.func, "id", getattr(c.func, "attr", None))
        func = c.func
        if isinstance(func, ast.Name) and isinstance(env.get(func.id), tuple) and env[func.id][0] == "expr":
            func = env[func.id][1]
            fname = getattr(func, "id", getattr(func, "attr", None))
        args = list(c.args) + [k.value for k in c.keywords]
        arg_holders = [self.holder_of(a, env) for a in args]
        passes_node = any(h is not None and st.may(h) for h in arg_holders)
        if fname in CONVERTERS and not (isinstance(func, ast.Name) and self._package_fn(func, c)):
            return [(st, ("plain",))]
        target = self._package_fn(func, c)
        if target is not None and depth < MAX_DEPTH:
            return self.call_fn(target, c, st, env, depth)
        if not passes_node:
            return [(st, ("plain",))]
        if isinstance(func, ast.Attribute) and self.holder_of(func.value, env) is not None:
            return [(st, ("plain",))]  # a method of the value itself (str methods): the result is not the node
        self.unknown.append("call %s with a value that may be a node" % src(c, 50))
        return [(st, ("maybe",))]

    def _package_fn(self, func, at):
        if not isinstance(func, (ast.Name, ast.Attribute)):
            return None
        try:
            tg = [t for t in self.prog.resolve_expr_fn(func, func if getattr(func, "_parent", None) is not None else at) if isinstance(t, FunctionInfo)]
        except Exception:
            return None
        return tg[0] if len(tg) == 1 and isinstance(tg[0].node, (ast.FunctionDef, ast.AsyncFunctionDef)) else None

    def call_fn(self, fi, c, st, env, depth):
        """interpret the callee with its parameters bound to the caller's groups; KEY is shared (one record)"""
        params = fi.params()
        a = fi.node.args
        defaults = dict(zip([x.arg for x in a.args][len(a.args) - len(a.defaults):], a.defaults))
        defaults.update({k.arg: d for k, d in zip(a.kwonlyargs, a.kw_defaults) if d is not None})
        bound = dict(zip(params, c.args))
        bound.update({k.arg: k.value for k in c.keywords if k.arg in params})
        self.notes.append(("inlined", fi.qualname))
        results = []
        # evaluate arguments left to right in the caller
        cur = [(st, {})]
        for p in params:
            nxt = []
            for s, got in cur:
                if p in bound:
                    for s2, v in self.value(bound[p], s, env, depth):
                        nxt.append((s2, dict(got, **{p: v})))
                elif p in defaults:
                    nxt.append((s, dict(got, **{p: ("plain",)})))
                else:
                    nxt.append((s, dict(got, **{p: ("plain",)})))
            cur = nxt
        for s, got in cur:
            s = s.copy()
            saved = {h: g for h, g in s.holders.items() if h != KEY}
            callee_env = {}
            s.holders = {KEY: s.holders[KEY]} if KEY in s.holders else {}
            saved_conds, s.conds = s.conds, {}
            for p, v in got.items():
                self.bind(s, p, v, c)
                # a function-valued or condition-valued argument travels as an expression
                if p in bound and isinstance(bound[p], (ast.Name, ast.Attribute, ast.Lambda)) and self.holder_of(bound[p], env) not in st.holders:
                    e = bound[p]
                    if isinstance(e, ast.Name) and isinstance(env.get(e.id), tuple) and env[e.id][0] == "expr":
                        e = env[e.id][1]
                    callee_env[p] = ("expr", e)
                    s.holders.pop(p, None)
            out = self.block(fi.node.body, [s], callee_env, depth + 1)
            ends = list(out.ret) + [(x, ("plain",)) for x in out.fall]
            for s2, v in ends:
                s2 = s2.copy()
                # back in the caller: its own locals, the shared KEY
                key_g = s2.holders.get(KEY)
                s2.holders = dict(saved)
                if key_g is not None:
                    s2.holders[KEY] = key_g
                s2.conds = dict(saved_conds)
                results.append((s2, v))
        return results

    def bind(self, st, name, val, at):
        if val[0] == "group":
            st.holders[name] = val[1]
        elif val[0] == "maybe":
            st.holders[name] = st.fresh(True)
            st.left_at = at
        else:
            st.holders[name] = st.fresh(False)
        for k in [k for k, v in st.conds.items() if name in v[2]]:
            del st.conds[k]

    # ------------------------------------------------------------------ conditions
    def cond(self, e, st, env, depth):
        """(states where e is true, states where e is false)"""
        if isinstance(e, ast.UnaryOp) and isinstance(e.op, ast.Not):
            t, f = self.cond(e.operand, st, env, depth)
            return f, t
        if isinstance(e, ast.BoolOp):
            t_all, f_all, cur = [], [], [st]
            for v in e.values:
                nxt = []
                for s in cur:
                    t, f = self.cond(v, s, env, depth)
                    if isinstance(e.op, ast.And):
                        f_all += f
                        nxt += t
                    else:
                        t_all += t
                        nxt += f
                cur = nxt
            if isinstance(e.op, ast.And):
                t_all += cur
            else:
                f_all += cur
            return dedupe(t_all), dedupe(f_all)
        if isinstance(e, ast.Constant):
            return ([st], []) if e.value else ([], [st])
        if isinstance(e, ast.Name) and e.id in st.conds:
            ce, cenv, _ = st.conds[e.id]
            return self.cond(ce, st, cenv, depth)
        if isinstance(e, ast.Name) and isinstance(env.get(e.id), tuple) and env[e.id][0] == "expr":
            return self.cond(env[e.id][1], st, {}, depth)
        if isinstance(e, ast.Call) and isinstance(e.func, ast.Name) and e.func.id == "isinstance" and len(e.args) == 2 and e.func.id not in env:
            h = self.holder_of(e.args[0], env)
            if h is not None and h in st.holders:
                names = {x.id for x in ast.walk(e.args[1]) if isinstance(x, ast.Name)} | {x.attr for x in ast.walk(e.args[1]) if isinstance(x, ast.Attribute)}
                names -= {"ast"}
                t, f = st.took("%s is true" % src(e, 40)), st.took("%s is false" % src(e, 40))
                if names and names <= PLAIN_TYPES:
                    t.bits[t.holders[h]] = False
                if "AST" in names:
                    f.bits[f.holders[h]] = False
                if names and not (names & AST_KIND_NAMES) and not (names <= PLAIN_TYPES):
                    # some other class (a project type): a syntax node is none of them
                    t.bits[t.holders[h]] = False
                # the value of an untested group that cannot be a node is never of a node kind
                if not st.may(h) and names and names <= AST_KIND_NAMES:
                    return [], [f]
                return [t], [f]
        if isinstance(e, ast.Compare) and len(e.ops) == 1:
            hl, hr = self.holder_of(e.left, env), self.holder_of(e.comparators[0], env)
            h = hl if hl in st.holders else hr if hr in st.holders else None
            if h is not None and not (hl in st.holders and hr in st.holders):
                t, f = st.took("%s is true" % src(e, 40)), st.took("%s is false" % src(e, 40))
                other = e.comparators[0] if h == hl else e.left
                nodeish = any(isinstance(x, ast.Call) for x in ast.walk(other))  # compared with something built: says nothing
                if not nodeish:
                    if isinstance(e.ops[0], (ast.In, ast.Eq, ast.Is)) and (h == hl or not isinstance(e.ops[0], ast.In)):
                        t.bits[t.holders[h]] = False
                    elif isinstance(e.ops[0], (ast.NotIn, ast.NotEq, ast.IsNot)) and (h == hl or not isinstance(e.ops[0], ast.NotIn)):
                        f.bits[f.holders[h]] = False
                return [t], [f]
        if isinstance(e, ast.Call):
            func = e.func
            if isinstance(func, ast.Name) and isinstance(env.get(func.id), tuple) and env[func.id][0] == "expr":
                func = env[func.id][1]
            target = self._package_fn(func, e)
            args = list(e.args) + [k.value for k in e.keywords]
            if target is not None and depth < MAX_DEPTH and any(self.holder_of(a, env) in st.holders for a in args):
                # a package predicate applied to a holder: its verdict on each of its paths
                t_out, f_out = [], []
                proxy = ast.copy_location(ast.Call(func=func, args=e.args, keywords=e.keywords), e)
                for s2, v in self.call_fn_cond(target, proxy, st, env, depth):
                    (t_out if v else f_out).append(s2)
                return dedupe(t_out), dedupe(f_out)
        # a value used as a truth test, or a condition that says nothing about any holder
        outs = self.value(e, st, env, depth) if isinstance(e, (ast.Call, ast.IfExp, ast.NamedExpr)) else [(st, None)]
        ss = dedupe([s for s, _ in outs])
        return ss, [s.copy() for s in ss]

    def call_fn_cond(self, fi, c, st, env, depth):
        """like call_fn for a predicate: list of (caller state, truth) - each return expression of the callee is split as a condition"""
        params = fi.params()
        bound = dict(zip(params, c.args))
        bound.update({k.arg: k.value for k in c.keywords if k.arg in params})
        self.notes.append(("inlined predicate", fi.qualname))
        s = st.copy()
        saved = {h: g for h, g in s.holders.items() if h != KEY}
        saved_conds = s.conds
        s.holders = {KEY: s.holders[KEY]} if KEY in s.holders else {}
        s.conds = {}
        callee_env = {}
        for p in params:
            if p not in bound:
                s.holders[p] = s.fresh(False)
                continue
            h = self.holder_of(bound[p], env)
            if h is not None and h in st.holders:
                s.holders[p] = st.holders[h]
            else:
                s.holders[p] = s.fresh(False)
        self._ret_as_cond = getattr(self, "_ret_as_cond", 0) + 1
        try:
            out = self._block_pred(fi.node.body, [s], callee_env, depth + 1)
        finally:
            self._ret_as_cond -= 1
        results = []
        for s2, truth in out:
            s2 = s2.copy()
            # a refinement of a parameter's group is a refinement of the caller's holder: groups are shared ids
            key_g = s2.holders.get(KEY)
            s2.holders = dict(saved)
            if key_g is not None:
                s2.holders[KEY] = key_g
            s2.conds = dict(saved_conds)
            results.append((s2, truth))
        return results

    def _block_pred(self, stmts, states, env, depth):
        """run a predicate's body; every `return E` is split into E true / E false"""
        out = self.block(stmts, states, env, depth, ret_exprs=True)
        res = []
        for s, e, eenv in out.ret:
            if e is None:
                res.append((s, False))
                continue
            t, f = self.cond(e, s, eenv, depth)
            res += [(x, True) for x in t] + [(x, False) for x in f]
        res += [(s, False) for s in out.fall]
        return res

    # ------------------------------------------------------------------ statements
    def block(self, stmts, states, env, depth, ret_exprs=False):
        out = Outcome()
        cur = dedupe(states)
        for s_ in stmts:
            if not cur:
                break
            nxt = []
            for st in cur:
                o = self.stmt(s_, st, env, depth, ret_exprs)
                nxt += o.fall
                out.brk += o.brk
                out.cont += o.cont
                out.ret += o.ret
            cur = dedupe(nxt)
        out.fall = cur
        return out

    def assign(self, targets, value_expr, st, env, depth, at):
        res = []
        for s, v in self.value(value_expr, st, env, depth):
            s = s.copy()
            for t in targets:
                if is_key_read(t):
                    self.bind(s, KEY, v, at)
                    if v[0] == "group" and s.bits[v[1]]:
                        s.left_at = at
                elif isinstance(t, ast.Name):
                    self.bind(s, t.id, v, at)
                    # a condition kept in a local: remembered as an expression over the holders it mentions
                    if isinstance(value_expr, (ast.Compare, ast.BoolOp, ast.UnaryOp)) or (
                            isinstance(value_expr, ast.Call) and isinstance(value_expr.func, ast.Name) and value_expr.func.id == "isinstance"):
                        mentioned = {self.holder_of(x, env) for x in ast.walk(value_expr)} - {None}
                        s.conds[t.id] = (value_expr, dict(env), mentioned)
                elif isinstance(t, (ast.Tuple, ast.List)):
                    for x in ast.walk(t):
                        if isinstance(x, ast.Name):
                            self.bind(s, x.id, ("plain",), at)
            res.append(s)
        return res

    def stmt(self, s_, st, env, depth, ret_exprs):
        o = Outcome()
        if isinstance(s_, ast.Assign):
            o.fall = self.assign(s_.targets, s_.value, st, env, depth, s_)
        elif isinstance(s_, ast.AnnAssign) and s_.value is not None:
            o.fall = self.assign([s_.target], s_.value, st, env, depth, s_)
        elif isinstance(s_, ast.AugAssign):
            s = st.copy()
            h = self.holder_of(s_.target, env)
            if h is not None:
                self.bind(s, h, ("plain",), s_)
            o.fall = [s]
        elif isinstance(s_, ast.Expr):
            if isinstance(s_.value, ast.Call):
                c = s_.value
                # X.setdefault("default", v) / X.update(default=v): writes of the key
                if isinstance(c.func, ast.Attribute) and c.func.attr == "setdefault" and c.args and isinstance(c.args[0], ast.Constant) and c.args[0].value == "default":
                    o.fall = [st]
                else:
                    o.fall = dedupe([s for s, _ in self.value(c, st, env, depth)])
            else:
                o.fall = [st]
        elif isinstance(s_, ast.If):
            t, f = self.cond(s_.test, st, env, depth)
            for branch, ss in ((s_.body, t), (s_.orelse, f)):
                if not ss:
                    continue
                b = self.block(branch, ss, env, depth, ret_exprs)
                o.fall += b.fall
                o.brk += b.brk
                o.cont += b.cont
                o.ret += b.ret
        elif isinstance(s_, ast.Return):
            if ret_exprs:
                o.ret = [(st, s_.value, env)]
            elif s_.value is None:
                o.ret = [(st, ("plain",))]
            else:
                o.ret = list(self.value(s_.value, st, env, depth))
        elif isinstance(s_, ast.Raise):
            pass
        elif isinstance(s_, (ast.Pass, ast.Import, ast.ImportFrom, ast.Delete, ast.Global, ast.Nonlocal, ast.FunctionDef, ast.AsyncFunctionDef, ast.ClassDef, ast.Assert)):
            o.fall = [st]
        elif isinstance(s_, ast.Break):
            o.brk = [st]
        elif isinstance(s_, ast.Continue):
            o.cont = [st]
        elif isinstance(s_, ast.With):
            b = self.block(s_.body, [st], env, depth, ret_exprs)
            suppresses = any(isinstance(i.context_expr, ast.Call) and getattr(i.context_expr.func, "id", getattr(i.context_expr.func, "attr", "")) == "suppress" for i in s_.items)
            o.fall, o.brk, o.cont, o.ret = b.fall, b.brk, b.cont, b.ret
            if suppresses:
                o.fall = dedupe(o.fall + self._mid_states(s_.body, st, env, depth))
        elif isinstance(s_, ast.Try):
            b = self.block(s_.body, [st], env, depth, ret_exprs)
            o.brk, o.cont, o.ret = list(b.brk), list(b.cont), list(b.ret)
            after = []
            if s_.handlers:
                mids = self._mid_states(s_.body, st, env, depth)
                for h in s_.handlers:
                    hb = self.block(h.body, [m.took("%s is raised" % (src(h.type, 30) if h.type is not None else "an exception")) for m in mids], env, depth, ret_exprs)
                    after += hb.fall
                    o.brk += hb.brk
                    o.cont += hb.cont
                    o.ret += hb.ret
            eb = self.block(s_.orelse, b.fall, env, depth, ret_exprs) if s_.orelse else None
            if eb is not None:
                after += eb.fall
                o.brk += eb.brk
                o.cont += eb.cont
                o.ret += eb.ret
            else:
                after += b.fall
            if s_.finalbody:
                fb = self.block(s_.finalbody, after, env, depth, ret_exprs)
                after = fb.fall
                o.ret += fb.ret
            o.fall = dedupe(after)
        elif isinstance(s_, (ast.For, ast.AsyncFor)):
            table = self._constant_table(s_.iter, env)
            if table is not None and len(table) <= 12:
                self.notes.append(("unrolled", "%s over %d entries" % (src(s_.iter, 40), len(table))))
                cur, done = [st], []
                for item in table:
                    if not cur:
                        break
                    env2 = dict(env)
                    self._bind_loop(s_.target, item, env2, cur)
                    b = self.block(s_.body, cur, env2, depth, ret_exprs)
                    done += b.brk
                    o.ret += b.ret
                    cur = dedupe(b.fall + b.cont)
                if cur and s_.orelse:
                    eb = self.block(s_.orelse, cur, env, depth, ret_exprs)
                    cur = eb.fall
                    o.ret += eb.ret
                    o.brk += eb.brk
                    o.cont += eb.cont
                o.fall = dedupe(cur + done)
            else:
                o2 = self._loop(s_, st, env, depth, ret_exprs, cond=None)
                o.fall, o.ret = o2.fall, o2.ret
        elif isinstance(s_, ast.While):
            o2 = self._loop(s_, st, env, depth, ret_exprs, cond=s_.test)
            o.fall, o.ret = o2.fall, o2.ret
        else:
            self.unknown.append("statement %s" % src(s_, 40))
            o.fall = [st]
        return o

    def _mid_states(self, body, st, env, depth):
        """states in which an exception can leave the body: before each top-level statement (the failing statement has not assigned)"""
        mids, cur = [st], [st]
        for s_ in body[:-1]:
            b = self.block([s_], cur, env, depth)
            cur = b.fall
            mids += cur
        return dedupe(mids)

    def _loop(self, s_, st, env, depth, ret_exprs, cond):
        o = Outcome()
        seen, frontier, exits = {}, [st], []
        if not isinstance(s_, ast.While):
            for x in ast.walk(s_.target):
                if isinstance(x, ast.Name):
                    st = st.copy()
                    self.bind(st, x.id, ("plain",), s_)
            frontier = [st]
        rounds = 0
        while frontier:
            rounds += 1
            if rounds > 50:
                raise TooComplex("a loop does not reach a fixpoint")
            new = []
            for s in frontier:
                k = s.key()
                if k in seen:
                    continue
                seen[k] = s
                if cond is not None:
                    t, f = self.cond(cond, s, env, depth)
                    exits += f
                else:
                    t = [s]
                    exits.append(s)
                if not t:
                    continue
                b = self.block(s_.body, t, env, depth, ret_exprs)
                o.ret += b.ret
                o.brk += b.brk
                new += b.fall + b.cont
            frontier = dedupe(new)
        if s_.orelse:
            eb = self.block(s_.orelse, dedupe(exits), env, depth, ret_exprs)
            exits = eb.fall
            o.ret += eb.ret
        o.fall = dedupe(exits + o.brk)
        o.brk = []
        return o

    def _constant_table(self, it, env):
        """the entries of a display or module constant whose entries are (tuples of) function names / lambdas"""
        e = it
        if isinstance(e, ast.Name) and e.id not in env:
            try:
                b = self.prog.lookup(e.id, e)
            except Exception:
                return None
            if b[0] == "value":
                e = b[2]
        if isinstance(e, ast.Call) and isinstance(e.func, ast.Name) and e.func.id in ("tuple", "list", "iter", "frozenset") and len(e.args) == 1:
            return None if e.func.id == "frozenset" else self._constant_table(e.args[0], env)
        if not isinstance(e, (ast.Tuple, ast.List)):
            return None
        ok = all(isinstance(x, (ast.Name, ast.Attribute, ast.Lambda, ast.Constant)) or (isinstance(x, (ast.Tuple, ast.List)) and all(
            isinstance(y, (ast.Name, ast.Attribute, ast.Lambda, ast.Constant)) for y in x.elts)) for x in e.elts)
        return list(e.elts) if ok else None

    def _bind_loop(self, target, item, env, states):
        if isinstance(target, ast.Name):
            env[target.id] = ("expr", item)
            for s in states:
                s.holders.pop(target.id, None)
        elif isinstance(target, (ast.Tuple, ast.List)) and isinstance(item, (ast.Tuple, ast.List)) and len(target.elts) == len(item.elts):
            for t, x in zip(target.elts, item.elts):
                self._bind_loop(t, x, env, states)


def analyse(prog, fi):
    """run fi with KEY possibly holding a syntax node; returns (interp, list of end states)"""
    it = Interp(prog)
    st = State({KEY: 1}, {1: True})
    for p in fi.params():
        st.holders[p] = st.fresh(False)
    out = it.block(fi.node.body, [st], {}, 0)
    ends = [s for s, _ in out.ret] + out.fall
    return it, ends


def may_return_param(prog, fi, index=0):
    """True when some path of fi returns the very value it received as its parameter number `index` (an identity path: `return s`
    after `s = s if ... else ...`); None when fi could not be followed"""
    a = fi.node.args
    positional = [x.arg for x in getattr(a, "posonlyargs", [])] + [x.arg for x in a.args]
    it = Interp(prog)
    st = State({}, {})
    for p in fi.params():
        st.holders[p] = st.fresh(False)
    if index < len(positional):
        g = st.holders[positional[index]] = st.fresh(True)
    elif a.vararg is not None:
        # `def identity(*args): return args[0] if len(args) == 1 else args`
        g = st.holders["%s[%d]" % (a.vararg.arg, index - len(positional))] = st.fresh(True)
    else:
        return False
    try:
        out = it.block(fi.node.body, [st], {}, 0)
    except (TooComplex, RecursionError):
        return None
    return any(v == ("group", g) for _, v in out.ret)
