"""
DET family: no source of nondeterminism reaches output (DESIGN.md section 3 "DET").
DET-1 unordered iteration with an order-sensitive effect; DET-2 volatile sources; DET-3 state surviving a call.
"""
import ast

from sa.model import AnalysisError, ClassInfo, Finding, FunctionInfo, enclosing_fn, loc, names_in, src

SET_OPS = (ast.BitAnd, ast.BitOr, ast.Sub, ast.BitXor)
ORDER_INSENSITIVE_CONSUMERS = {"set", "frozenset", "sorted", "len", "any", "all", "sum", "bool", "min", "max", "isinstance"}
OBSERVING_CALLS = {"map", "filter", "list", "tuple", "enumerate", "zip", "iter", "next", "chain", "OrderedDict", "dict",
                   "deque", "reversed", "from_iterable", "islice", "cycle", "takewhile", "dropwhile", "starmap", "join", "extend", "update"}
VOLATILE = {
    "builtins.id", "builtins.hash", "os.getpid", "os.getppid", "os.urandom", "os.times", "os.getcwd",
    "os.listdir", "os.scandir", "os.walk", "glob.glob", "glob.iglob", "socket.gethostname", "platform.node",
}
VOLATILE_PREFIX = ("time.", "random.", "uuid.", "datetime.", "secrets.", "tempfile.")
MEMO_DECORATORS = {"functools.lru_cache", "functools.cache", "functools.cached_property"}
MUTATORS = {"append", "extend", "insert", "update", "add", "pop", "popitem", "remove", "discard", "clear", "setdefault", "sort", "reverse", "appendleft"}


def _is_view_call(e):
    return isinstance(e, ast.Call) and isinstance(e.func, ast.Attribute) and e.func.attr in ("keys", "items") and not e.args


class Unordered(object):
    """Which expressions of the program are unordered collections (sets, set algebra on dict views, and names /
    parameters / instance attributes that only ever receive such values)."""

    def __init__(self, prog):
        self.prog = prog
        self.params = set()  # (id(fn_node), name)
        self.attrs = set()  # (class qualname, attr)
        self._ret_memo, self._ret_busy = {}, set()
        self._fix()

    def is_unordered(self, e, depth=0):
        prog = self.prog
        if depth > 6:
            return False
        if isinstance(e, (ast.Set, ast.SetComp)):
            return True
        if isinstance(e, ast.Call):
            en = prog.ext_name(e.func, e) if isinstance(e.func, (ast.Name, ast.Attribute)) else None
            if en in ("builtins.set", "builtins.frozenset"):
                return True
            if isinstance(e.func, ast.Attribute) and e.func.attr in ("union", "intersection", "difference", "symmetric_difference", "copy") \
                    and self.is_unordered(e.func.value, depth + 1):
                return True
            # a function of the package some of whose paths return an unordered collection (e.g. a "default table"
            # helper that hands out a frozenset constant unless the caller supplied a sequence)
            if isinstance(e.func, (ast.Name, ast.Attribute)) and depth < 4:
                for t in prog.resolve_expr_fn(e.func, e):
                    if isinstance(t, FunctionInfo) and isinstance(t.node, ast.FunctionDef):
                        key = id(t.node)
                        if key in self._ret_busy:
                            continue
                        if key not in self._ret_memo:
                            self._ret_busy.add(key)
                            try:
                                self._ret_memo[key] = any(isinstance(r, ast.Return) and r.value is not None and enclosing_fn(r) is t and self.is_unordered(r.value, depth + 1)
                                                          for r in ast.walk(t.node))
                            finally:
                                self._ret_busy.discard(key)
                        if self._ret_memo[key]:
                            return True
            return False
        if isinstance(e, ast.BinOp) and isinstance(e.op, SET_OPS):
            l, r = e.left, e.right
            if self.is_unordered(l, depth + 1) or self.is_unordered(r, depth + 1):
                return True
            if _is_view_call(l) or _is_view_call(r):
                return True
            return False
        if isinstance(e, ast.IfExp):
            return self.is_unordered(e.body, depth + 1) or self.is_unordered(e.orelse, depth + 1)
        if isinstance(e, ast.Name) and isinstance(e.ctx, ast.Load):
            b = prog.lookup(e.id, e)
            if b[0] == "param":
                return (id(b[1]), e.id) in self.params
            if b[0] == "local":
                defs = _defs_of(b[1], e.id)
                if bool(defs) and all(d is not None and self.is_unordered(d, depth + 1) for d in defs):
                    return True
                # some binding is ordered: what matters is which bindings can still be in force at this use.  `lines = map(..)` followed by
                # `if cond: lines = frozenset(lines) - seen` leaves a set in `lines` on one path; `xs = set(..)` followed by `xs = sorted(xs)` does not.
                reach = _reaching_defs(b[1], e.id, e)
                return reach is not None and any(d is not None and self.is_unordered(d, depth + 1) for d in reach)
            if b[0] == "value":
                return self.is_unordered(b[2], depth + 1)
            return False
        if isinstance(e, ast.Attribute) and isinstance(e.value, ast.Name) and e.value.id == "self":
            fn = enclosing_fn(e)
            if fn is not None and fn.cls is not None:
                return (fn.cls.qualname, e.attr) in self.attrs
        return False

    def _fix(self):
        prog = self.prog
        changed = True
        rounds = 0
        while changed and rounds < 6:
            changed = False
            rounds += 1
            for call in prog.all_calls():
                tg = [t for t in prog.resolve_expr_fn(call.func, call) if isinstance(t, (FunctionInfo, ClassInfo))]
                if len(tg) != 1:
                    continue
                t = tg[0]
                fn = t.methods.get("__init__") if isinstance(t, ClassInfo) else t
                if fn is None:
                    continue
                a = fn.node.args
                names = [x.arg for x in a.posonlyargs + a.args]
                if fn.cls is not None and names and names[0] in ("self", "cls"):
                    names = names[1:]
                pairs = [(names[i], arg) for i, arg in enumerate(call.args) if i < len(names) and not isinstance(arg, ast.Starred)]
                pairs += [(k.arg, k.value) for k in call.keywords if k.arg]
                for pn, arg in pairs:
                    if self.is_unordered(arg) and (id(fn.node), pn) not in self.params:
                        self.params.add((id(fn.node), pn))
                        changed = True
            for f in prog.all_functions():
                if f.cls is None:
                    continue
                for n in ast.walk(f.node):
                    if isinstance(n, ast.Assign) and len(n.targets) == 1 and isinstance(n.targets[0], ast.Attribute) \
                            and isinstance(n.targets[0].value, ast.Name) and n.targets[0].value.id == "self":
                        if self.is_unordered(n.value) and (f.cls.qualname, n.targets[0].attr) not in self.attrs:
                            self.attrs.add((f.cls.qualname, n.targets[0].attr))
                            changed = True


def _defs_of(scope_node, name):
    """value expressions assigned to local `name` in scope (None for a definition we cannot see through)."""
    out = []
    for n in ast.walk(scope_node):
        if isinstance(n, ast.Assign):
            for t in n.targets:
                if isinstance(t, ast.Name) and t.id == name:
                    out.append(n.value)
                elif isinstance(t, (ast.Tuple, ast.List)) and name in names_in(t):
                    out.append(None)
        elif isinstance(n, ast.AugAssign) and isinstance(n.target, ast.Name) and n.target.id == name:
            out.append(n.value if isinstance(n.op, SET_OPS) else None)
        elif isinstance(n, (ast.For, ast.comprehension)) and name in names_in(n.target):
            out.append(None)
        elif isinstance(n, ast.withitem) and n.optional_vars is not None and name in names_in(n.optional_vars):
            out.append(None)
        elif isinstance(n, ast.NamedExpr) and n.target.id == name:
            out.append(n.value)
    return out


def fi_node_of(e):
    p = getattr(e, "_parent", None)
    while p is not None and not isinstance(p, (ast.FunctionDef, ast.AsyncFunctionDef)):
        p = getattr(p, "_parent", None)
    return p


def _at_most_one_element(e, fn_node):
    """a condition on the way to `e` (a name) says `len(e) == 1` / `<= 1` / `< 2` (or the negation of `!= 1` / `> 1` / `>= 2`, as left behind by
    `if len(x) != 1 or ..: raise`): a collection of one element has no iteration order"""
    if not isinstance(e, ast.Name) or fn_node is None:
        return False
    from sa.cfg import expr_guards, facts
    for t, pol in expr_guards(e, stop=fn_node):
        for atom, p_ in facts(t, pol):
            if not (isinstance(atom, ast.Compare) and len(atom.ops) == 1 and isinstance(atom.left, ast.Call) and isinstance(atom.left.func, ast.Name)
                    and atom.left.func.id == "len" and atom.left.args and isinstance(atom.left.args[0], ast.Name) and atom.left.args[0].id == e.id
                    and isinstance(atom.comparators[0], ast.Constant) and isinstance(atom.comparators[0].value, int)):
                continue
            op, k = atom.ops[0], atom.comparators[0].value
            if p_ and ((isinstance(op, ast.Eq) and k in (0, 1)) or (isinstance(op, ast.LtE) and k <= 1) or (isinstance(op, ast.Lt) and k <= 2)):
                return True
            if not p_ and ((isinstance(op, ast.NotEq) and k in (0, 1)) or (isinstance(op, ast.Gt) and k <= 1) or (isinstance(op, ast.GtE) and k <= 2)):
                return True
    return False


def _reaching_defs(scope_node, name, use):
    """The value expressions of the plain assignments `name = <expr>` that can be in force at `use` (None entries for bindings we
    cannot see through); None when the question is not decided here (the name is bound by a loop / with / tuple target, or a
    loop encloses the use together with one of its bindings - then everything may reach, which the caller has handled already).
    A binding is out of force when a later plain assignment, standing in a block that encloses the use, precedes the use."""
    binds = []
    for n in ast.walk(scope_node):
        if isinstance(n, ast.Assign) and any(isinstance(t, ast.Name) and t.id == name for t in n.targets):
            binds.append(n)
        elif isinstance(n, ast.Assign) and any(isinstance(t, (ast.Tuple, ast.List)) and name in names_in(t) for t in n.targets):
            return None
        elif isinstance(n, ast.AugAssign) and isinstance(n.target, ast.Name) and n.target.id == name:
            return None
        elif isinstance(n, (ast.For, ast.comprehension)) and name in names_in(n.target):
            return None
        elif isinstance(n, ast.withitem) and n.optional_vars is not None and name in names_in(n.optional_vars):
            return None
        elif isinstance(n, ast.NamedExpr) and n.target.id == name:
            return None
    if not binds:
        return None

    def chain(x):
        out, p = [], x
        while p is not None and p is not scope_node:
            out.append(p)
            p = getattr(p, "_parent", None)
        return out
    use_chain = chain(use)
    use_ids = {id(x) for x in use_chain}
    if any(isinstance(x, (ast.For, ast.While, ast.AsyncFor)) and any(id(x) in {id(y) for y in chain(b)} for b in binds) for x in use_chain):
        return None

    def pos(x):
        return (getattr(x, "lineno", 0), getattr(x, "col_offset", 0))
    use_stmt = next((x for x in use_chain if isinstance(x, ast.stmt)), None)
    if use_stmt is None:
        return None
    before = [b for b in binds if pos(b) < pos(use_stmt) or (b is use_stmt and False)]
    # the binding that certainly ran last before the use: it stands in a block that encloses the use
    dominating = []
    for b in before:
        par = getattr(b, "_parent", None)
        if par is scope_node or id(par) in use_ids:
            # same block as (an ancestor of) the use - but not in the other arm of the same `if` / `try`
            for fld in ("body", "orelse", "finalbody", "handlers"):
                blk = getattr(par, fld, None)
                if isinstance(blk, list) and any(x is b for x in blk) and any(id(x) in use_ids for x in blk):
                    dominating.append(b)
    killer = max(dominating, key=pos) if dominating else None
    reach = [b for b in before if killer is None or pos(b) >= pos(killer)]
    if killer is None and not any(pos(b) < pos(use_stmt) for b in binds):
        return None
    return [b.value for b in reach]


def _consumer_chain_insensitive(e):
    """Walk up from expression e: does an order-insensitive consumer swallow it before it escapes?"""
    child, p = e, getattr(e, "_parent", None)
    while p is not None and not isinstance(p, ast.stmt):
        if isinstance(p, ast.Call):
            nm = p.func.id if isinstance(p.func, ast.Name) else (p.func.attr if isinstance(p.func, ast.Attribute) else None)
            if child is not p.func and nm in ORDER_INSENSITIVE_CONSUMERS:
                return True
        if isinstance(p, ast.Compare) and child is not p.left and any(isinstance(o, (ast.In, ast.NotIn)) for o in p.ops):
            return True
        if isinstance(p, ast.Compare) and all(isinstance(o, (ast.Eq, ast.NotEq, ast.LtE, ast.GtE, ast.Lt, ast.Gt)) for o in p.ops):
            return True
        if isinstance(p, (ast.SetComp,)):
            return True
        if isinstance(p, ast.BinOp) and isinstance(p.op, SET_OPS):
            return False if False else _consumer_chain_insensitive(p)
        if isinstance(p, (ast.BoolOp, ast.UnaryOp)) and not isinstance(p, ast.BoolOp):
            return True
        child, p = p, getattr(p, "_parent", None)
    if isinstance(p, (ast.If, ast.While, ast.Assert)) and child is p.test:
        return True
    return False


def _loop_effects(loop, var_names):
    """Order-sensitive effects of a `for` body whose target names are var_names:
    list of (kind, node).  kind: insert (M[k] = v, k from loop var, depth-1 subscript), seq (append/extend/+=/yield/write/print)."""
    out = []
    for n in ast.walk(loop):
        if n is loop:
            continue
        if isinstance(n, ast.Assign):
            for t in n.targets:
                if isinstance(t, ast.Subscript) and not isinstance(t.value, ast.Subscript) and names_in(t.slice) & var_names:
                    out.append(("insert", n))
        elif isinstance(n, ast.AugAssign) and isinstance(n.op, ast.Add) and not isinstance(n.value, ast.Constant) or \
                (isinstance(n, ast.AugAssign) and isinstance(n.op, ast.Add) and isinstance(n.value, ast.Constant) and isinstance(n.value.value, str)):
            out.append(("seq", n))
        elif isinstance(n, (ast.Yield, ast.YieldFrom)):
            out.append(("seq", n))
        elif isinstance(n, ast.Call):
            if isinstance(n.func, ast.Attribute) and n.func.attr in ("append", "extend", "insert", "write", "writelines", "appendleft", "setdefault", "move_to_end"):
                if n.func.attr in ("setdefault", "move_to_end") and not (n.args and names_in(n.args[0]) & var_names):
                    continue
                out.append(("seq" if n.func.attr not in ("setdefault",) else "insert", n))
            elif isinstance(n.func, ast.Name) and n.func.id in ("print", "setitem"):
                out.append(("seq", n))
            elif isinstance(n.func, ast.Attribute) and n.func.attr == "update" and any(names_in(a) & var_names for a in n.args):
                out.append(("insert", n))
        elif isinstance(n, ast.Return) and n.value is not None and names_in(n.value) & var_names:
            out.append(("seq", n))
    return out


def rule_det1(prog, rep, tier, scope=None, accepted=None):
    """DET-1: no iteration order of an unordered collection reaches an ordered result.
    scope: iterable of FunctionInfo to restrict to (None = whole package).
    accepted: {(where, construct): reason} single-construct exceptions."""
    accepted = accepted or {}
    U = prog.memo("det.unordered", lambda: Unordered(prog))
    scope_ids = None if scope is None else {id(f.node) for f in scope}
    n_unordered = 0
    n_observing = 0
    ordinals = {}
    for m in prog.modules.values():
        for e in ast.walk(m.tree):
            if not isinstance(e, ast.expr) or not U.is_unordered(e):
                continue
            fn = enclosing_fn(e)
            if scope_ids is not None and (fn is None or id(fn.node) not in scope_ids):
                continue
            p = getattr(e, "_parent", None)
            if isinstance(p, ast.BinOp) and isinstance(p.op, SET_OPS) and U.is_unordered(p):
                continue  # judged at the enclosing set expression
            n_unordered += 1
            where = fn.qualname if fn else m.name
            observing, effect = None, None
            effect_class = None
            if isinstance(p, ast.For) and p.iter is e:
                vn = names_in(p.target)
                eff = _loop_effects(p, vn)
                observing = "for %s in %s" % (src(p.target), src(e, 60))
                if eff:
                    effect = "%s: %s" % (eff[0][0], src(eff[0][1], 80))
                    # the class of the effect (for semantic exceptions): every effect is an insertion, keyed by the loop
                    # variable, into one and the same parameter of the enclosing function
                    if fn is not None and all(k_ == "insert" and isinstance(n_, ast.Assign) for k_, n_ in eff):
                        bases = {t_.value.id for _, n_ in eff for t_ in n_.targets if isinstance(t_, ast.Subscript) and isinstance(t_.value, ast.Name)}
                        if len(bases) == 1 and bases <= set(fn.params()):
                            effect_class = "insert-into-param:%s" % sorted(bases)[0]
                else:
                    effect = None
            elif isinstance(p, ast.comprehension) and p.iter is e:
                comp = p._parent
                observing = "comprehension over %s" % src(e, 60)
                if isinstance(comp, ast.SetComp) or _consumer_chain_insensitive(comp):
                    effect = None
                else:
                    effect = "ordered result: %s" % src(comp, 80)
            elif isinstance(p, ast.Starred):
                observing = "*%s" % src(e, 60)
                effect = None if _consumer_chain_insensitive(p) else "unpacked in order"
            elif isinstance(p, ast.Call) and e is not p.func:
                nm = p.func.id if isinstance(p.func, ast.Name) else (p.func.attr if isinstance(p.func, ast.Attribute) else None)
                if nm in ORDER_INSENSITIVE_CONSUMERS:
                    observing = None
                elif nm in OBSERVING_CALLS:
                    observing = "%s(... %s ...)" % (nm, src(e, 50))
                    if nm in ("update",) :
                        effect = "insertion order of %s" % src(p.func.value, 40)
                    elif nm == "extend":
                        effect = "sequence order of %s" % src(p.func.value, 40)
                    else:
                        effect = None if _consumer_chain_insensitive(p) else "ordered result: %s" % src(p, 80)
                else:
                    observing = None  # passed to a function: handled through parameter propagation
            if observing is not None and effect is not None and _at_most_one_element(e, fi_node_of(e)):
                rep.ob("DET-1", "%s: %s" % (where, observing), "holds", loc(prog, e), "the collection has at most one element here (a `len(..)` condition on the way): there is no order to observe")
                continue
            if observing is None:
                rep.ob("DET-1", "%s: %s used order-insensitively" % (where, src(e, 70)), "holds", loc(prog, e), "membership / truthiness / len / sorted / set algebra / parameter")
                continue
            n_observing += 1
            k = (where, type(e).__name__)
            ordinals[k] = ordinals.get(k, 0) + 1
            construct = "iter:%s" % src(e, 70)
            if effect is None:
                rep.ob("DET-1", "%s: %s" % (where, observing), "holds", loc(prog, e), "observed, but no order-sensitive effect (no insertion / sequence append / ordered result)")
            elif (where, construct) in accepted or (effect_class and (where, effect_class) in accepted):
                rep.ob("DET-1", "%s: %s" % (where, observing), "accepted", loc(prog, e), accepted.get((where, construct)) or accepted[(where, effect_class)])
            else:
                rep.violation(Finding(
                    "DET-1", where, construct,
                    "iteration order of the unordered collection %s is observed (%s) and has an order-sensitive effect (%s): with "
                    ">= 2 string elements the result differs between processes with different PYTHONHASHSEED"
                    % (src(e, 70), observing, effect), loc(prog, e)))
    rep.note("DET-1", "%d unordered expressions examined, %d order-observing uses" % (n_unordered, n_observing))
    if scope is None and n_unordered < 10:
        raise AnalysisError("DET-1: only %d unordered expressions found in the package; the recogniser is evidently incomplete" % n_unordered)


def rule_det1b(prog, rep, tier):
    """DET-1b: key order of a parameter dict (L2) is unobservable: no order-observing use of `X["return_type"]`-style
    parameter dicts (the justification of the accepted _join_non_none exception)."""
    n = 0
    for m in prog.modules.values():
        for e in ast.walk(m.tree):
            if isinstance(e, ast.Subscript) and isinstance(e.slice, ast.Constant) and e.slice.value == "return_type" and isinstance(e.ctx, ast.Load):
                p = e._parent
                bad = None
                if isinstance(p, (ast.For, ast.comprehension)) and p.iter is e:
                    bad = "iterated"
                elif isinstance(p, ast.Call) and e in p.args and (p.func.id if isinstance(p.func, ast.Name) else getattr(p.func, "attr", "")) in ("list", "tuple", "map", "join", "str", "repr", "dumps", "format"):
                    bad = "serialised by %s" % src(p.func)
                elif isinstance(p, ast.Attribute) and p.attr in ("items", "keys", "values") :
                    gp = p._parent
                    if isinstance(gp, ast.Call) and gp.func is p:
                        ggp = gp._parent
                        if isinstance(ggp, (ast.For, ast.comprehension)) or (isinstance(ggp, ast.Call) and gp in ggp.args):
                            bad = "its %s() iterated" % p.attr
                n += 1
                fn = enclosing_fn(e)
                if bad:
                    rep.violation(Finding("DET-1b", fn.qualname if fn else m.name, "param-dict-order:%s" % src(e, 50),
                                          "key order of a parameter dict becomes observable (%s): %s" % (bad, src(p, 80)), loc(prog, e)))
    rep.ob("DET-1b", "%d reads of a return/parameter dict, none observes its key order" % n, "holds", "", "")


_FS_PREFIX = ("os.", "shutil.", "os.path.", "tempfile.")
_FS_DEST = {"os.replace": 1, "os.rename": 1, "os.link": 1, "shutil.move": 1, "shutil.copy": 1, "shutil.copyfile": 1, "shutil.copy2": 1, "os.symlink": 1}


def _ephemeral_name_only(prog, call, depth=0, seeds=None, fn=None):
    """Does the volatile value only ever serve as the *name* of a temporary file?  Every use of the names derived from
    it is (a) a path argument of an os / os.path / shutil function, not in destination position, (b) a None/truth test,
    (c) a further derivation, (d) returned to callers or passed to a package function where the same holds.  A use as
    written content, printed text, destination of a move, or anything else makes it observable -> False."""
    if depth > 3:
        return False
    if seeds is None:
        fn = enclosing_fn(call)
        if fn is None:
            return False
        st = call
        while not isinstance(st, ast.stmt):
            st = st._parent
        if not isinstance(st, ast.Assign):
            return False
        seeds = set()
        for t in st.targets:
            seeds |= names_in(t)
        if not seeds:
            return False
    # the *name* flows through assignments only (a file object opened from it is not the name)
    tainted = set(seeds)
    grew = True
    while grew:
        grew = False
        for a_ in ast.walk(fn.node):
            if isinstance(a_, (ast.Assign, ast.AugAssign, ast.AnnAssign)) and a_.value is not None and names_in(a_.value) & tainted:
                for t_ in (a_.targets if isinstance(a_, ast.Assign) else [a_.target]):
                    new_ = names_in(t_) - tainted
                    if new_:
                        tainted |= new_
                        grew = True
    for u in ast.walk(fn.node):
        if not (isinstance(u, ast.Name) and u.id in tainted and isinstance(u.ctx, ast.Load)):
            continue
        child, p = u, u._parent
        verdict = None
        while p is not None and verdict is None:
            if isinstance(p, ast.Call) and child is p.func and isinstance(child, ast.Attribute):
                verdict = True  # a method of the (file) object itself: it acts on the temporary file, the name goes nowhere
            elif isinstance(p, ast.Call) and child is not p.func:
                en = prog.ext_name(p.func, p) if isinstance(p.func, (ast.Name, ast.Attribute)) else None
                if en is not None and en.startswith(_FS_PREFIX):
                    pos = next((i for i, a in enumerate(p.args) if a is child), None)
                    verdict = not (en in _FS_DEST and pos == _FS_DEST[en])
                elif en in ("builtins.str", "builtins.format"):
                    pass  # still the name
                elif isinstance(p.func, ast.Attribute) and p.func.attr in ("format", "join") and en is None:
                    pass  # string building: judged where the built string goes
                else:
                    tg = [t for t in prog.resolve_expr_fn(p.func, p) if isinstance(t, FunctionInfo)] if isinstance(p.func, (ast.Name, ast.Attribute)) else []
                    if len(tg) == 1:
                        pn = tg[0].params()
                        pos = next((i for i, a in enumerate(p.args) if a is child), None)
                        kw = next((k.arg for k in p.keywords if k.value is child), None)
                        pname = pn[pos] if pos is not None and pos < len(pn) else kw
                        verdict = pname is not None and _ephemeral_name_only(prog, None, depth + 1, {pname}, tg[0])
                    else:
                        verdict = False
            elif isinstance(p, ast.Compare) and all(isinstance(c, ast.Constant) and c.value is None for c in p.comparators):
                verdict = True
            elif isinstance(p, (ast.If, ast.While, ast.IfExp, ast.Assert)) and child is p.test:
                verdict = True
            elif isinstance(p, (ast.Assign, ast.AnnAssign, ast.AugAssign)):
                verdict = True  # a derivation: the target is tainted and judged at its own uses
            elif isinstance(p, ast.Return):
                ok = True
                for caller, c in prog.callers_of(fn):
                    if caller is None:
                        ok = False
                        continue
                    st = c
                    while not isinstance(st, ast.stmt):
                        st = st._parent
                    if isinstance(st, ast.Assign):
                        s2 = set()
                        for t in st.targets:
                            s2 |= names_in(t)
                        ok = ok and bool(s2) and _ephemeral_name_only(prog, None, depth + 1, s2, caller)
                    elif isinstance(st, ast.Expr):
                        pass  # result dropped
                    else:
                        ok = False
                verdict = ok
            elif isinstance(p, ast.stmt):
                verdict = isinstance(p, (ast.Delete,))
            child, p = p, getattr(p, "_parent", None)
        if not verdict:
            return False
    return True


def rule_det2(prog, rep, tier, allowed_env=(("pure_utils", "line_length"),)):
    """DET-2: no volatile source (addresses, hashes, clocks, random numbers, pids, unsorted directory listings,
    environment) on any path of the package, other than the documented line-length configuration read at import."""
    n = 0
    for call in prog.all_calls():
        en = prog.ext_name(call.func, call) if isinstance(call.func, (ast.Name, ast.Attribute)) else None
        if en is None:
            continue
        fn = enclosing_fn(call)
        where = fn.qualname if fn else prog.module_of(call).name
        vol = en in VOLATILE or en.startswith(VOLATILE_PREFIX)
        if en in ("os.listdir", "os.scandir", "glob.glob", "glob.iglob"):
            p = call._parent
            if isinstance(p, ast.Call) and isinstance(p.func, ast.Name) and p.func.id == "sorted":
                vol = False
        if en in ("os.environ.get", "os.getenv"):
            st = call
            while not isinstance(st, ast.stmt):
                st = st._parent
            tgt = {t.id for t in getattr(st, "targets", []) if isinstance(t, ast.Name)}
            if fn is None and any((prog.module_of(call).name, t) in allowed_env for t in tgt):
                rep.ob("DET-2", "%s: %s" % (where, src(call, 60)), "accepted", loc(prog, call), "documented configuration read at import (decided under C18)")
                n += 1
                continue
            vol = True
        if vol and _ephemeral_name_only(prog, call):
            n += 1
            rep.ob("DET-2", "%s: %s" % (where, src(call, 60)), "accepted", loc(prog, call),
                   "the value only ever names a temporary file (every use is a path argument of an os/shutil call, never a destination, content or result)")
            continue
        if vol:
            n += 1
            rep.violation(Finding("DET-2", where, "volatile:%s" % en, "volatile source %s: %s" % (en, src(call, 70)), loc(prog, call)))
    for m in prog.modules.values():
        for e in ast.walk(m.tree):
            if isinstance(e, ast.Subscript) and isinstance(e.value, (ast.Name, ast.Attribute)) and prog.ext_name(e.value, e) == "os.environ":
                fn = enclosing_fn(e)
                n += 1
                st = e
                while not isinstance(st, ast.stmt):
                    st = st._parent
                tgt = {t.id for t in getattr(st, "targets", []) if isinstance(t, ast.Name)}
                if fn is None and any((m.name, t) in allowed_env for t in tgt):
                    rep.ob("DET-2", "%s: %s" % (m.name, src(e, 60)), "accepted", loc(prog, e), "documented configuration read at import (decided under C18)")
                    continue
                rep.violation(Finding("DET-2", fn.qualname if fn else m.name, "volatile:os.environ[]", "environment read %s" % src(e), loc(prog, e)))
    rep.ob("DET-2", "all %d call sites of the package scanned for volatile sources" % len(prog.all_calls()), "holds", "", "%d candidate(s) examined" % n)


def _evidently_immutable(e, fn_node, depth=0):
    if depth > 4 or e is None:
        return e is None
    if isinstance(e, (ast.Constant, ast.JoinedStr, ast.Compare)):
        return True
    if isinstance(e, ast.UnaryOp):
        return _evidently_immutable(e.operand, fn_node, depth + 1) or isinstance(e.op, ast.Not)
    if isinstance(e, ast.BoolOp):
        return all(_evidently_immutable(v, fn_node, depth + 1) for v in e.values)
    if isinstance(e, ast.BinOp):
        return _evidently_immutable(e.left, fn_node, depth + 1) and _evidently_immutable(e.right, fn_node, depth + 1)
    if isinstance(e, ast.IfExp):
        return _evidently_immutable(e.body, fn_node, depth + 1) and _evidently_immutable(e.orelse, fn_node, depth + 1)
    if isinstance(e, ast.Tuple):
        return all(_evidently_immutable(v, fn_node, depth + 1) for v in e.elts)
    if isinstance(e, ast.Call):
        if isinstance(e.func, ast.Name) and e.func.id in ("str", "int", "float", "bool", "len", "frozenset", "repr", "isinstance", "any", "all"):
            return True
        if isinstance(e.func, ast.Attribute) and e.func.attr in ("format", "join", "strip", "lstrip", "rstrip", "replace", "lower", "upper", "startswith", "endswith", "title"):
            return True
        return False
    if isinstance(e, ast.Name):
        a = fn_node.args
        if e.id in {x.arg for x in a.posonlyargs + a.args + a.kwonlyargs} and not _defs_of(fn_node, e.id):
            return True  # a memoised function's arguments are hashable, i.e. (by convention) immutable
        defs = _defs_of(fn_node, e.id)
        return bool(defs) and all(d is not None and _evidently_immutable(d, fn_node, depth + 1) for d in defs)
    if isinstance(e, ast.Subscript):
        return _evidently_immutable(e.value, fn_node, depth + 1) and isinstance(e.value, (ast.Constant, ast.JoinedStr, ast.Name))
    return False


def rule_det3(prog, rep, tier, scope=None):
    """DET-3: no state written by a function body survives the call (module globals, mutable module objects, function
    attributes of long-lived functions, class attributes, mutated mutable defaults, memoised mutable results)."""
    n = 0
    fns = list(prog.all_functions()) if scope is None else list(scope)
    scope_modules = {f.module.name for f in fns}
    for f in fns:
        node = f.node
        own = [x for x in ast.walk(node)]
        for x in own:
            # global statement
            if isinstance(x, ast.Global) and enclosing_fn(x) is f or (isinstance(x, ast.Global) and x in node.body):
                n += 1
                rep.violation(Finding("DET-3", prog.owner_name(f), "global:%s" % ",".join(x.names), "`global %s` lets the function rebind module state that later calls read" % ",".join(x.names), loc(prog, x)))
            if isinstance(x, ast.Call) and enclosing_fn(x) is f and f.cls is not None and isinstance(x.func, ast.Attribute) and x.func.attr in ("visit", "generic_visit") \
                    and isinstance(x.func.value, ast.Name) and x.func.value.id == "self" and x.args and isinstance(x.args[0], ast.Attribute) \
                    and isinstance(x.args[0].value, ast.Name) and x.args[0].value.id == "self" and "NodeTransformer" in f.cls.base_names():
                # a NodeTransformer run over a tree it keeps in an attribute: the tree is edited in place and stays edited
                n += 1
                rep.violation(Finding("DET-3", prog.owner_name(f), "transformer-on-own-attribute:%s" % x.args[0].attr,
                                      "%s transforms the tree kept in self.%s in place (NodeTransformer edits the nodes it visits): the next use of the same object starts "
                                      "from the already transformed tree, so the result depends on the calls made before" % (src(x, 60), x.args[0].attr), loc(prog, x)))
            if isinstance(x, ast.Call) and enclosing_fn(x) is f:
                # globals().update / globals()[k] = v handled below for subscripts
                if isinstance(x.func, ast.Attribute) and x.func.attr in MUTATORS:
                    base = x.func.value
                    if isinstance(base, ast.Call) and isinstance(base.func, ast.Name) and base.func.id == "globals":
                        n += 1
                        rep.violation(Finding("DET-3", prog.owner_name(f), "globals().%s" % x.func.attr,
                                              "%s writes the module's global namespace from inside a call; the names persist (and can shadow the module's own "
                                              "imports) for this and every later call in the process" % src(x, 60), loc(prog, x)))
                    elif isinstance(base, ast.Name):
                        b = prog.lookup(base.id, x)
                        if b[0] == "value":
                            n += 1
                            rep.violation(Finding("DET-3", prog.owner_name(f), "module-object:%s.%s" % (base.id, x.func.attr),
                                                  "%s mutates the module-level object %s, which outlives the call" % (src(x, 60), base.id), loc(prog, x)))
                        elif b[0] == "param" and b[1] is node and _mutable_default(node, base.id):
                            n += 1
                            rep.violation(Finding("DET-3", prog.owner_name(f), "mutable-default:%s" % base.id,
                                                  "parameter %s has a mutable default that %s mutates; the default object is shared by all calls" % (base.id, src(x, 60)), loc(prog, x)))
                elif isinstance(x.func, ast.Name) and x.func.id == "setattr" and x.args and isinstance(x.args[0], ast.Name):
                    b = prog.lookup(x.args[0].id, x)
                    if b[0] in ("func", "class", "module", "value"):
                        n += 1
                        rep.violation(Finding("DET-3", prog.owner_name(f), "setattr:%s" % x.args[0].id, "%s writes an attribute of a long-lived object" % src(x, 60), loc(prog, x)))
            if isinstance(x, (ast.Assign, ast.AugAssign, ast.Delete)) and enclosing_fn(x) is f:
                tgts = x.targets if isinstance(x, (ast.Assign, ast.Delete)) else [x.target]
                for t in tgts:
                    if isinstance(t, ast.Subscript):
                        base = t.value
                        if isinstance(base, ast.Call) and isinstance(base.func, ast.Name) and base.func.id == "globals":
                            n += 1
                            rep.violation(Finding("DET-3", prog.owner_name(f), "globals()[]", "%s writes the module's global namespace" % src(x, 60), loc(prog, x)))
                        elif isinstance(base, ast.Name) and prog.lookup(base.id, x)[0] == "value":
                            n += 1
                            rep.violation(Finding("DET-3", prog.owner_name(f), "module-object:%s[]" % base.id, "%s writes into a module-level object" % src(x, 60), loc(prog, x)))
                    elif isinstance(t, ast.Attribute) and isinstance(t.value, ast.Name):
                        b = prog.lookup(t.value.id, x)
                        if b[0] == "func":
                            n += 1
                            target_fn = b[1]
                            construct = "fn-attr:%s.%s" % (target_fn.name, t.attr)
                            if target_fn.parent_fn is not None and _closure_attr_initialised(target_fn, t.attr):
                                rep.ob("DET-3", "%s: %s" % (f.qualname, construct), "accepted", loc(prog, x),
                                       "attribute of a closure created per activation of %s and initialised there before use" % target_fn.parent_fn.qualname)
                            else:
                                rep.violation(Finding("DET-3", prog.owner_name(f), construct,
                                                      "function attribute %s.%s is state that survives the call" % (target_fn.qualname, t.attr), loc(prog, x)))
                        elif b[0] in ("class", "module"):
                            n += 1
                            rep.violation(Finding("DET-3", prog.owner_name(f), "%s-attr:%s.%s" % (b[0], t.value.id, t.attr), "%s rebinds an attribute of a %s" % (src(x, 60), b[0]), loc(prog, x)))
        # memoisation
        for d in node.decorator_list:
            dn = d.func if isinstance(d, ast.Call) else d
            en = prog.ext_name(dn, d) if isinstance(dn, (ast.Name, ast.Attribute)) else None
            if en in MEMO_DECORATORS:
                n += 1
                rets = [r.value for r in ast.walk(node) if isinstance(r, ast.Return) and enclosing_fn(r) is f]
                if all(_evidently_immutable(r, node) for r in rets):
                    rep.ob("DET-3", "%s: @%s with immutable results" % (f.qualname, en), "holds", loc(prog, d), "")
                else:
                    rep.violation(Finding("DET-3", prog.owner_name(f), "memo:%s" % en,
                                          "@%s caches a result that is not evidently immutable; a caller that mutates it changes what every later call returns" % en, loc(prog, d)))
    # module-level memo wrappers: name = lru_cache(...)(f)
    for m in prog.modules.values():
        if m.name not in scope_modules:
            continue
        for st in m.tree.body:
            if isinstance(st, ast.Assign) and isinstance(st.value, ast.Call):
                c = st.value
                inner = c.func.func if isinstance(c.func, ast.Call) else c.func
                en = prog.ext_name(inner, c) if isinstance(inner, (ast.Name, ast.Attribute)) else None
                if en in MEMO_DECORATORS:
                    n += 1
                    rep.violation(Finding("DET-3", m.name, "memo-wrap:%s" % src(st.targets[0]), "module-level memoisation wrapper %s" % src(st, 70), loc(prog, st)))
    # one-shot iterators with module lifetime: map/filter/zip/iter/generator objects bound at import (directly, or frozen into
    # a partial / default argument) are consumed by the first call that iterates them; every later call sees them empty
    ONE_SHOT = {"builtins.map", "builtins.filter", "builtins.zip", "builtins.iter", "builtins.enumerate", "builtins.reversed", "itertools.chain", "itertools.islice",
                "itertools.chain.from_iterable", "itertools.takewhile", "itertools.dropwhile", "itertools.starmap", "itertools.cycle", "itertools.repeat"}

    def one_shot(e):
        if isinstance(e, ast.GeneratorExp):
            return True
        return isinstance(e, ast.Call) and isinstance(e.func, (ast.Name, ast.Attribute)) and prog.ext_name(e.func, e) in ONE_SHOT
    for m in prog.modules.values():
        if m.name not in scope_modules:
            continue
        for st in m.tree.body:
            if not isinstance(st, (ast.Assign, ast.AnnAssign)) or st.value is None:
                continue
            v = st.value
            cands = [v]
            if isinstance(v, ast.Call) and isinstance(v.func, (ast.Name, ast.Attribute)) and prog.ext_name(v.func, v) == "functools.partial":
                cands = list(v.args[1:]) + [k.value for k in v.keywords]
            for c in cands:
                if one_shot(c):
                    n += 1
                    tgt = st.targets[0] if isinstance(st, ast.Assign) else st.target
                    rep.violation(Finding("DET-3", m.name, "one-shot-iterator:%s" % src(tgt, 30),
                                          "%s is created once at import and lives as long as the module (%s): the first call that iterates it exhausts it, so the result of "
                                          "every later call differs from the first" % (src(c, 60), src(st, 70)), loc(prog, st)))
        for f in fns:
            if f.module is not m or not isinstance(f.node, (ast.FunctionDef, ast.AsyncFunctionDef)):
                continue
            for d in f.node.args.defaults + [x for x in f.node.args.kw_defaults if x is not None]:
                if one_shot(d):
                    n += 1
                    rep.violation(Finding("DET-3", f.qualname, "one-shot-default:%s" % src(d, 30),
                                          "the default %s is a one-shot iterator shared by all calls" % src(d, 60), loc(prog, d)))
    rep.ob("DET-3", "%d functions scanned for writes to state that outlives the call" % len(fns), "holds", "", "%d candidate(s) examined" % n)
    # vacuity: a clean package legitimately has no candidate at all, so the guard is on what was scanned (the recogniser
    # itself is exercised on every thorough run by the self-test variants that plant each construct class)
    if scope is None and len(fns) < 100:
        raise AnalysisError("DET-3: only %d functions scanned; the package model is evidently incomplete" % len(fns))


def _mutable_default(fn_node, pname):
    a = fn_node.args
    names = [x.arg for x in a.args]
    defaults = dict(zip(names[len(names) - len(a.defaults):], a.defaults))
    defaults.update({x.arg: d for x, d in zip(a.kwonlyargs, a.kw_defaults) if d is not None})
    d = defaults.get(pname)
    return isinstance(d, (ast.List, ast.Dict, ast.Set)) or (isinstance(d, ast.Call) and isinstance(d.func, ast.Name) and d.func.id in ("list", "dict", "set", "OrderedDict", "deque"))


def _closure_attr_initialised(target_fn, attr):
    """The parent function assigns <closure>.<attr> at its own top level (re-initialised on each activation)."""
    parent = target_fn.parent_fn.node
    for st in ast.walk(parent):
        if isinstance(st, ast.Assign) and enclosing_fn(st) is target_fn.parent_fn:
            for t in st.targets:
                if isinstance(t, ast.Attribute) and t.attr == attr and isinstance(t.value, ast.Name) and t.value.id == target_fn.name:
                    # must not be nested in a loop/branch that may be skipped
                    p = st._parent
                    ok = True
                    while p is not parent:
                        if isinstance(p, (ast.For, ast.While, ast.Try)):
                            ok = False
                        p = p._parent
                    if ok:
                        return True
    return False
