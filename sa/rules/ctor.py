"""
CTOR (C06): every `ast.<Node>(...)` construction in the package supplies the fields the running interpreter's
`ast.<Node>._fields` declares as mandatory (not `?`-optional in the node's ASDL signature).
"""
import ast
import re

from sa.consteval import Folder
from sa.model import AnalysisError, Finding, enclosing_fn, loc, src

# fields added by newer grammars that the stdlib unparser/compiler reads defensively (hasattr / default)
DEFENSIVE = {"type_params", "type_comment", "kind", "lineno", "col_offset", "end_lineno", "end_col_offset"}


def _mandatory(cls):
    doc = cls.__doc__ or ""
    m = re.match(r"\w+\((.*)\)", doc.replace("\n", " "))
    fields = list(getattr(cls, "_fields", ()))
    if not m:
        return fields, []  # deprecated alias classes (Num, Str, NameConstant, Index, ...) have no ASDL signature
    opt = set()
    for part in m.group(1).split(","):
        part = part.strip()
        if not part:
            continue
        typ, _, name = part.rpartition(" ")
        if typ.endswith("?"):
            opt.add(name)
    return fields, [f for f in fields if f not in opt and f not in DEFENSIVE]


def rule_ctor(prog, rep, tier):
    n = bad = 0
    folder = Folder(prog)
    for call in prog.all_calls():
        if not isinstance(call.func, (ast.Name, ast.Attribute)):
            continue
        en = prog.ext_name(call.func, call)
        if not en or not en.startswith("ast."):
            continue
        cls = getattr(ast, en[4:], None)
        if not (isinstance(cls, type) and issubclass(cls, ast.AST)) or not getattr(cls, "_fields", None):
            continue
        if any(isinstance(a, ast.Starred) for a in call.args):
            continue
        fields, mand = _mandatory(cls)
        given = set(fields[: len(call.args)]) | {k.arg for k in call.keywords if k.arg}
        unknown_kw = False
        for k in call.keywords:
            if k.arg is None:
                v = folder.fold(k.value, {}, call)
                if isinstance(v, dict):
                    given |= set(v)
                else:
                    unknown_kw = True
        missing = [f for f in mand if f not in given]
        n += 1
        fn = enclosing_fn(call)
        where = fn.qualname if fn else prog.module_of(call).name
        if missing and not unknown_kw:
            bad += 1
            rep.violation(Finding("CTOR", where, "%s-missing-%s" % (en[4:], "+".join(missing)),
                                  "%s is built without its mandatory field(s) %s (ast.%s._fields = %s): unparse/compile of the emitted tree raises"
                                  % (src(call, 60), missing, en[4:], fields), loc(prog, call)))
    rep.ob("CTOR", "%d ast node constructions checked against the interpreter's _fields" % n, "holds" if not bad else "violation", "", "%d incomplete" % bad)
    if n < 60:
        raise AnalysisError("CTOR: only %d ast constructor calls found (about 100 are expected)" % n)
