"""
CTOR (C06): every `ast.<Node>(...)` construction in the package supplies the fields the running interpreter's
`ast.<Node>._fields` declares as mandatory (not `?`-optional in the node's ASDL signature).
"""
import ast
import re

from sa.consteval import Folder
from sa.model import AnalysisError, Finding, enclosing_fn, loc, src

# fields added by newer grammars that the stdlib unparser/compiler reads defensively (hasattr / default)
DEFENSIVE = {"type_params", "type_comment", "kind", "lineno", "col_offset", "end_lineno", "end_col_offset"}


def _mandatory(cls):
    doc = cls.__doc__ or ""
    m = re.match(r"\w+\((.*)\)", doc.replace("\n", " "))
    fields = list(getattr(cls, "_fields", ()))
    if not m:
        return fields, []  # deprecated alias classes (Num, Str, NameConstant, Index, ...) have no ASDL signature
    opt = set()
    for part in m.group(1).split(","):
        part = part.strip()
        if not part:
            continue
        typ, _, name = part.rpartition(" ")
        if typ.endswith("?"):
            opt.add(name)
    return fields, [f for f in fields if f not in opt and f not in DEFENSIVE]


def rule_ctor(prog, rep, tier):
    n = bad = 0
    folder = Folder(prog)
    for call in prog.all_calls():
        if not isinstance(call.func, (ast.Name, ast.Attribute)):
            continue
        en = prog.ext_name(call.func, call)
        if not en or not en.startswith("ast."):
            continue
        cls = getattr(ast, en[4:], None)
        if not (isinstance(cls, type) and issubclass(cls, ast.AST)) or not getattr(cls, "_fields", None):
            continue
        if any(isinstance(a, ast.Starred) for a in call.args):
            continue
        fields, mand = _mandatory(cls)
        given = set(fields[: len(call.args)]) | {k.arg for k in call.keywords if k.arg}
        unknown_kw = False
        for k in call.keywords:
            if k.arg is None:
                v = folder.fold(k.value, {}, call)
                if isinstance(v, dict):
                    given |= set(v)
                else:
                    unknown_kw = True
        missing = [f for f in mand if f not in given]
        n += 1
        fn = enclosing_fn(call)
        where = fn.qualname if fn else prog.module_of(call).name
        if missing and not unknown_kw:
            bad += 1
            rep.violation(Finding("CTOR", where, "%s-missing-%s" % (en[4:], "+".join(missing)),
                                  "%s is built without its mandatory field(s) %s (ast.%s._fields = %s): unparse/compile of the emitted tree raises"
                                  % (src(call, 60), missing, en[4:], fields), loc(prog, call)))
    rep.ob("CTOR", "%d ast node constructions checked against the interpreter's _fields" % n, "holds" if not bad else "violation", "", "%d incomplete" % bad)
    if n < 60:
        raise AnalysisError("CTOR: only %d ast constructor calls found (about 100 are expected)" % n)


# ---------------------------------------------------------------------------- CMP-PARSED (C10, C09)
EMITTERS = ("emit.class_", "emit.function", "emit.argparse_function")


def _side_kind(prog, fi, e, depth=0):
    """'parsed' when the expression denotes (part of) a tree read from source, 'built' when it is what an emitter - a package
    function of `emit`, or a function handed in as a parameter - returned, None when neither is visible.  Judged on the
    structure of the expression: the arguments of an emitter say nothing about what it returns."""
    if e is None or depth > 8:
        return None
    if isinstance(e, (ast.Subscript, ast.Attribute)):
        return _side_kind(prog, fi, e.value, depth + 1)
    if isinstance(e, ast.IfExp):
        ks = {_side_kind(prog, fi, e.body, depth + 1), _side_kind(prog, fi, e.orelse, depth + 1)} - {None}
        return "built" if "built" in ks else ("parsed" if ks else None)
    if isinstance(e, ast.Name):
        defs = [st.value for st in ast.walk(fi.node) if isinstance(st, ast.Assign) and any(isinstance(t, ast.Name) and t.id == e.id for t in st.targets)]
        ks = {_side_kind(prog, fi, d, depth + 1) for d in defs} - {None}
        return "built" if "built" in ks else ("parsed" if ks else None)
    if isinstance(e, ast.Call) and isinstance(e.func, (ast.Name, ast.Attribute)):
        en = prog.ext_name(e.func, e)
        tg = [t.qualname for t in prog.resolve_expr_fn(e.func, e) if hasattr(t, "qualname")]
        if en == "ast.parse" or any(q.endswith(".ast_parse") for q in tg):
            return "parsed"
        if any(q.endswith(".find_in_ast") for q in tg) and len(e.args) >= 2:
            return _side_kind(prog, fi, e.args[1], depth + 1)
        if en in ("copy.deepcopy", "copy.copy") and e.args:
            return _side_kind(prog, fi, e.args[0], depth + 1)
        if any(q.startswith("emit.") and q != "emit.file" for q in tg):
            return "built"
        if isinstance(e.func, ast.Name) and e.func.id in fi.params():
            return "built"  # a function handed in (the emitter of the table row): what it returns was not read from source
    return None


def rule_cmp_parsed(prog, rep, tier, anchor="conformance._conform_filename"):
    """CMP-PARSED (C10, C09): the test that decides "this target already is what would be written" compares a node read from the
    target's source with a node built by the emitters.  The comparison (`cmp_ast`) goes through every entry of `_fields` of the
    *running interpreter's* node classes; a parsed node has them all, a node built by constructor calls has what the calls
    supply (optional `?` fields default to None, lists do not).  Either the built side is read back through a parse before the
    comparison, or every node construction the emitters can reach supplies every non-optional field - else the two are never
    equal, every run rewrites the target and reports it modified."""
    fi = prog.fn(anchor)
    cmps = []
    for f in prog.region(fi):
        for c in ast.walk(f.node):
            if isinstance(c, ast.Call) and isinstance(c.func, (ast.Name, ast.Attribute)) and (prog.ext_name(c.func, c) or "").endswith("cmp_ast") and len(c.args) == 2:
                cmps.append((f, c))
    if not cmps:
        raise AnalysisError("CMP-PARSED: no cmp_ast(...) comparison found in %s" % anchor)
    # what the emitters build
    incomplete = {}
    n_ctor = 0
    roots = [prog.fn(q) for q in EMITTERS if prog.has_fn(q)]
    reach = {id(f.node) for f in prog.reachable(roots)}
    for call in prog.all_calls():
        fn = enclosing_fn(call)
        top = fn
        while top is not None and top.parent_fn is not None:
            top = top.parent_fn
        if top is None or id(top.node) not in reach or not isinstance(call.func, (ast.Name, ast.Attribute)):
            continue
        en = prog.ext_name(call.func, call)
        if not en or not en.startswith("ast."):
            continue
        cls = getattr(ast, en[4:], None)
        if not (isinstance(cls, type) and issubclass(cls, ast.AST)) or not getattr(cls, "_fields", None) or any(isinstance(a, ast.Starred) for a in call.args):
            continue
        fields, _ = _mandatory(cls)
        doc = (cls.__doc__ or "").replace("\n", " ")
        m = re.match(r"\w+\((.*)\)", doc)
        if not m:
            continue
        opt = {p.strip().rpartition(" ")[2] for p in m.group(1).split(",") if p.strip().rpartition(" ")[0].endswith("?")}
        given = set(fields[: len(call.args)]) | {k.arg for k in call.keywords if k.arg}
        if any(k.arg is None for k in call.keywords):
            continue
        n_ctor += 1
        missing = [f for f in fields if f not in opt and f not in given]
        if missing:
            incomplete.setdefault((en[4:], tuple(missing)), []).append(call)
    for f, c in cmps:
        kinds = [_side_kind(prog, f, a) for a in c.args]
        inst = "%s: %s" % (prog.owner_name(f), src(c, 60))
        if "built" in kinds and "parsed" in kinds and incomplete:
            (node, missing), calls = sorted(incomplete.items(), key=lambda kv: kv[0])[0]
            rep.violation(Finding(
                "CMP-PARSED", prog.owner_name(f), "parsed-vs-built:%s" % "+".join(sorted({"%s.%s" % (n_, m_) for (n_, ms) in incomplete for m_ in ms})),
                "%s compares a node read from source with a node built by the emitters, and %d construction(s) the emitters reach leave out a non-optional field of this "
                "interpreter's grammar (e.g. %s without %s at %s): a parsed node always has it, so the two are never equal - every run rewrites the target and reports "
                "it modified although nothing changes" % (src(c, 50), sum(len(v) for v in incomplete.values()), node, list(missing), loc(prog, calls[0])), loc(prog, c)))
        elif "built" in kinds and "parsed" in kinds:
            rep.holds("CMP-PARSED", inst, loc(prog, c), "%d node constructions reachable from the emitters supply every non-optional field" % n_ctor)
        elif kinds.count("parsed") == 2:
            rep.holds("CMP-PARSED", inst, loc(prog, c), "both sides are read from source (the built node is read back through a parse first)")
        else:
            rep.ob("CMP-PARSED", inst, "unresolved", loc(prog, c), "origin of the compared nodes not recognised: %r" % (kinds,))
