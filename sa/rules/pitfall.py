"""
Binding-time and sharing rules that hold for any code on a property's path (scoped like DET-3):

LATE-BIND      a closure (lambda / nested def) created per iteration of a loop or comprehension that reads the iteration
               variable (or a name assigned in the loop body) as a *free* variable and outlives the iteration (collected
               in a list / dict / tuple, appended, yielded, returned): when it is finally called every copy sees the
               value of the last iteration.  Binding through a default (`lambda x, f=f: ...`), `functools.partial`, or
               consuming the closure inside the same iteration (an eager consumer around it) is fine.
STALE-CAPTURE  `functools.partial(f, k=v)` / a lambda default `v=v` evaluated at one point, the name `v` rebound
               afterwards in the same function, and the captured callable invoked after the rebinding: the call uses
               the value from before the rebinding although the surrounding code has moved on.
SHARED-DEFAULT a mutable default argument (list / dict / set display, or dict/list/set/OrderedDict/deque/defaultdict
               call) that the function mutates, returns, stores into another object, or hands to eval/exec: one object
               is shared by all calls, so a call sees (and changes) what earlier calls left.
STR-MEMBER     `<expr> in <string constant>` where the constant reads as one or more identifiers - what is left of a tuple
               whose comma was lost (`("return_type")`, `("self" "cls")`): a substring test, true for every fragment
               of the word(s).
SLICE-WRAP     a slice bound `pos - k` (k > 0) on a position that can be smaller than k (a search answers 0 when the thing looked
               for starts the text): the bound goes negative and counts from the end; needs a guard `pos > k-1` / `pos - k >= 0`
               (`max(pos - k, 0)` is no BinOp bound and is fine).
"""
import ast
import re

from sa.cfg import expr_guards, facts
from sa.consteval import UNKNOWN, Folder
from sa.model import AnalysisError, Finding, enclosing_fn, loc, order_key, src

EAGER = {"list", "tuple", "set", "frozenset", "dict", "OrderedDict", "sorted", "next", "any", "all", "sum", "min", "max", "deque", "join", "update", "extend",
         "reduce", "len"}
LAZY = {"map", "filter", "zip", "enumerate", "iter", "chain", "from_iterable", "takewhile", "dropwhile", "starmap", "islice", "partial", "rpartial"}
MUTABLE_CTORS = {"dict", "list", "set", "OrderedDict", "deque", "defaultdict", "Counter", "bytearray"}
MUTATORS = {"append", "extend", "insert", "pop", "popitem", "remove", "clear", "update", "setdefault", "add", "discard", "sort", "reverse", "move_to_end",
            "appendleft", "popleft", "__setitem__", "__delitem__"}


def _free_names(fn):
    """names read in the body of a lambda / def that are neither its parameters nor assigned inside it"""
    a = fn.args
    params = {x.arg for x in a.posonlyargs + a.args + a.kwonlyargs}
    if a.vararg:
        params.add(a.vararg.arg)
    if a.kwarg:
        params.add(a.kwarg.arg)
    body = fn.body if isinstance(fn.body, list) else [fn.body]
    assigned = {x.id for b in body for x in ast.walk(b) if isinstance(x, ast.Name) and isinstance(x.ctx, ast.Store)}
    return {x.id for b in body for x in ast.walk(b) if isinstance(x, ast.Name) and isinstance(x.ctx, ast.Load)} - params - assigned


def _consumed_in_iteration(closure, stop):
    """walking up from the closure to `stop` (the loop / comprehension): is it called on the spot or swallowed by an eager
    consumer before anything lazy or any container keeps it?"""
    child, p = closure, getattr(closure, "_parent", None)
    through_lazy = False
    while p is not None and p is not stop and not (isinstance(p, ast.stmt) and isinstance(closure, ast.FunctionDef)):
        if isinstance(p, ast.Call):
            nm = p.func.id if isinstance(p.func, ast.Name) else (p.func.attr if isinstance(p.func, ast.Attribute) else None)
            if child is p.func:
                return True  # called where it is created
            if nm in EAGER:
                return True
            if nm in LAZY:
                through_lazy = True
            elif nm in ("append", "appendleft", "insert", "add", "setdefault", "__setitem__"):
                return False
            else:
                # an ordinary call receiving the closure: it may call it now (most helpers do) - only collections keep it
                return not through_lazy or False
        elif isinstance(p, (ast.List, ast.Tuple, ast.Set, ast.Dict)):
            # a display holding the closure: kept unless the display itself is consumed eagerly further up
            pass
        elif isinstance(p, (ast.Assign, ast.AnnAssign, ast.AugAssign, ast.Return, ast.Yield, ast.YieldFrom)):
            return False
        elif isinstance(p, ast.stmt):
            return True  # an expression statement: evaluated and dropped within the iteration
        child, p = p, getattr(p, "_parent", None)
    return False


def rule_pitfalls(prog, rep, tier, scope=None):
    fns = list(prog.all_functions()) if scope is None else list(scope)
    folder = Folder(prog)
    n = 0
    seen_nodes = set()
    for f in fns:
        if not isinstance(f.node, (ast.FunctionDef, ast.AsyncFunctionDef)):
            continue
        where = prog.owner_name(f)
        # ---------------------------------------------------------------- LATE-BIND
        for it in ast.walk(f.node):
            if enclosing_fn(it) is not f and it is not f.node:
                continue
            if isinstance(it, (ast.For, ast.AsyncFor)):
                iter_vars = {x.id for x in ast.walk(it.target) if isinstance(x, ast.Name)}
                iter_vars |= {t.id for st in ast.walk(it) if isinstance(st, ast.Assign) for t in st.targets if isinstance(t, ast.Name)}
                region = it.body
                kind = "loop"
            elif isinstance(it, (ast.ListComp, ast.SetComp, ast.GeneratorExp, ast.DictComp)):
                iter_vars = {x.id for g in it.generators for x in ast.walk(g.target) if isinstance(x, ast.Name)}
                region = [it.elt] if hasattr(it, "elt") else [it.key, it.value]
                kind = "comprehension"
            else:
                continue
            for root in region:
                for c in ast.walk(root):
                    if not isinstance(c, (ast.Lambda, ast.FunctionDef)) or id(c) in seen_nodes:
                        continue
                    cap = _free_names(c) & iter_vars
                    if not cap:
                        continue
                    seen_nodes.add(id(c))
                    n += 1
                    if isinstance(c, ast.FunctionDef):
                        # a named helper defined in the loop body: what matters is where its *name* goes - called or handed
                        # to an eager consumer inside the same iteration is fine; stored, returned or used after the loop is not
                        uses = [u for u in ast.walk(f.node) if isinstance(u, ast.Name) and u.id == c.name and isinstance(u.ctx, ast.Load)]
                        inside = [u for u in uses if any(u is x for r_ in region for x in ast.walk(r_))]
                        consumed = len(inside) == len(uses) and all(_consumed_in_iteration(u, it) for u in inside)
                    else:
                        consumed = _consumed_in_iteration(c, it)
                    inst = "%s: closure over %s in a %s" % (where, ", ".join(sorted(cap)), kind)
                    if consumed:
                        rep.holds("LATE-BIND", inst, loc(prog, c), "called / consumed within the iteration that created it")
                    else:
                        rep.violation(Finding(
                            "LATE-BIND", where, "late-bound:%s" % ",".join(sorted(cap)),
                            "%s is created once per iteration and kept (%s), but reads %s as a free variable: when it is called later every copy sees the value "
                            "of the last iteration (bind it with a default argument or functools.partial)" % (src(c, 60), kind, ", ".join(sorted(cap))), loc(prog, c)))
        # ---------------------------------------------------------------- STALE-CAPTURE
        for st in ast.walk(f.node):
            if not (isinstance(st, ast.Assign) and len(st.targets) == 1 and isinstance(st.targets[0], ast.Name) and enclosing_fn(st) is f):
                continue
            v = st.value
            captured = {}
            if isinstance(v, ast.Call) and isinstance(v.func, (ast.Name, ast.Attribute)) and prog.ext_name(v.func, v) == "functools.partial":
                for a_ in list(v.args[1:]) + [k.value for k in v.keywords]:
                    if isinstance(a_, ast.Name):
                        captured[a_.id] = a_
            elif isinstance(v, ast.Lambda):
                for d in v.args.defaults + [x for x in v.args.kw_defaults if x is not None]:
                    if isinstance(d, ast.Name):
                        captured[d.id] = d
            if not captured:
                continue
            holder = st.targets[0].id
            calls = [c for c in ast.walk(f.node) if isinstance(c, ast.Call) and isinstance(c.func, ast.Name) and c.func.id == holder and order_key(c) > order_key(st)]
            if not calls:
                continue
            for nme in sorted(captured):
                rebinds = [a for a in ast.walk(f.node) if isinstance(a, ast.Name) and a.id == nme and isinstance(a.ctx, ast.Store) and enclosing_fn(a) is f
                           and order_key(a) > order_key(st) and order_key(a) < max(order_key(c) for c in calls)]
                n += 1
                if rebinds:
                    rep.violation(Finding(
                        "STALE-CAPTURE", where, "stale:%s->%s" % (nme, holder),
                        "%s captures the value of `%s` at that point; `%s` is rebound afterwards (line %d) and %s(...) is called after the rebinding: the call "
                        "still uses the earlier value" % (src(v, 60), nme, nme, rebinds[0].lineno, holder), loc(prog, st)))
                else:
                    rep.holds("STALE-CAPTURE", "%s: %s captured by %s is not rebound before the call" % (where, nme, holder), loc(prog, st), "")
        # ---------------------------------------------------------------- SHARED-DEFAULT
        a = f.node.args
        pn = [x.arg for x in a.posonlyargs + a.args]
        pairs = list(zip(pn[len(pn) - len(a.defaults):], a.defaults)) + [(x.arg, d) for x, d in zip(a.kwonlyargs, a.kw_defaults) if d is not None]
        for p_, d in pairs:
            mutable = isinstance(d, (ast.List, ast.Dict, ast.Set)) or \
                (isinstance(d, ast.Call) and (d.func.id if isinstance(d.func, ast.Name) else getattr(d.func, "attr", "")) in MUTABLE_CTORS)
            if not mutable:
                continue
            n += 1
            why = None
            rebound_first = any(isinstance(x, ast.Name) and x.id == p_ and isinstance(x.ctx, ast.Store) for x in ast.walk(f.node))
            for x in ast.walk(f.node):
                if isinstance(x, ast.Name) and x.id == p_ and isinstance(x.ctx, ast.Load):
                    par = x._parent
                    if isinstance(par, ast.Attribute) and par.attr in MUTATORS and isinstance(getattr(par, "_parent", None), ast.Call) and par._parent.func is par:
                        why = "mutated (%s)" % src(par._parent, 40)
                    elif isinstance(par, ast.Subscript) and isinstance(par.ctx, (ast.Store, ast.Del)) and par.value is x:
                        why = "written (%s)" % src(par, 40)
                    elif isinstance(par, ast.Return) or (isinstance(par, (ast.Tuple, ast.List)) and isinstance(getattr(par, "_parent", None), ast.Return)):
                        why = "returned to the caller"
                    elif isinstance(par, ast.Assign) and par.value is x and any(isinstance(t, (ast.Subscript, ast.Attribute)) for t in par.targets):
                        why = "stored into another object (%s)" % src(par, 50)
                    elif isinstance(par, ast.Call) and isinstance(par.func, ast.Name) and par.func.id in ("eval", "exec") and x in par.args[1:]:
                        why = "used as the namespace of %s(...), which writes into it" % par.func.id
                    elif isinstance(par, ast.AugAssign) and par.target is x:
                        why = "extended in place (%s)" % src(par, 40)
                    if why:
                        break
            inst = "%s: mutable default %s=%s" % (where, p_, src(d, 30))
            if why and not (rebound_first and why.startswith("returned")):
                rep.violation(Finding(
                    "SHARED-DEFAULT", where, "shared-default:%s" % p_,
                    "the default %s=%s is one object for all calls and is %s: what one call leaves in it is seen by every later call that omits the argument"
                    % (p_, src(d, 40), why), loc(prog, d)))
            else:
                rep.holds("SHARED-DEFAULT", inst, loc(prog, d), "only read")
        # ---------------------------------------------------------------- STR-MEMBER
        for c in ast.walk(f.node):
            if not (isinstance(c, ast.Compare) and len(c.ops) == 1 and isinstance(c.ops[0], (ast.In, ast.NotIn))):
                continue
            left, right = c.left, c.comparators[0]
            if isinstance(left, ast.Constant):
                continue
            val = right.value if isinstance(right, ast.Constant) else None
            if val is None and isinstance(right, ast.Name):
                fv = folder.fold(right, {}, c)
                val = fv if fv is not UNKNOWN else None
            if not isinstance(val, str):
                continue
            n += 1
            words = re.findall(r"[A-Za-z_]{3,}", val)
            looks_like_names = bool(words) and sum(len(w) for w in words) >= 0.8 * len(val.replace(" ", "")) and len(val) >= 4
            inst = "%s: %s" % (where, src(c, 50))
            if looks_like_names:
                rep.violation(Finding(
                    "STR-MEMBER", where, "substring-membership:%s" % src(right, 30),
                    "%s tests membership in the *string* %r (a substring test: true for %r, %r, ...), which reads like a tuple of names whose comma or brackets were "
                    "lost" % (src(c, 60), val, val[:1], val[1:3]), loc(prog, c)))
            else:
                rep.holds("STR-MEMBER", inst, loc(prog, c), "a character set")
        # ---------------------------------------------------------------- DIRNAME-EMPTY
        # `os.path.dirname("method.py")` is "" and `os.makedirs("")` / `os.mkdir("")` / `os.listdir("")`-style calls raise FileNotFoundError
        # (makedirs even with exist_ok=True): a directory call on the bare `dirname(x)` fails for a file named without a directory,
        # unless x was made absolute first (`abspath` / `realpath`) or the result is given a fallback (`dirname(x) or "."`).
        for c in ast.walk(f.node):
            if not (isinstance(c, ast.Call) and isinstance(c.func, (ast.Name, ast.Attribute)) and c.args) or enclosing_fn(c) is not f:
                continue
            en = prog.ext_name(c.func, c) or ""
            if en not in ("os.makedirs", "os.mkdir", "os.chdir"):
                continue
            a0 = c.args[0]
            if isinstance(a0, ast.Name):
                ds = [st.value for st in ast.walk(f.node) if isinstance(st, ast.Assign) and any(isinstance(t, ast.Name) and t.id == a0.id for t in st.targets)]
                a0 = ds[0] if len(ds) == 1 else a0
            if not (isinstance(a0, ast.Call) and isinstance(a0.func, (ast.Name, ast.Attribute)) and (prog.ext_name(a0.func, a0) or "") == "os.path.dirname" and a0.args):
                continue
            n += 1
            inner = a0.args[0]
            made_absolute = isinstance(inner, ast.Call) and isinstance(inner.func, (ast.Name, ast.Attribute)) and (prog.ext_name(inner.func, inner) or "") in (
                "os.path.abspath", "os.path.realpath")
            guarded = False
            for t, pol in expr_guards(c, stop=f.node):
                if pol and any(isinstance(x, ast.Call) and isinstance(x.func, (ast.Name, ast.Attribute)) and (prog.ext_name(x.func, x) or "") == "os.path.dirname" for x in ast.walk(t)):
                    guarded = True
                if pol and isinstance(c.args[0], ast.Name) and any(isinstance(x, ast.Name) and x.id == c.args[0].id for x in ast.walk(t)):
                    guarded = True
            inst = "%s: %s" % (where, src(c, 50))
            if made_absolute or guarded:
                rep.holds("DIRNAME-EMPTY", inst, loc(prog, c), "the path was made absolute first / the empty directory name is excluded")
            else:
                rep.violation(Finding(
                    "DIRNAME-EMPTY", where, "directory-call-on-bare-dirname:%s" % en,
                    "%s: for a file named without a directory (`method.py`) `dirname` is the empty string and %s(\"\") raises FileNotFoundError (with exist_ok=True "
                    "too) - an accepted invocation that names its file in the current directory ends in a traceback" % (src(c, 60), en), loc(prog, c)))
        # ---------------------------------------------------------------- SLICE-WRAP
        for sub in ast.walk(f.node):
            if not (isinstance(sub, ast.Subscript) and isinstance(sub.slice, ast.Slice)) or enclosing_fn(sub) is not f:
                continue
            for bound in (sub.slice.lower, sub.slice.upper):
                if not (isinstance(bound, ast.BinOp) and isinstance(bound.op, ast.Sub) and isinstance(bound.right, ast.Constant) and isinstance(bound.right.value, int)
                        and bound.right.value > 0 and isinstance(bound.left, ast.Name)):
                    continue
                idx, k = bound.left.id, bound.right.value
                # only positions: a name bound from a search (`s.find(..)`, `.index(..)`, a package search that answers (start, end, ..)), a loop counter or a length
                defs = [st for st in ast.walk(f.node) if isinstance(st, (ast.Assign, ast.For, ast.comprehension)) and any(
                    isinstance(t, ast.Name) and t.id == idx for tt in (st.targets if isinstance(st, ast.Assign) else [st.target]) for t in ast.walk(tt))]
                if not defs or idx in f.params():
                    continue

                def zero_based(st):
                    """the definition makes idx a position that can be 0: the answer of a search (`s.find`, `.index`, a function that answers a tuple
                    of positions), a loop counter; not a 1-based line number or anything else"""
                    if isinstance(st, (ast.For, ast.comprehension)):
                        it = st.iter
                        if isinstance(it, ast.Name):
                            ds = [x.value for x in ast.walk(f.node) if isinstance(x, ast.Assign) and any(isinstance(t, ast.Name) and t.id == it.id for t in x.targets)]
                            it = ds[0] if len(ds) == 1 else it
                        return isinstance(it, ast.Call) and isinstance(it.func, ast.Name) and it.func.id in ("range", "enumerate")
                    v = st.value
                    if isinstance(v, ast.Call) and isinstance(v.func, ast.Attribute) and v.func.attr in ("find", "rfind", "index", "rindex"):
                        return True
                    if isinstance(v, ast.Call) and any(isinstance(t, ast.Tuple) for t in st.targets):
                        return True   # `start, end, found = search(..)`
                    return False
                if not any(zero_based(st) for st in defs):
                    continue
                n += 1
                inst = "%s: %s" % (where, src(sub, 50))
                ok = None
                for t, pol in expr_guards(sub, stop=f.node):
                    for atom, p_ in facts(t, pol):
                        if not (isinstance(atom, ast.Compare) and len(atom.ops) == 1) or idx not in {x.id for x in ast.walk(atom) if isinstance(x, ast.Name)}:
                            continue
                        op, l, r = atom.ops[0], atom.left, atom.comparators[0]
                        lo = None  # a lower bound on idx that the fact gives
                        l_is = isinstance(l, ast.Name) and l.id == idx
                        l_is_minus = isinstance(l, ast.BinOp) and isinstance(l.op, ast.Sub) and isinstance(l.left, ast.Name) and l.left.id == idx and isinstance(l.right, ast.Constant)
                        if isinstance(r, ast.Constant) and isinstance(r.value, int) and (l_is or l_is_minus):
                            shift = l.right.value if l_is_minus else 0
                            if isinstance(op, ast.Gt) and p_:
                                lo = r.value + 1 + shift
                            elif isinstance(op, ast.GtE) and p_:
                                lo = r.value + shift
                            elif isinstance(op, ast.Lt) and not p_:
                                lo = r.value + shift
                            elif isinstance(op, ast.LtE) and not p_:
                                lo = r.value + 1 + shift
                        if lo is not None and lo >= k:
                            ok = "guarded by %s" % src(atom, 30)
                if ok:
                    rep.holds("SLICE-WRAP", inst, loc(prog, sub), ok)
                else:
                    rep.violation(Finding(
                        "SLICE-WRAP", where, "slice-bound-may-go-negative:%s-%d" % (idx, k),
                        "the slice bound %s is negative when %s is %s - a position a search can answer (the thing looked for starts the text) - and a negative bound counts "
                        "from the end: %s then keeps almost the whole text instead of nothing" % (src(bound, 30), idx, " or ".join(str(v) for v in range(k)), src(sub, 40)), loc(prog, sub)))
    rep.ob("PITFALL", "%d functions scanned for late-bound closures, stale captures, shared mutable defaults, substring membership and slice bounds that wrap" % len(fns), "holds", "",
           "%d candidate(s) examined" % n)
    if scope is None and len(fns) < 100:
        raise AnalysisError("PITFALL: only %d functions scanned" % len(fns))
